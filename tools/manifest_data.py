SOURCE_COMMITS = []
NOTES = ("All checks decide by runtime monitoring (see DESIGN.md). Exit codes: 0 held, 1 violation "
         "(VIOLATION line), 2 inconclusive (INCONCLUSIVE line; the deciding monitor observed too little "
         "or a shard died). Known findings are listed in known_findings.json.")
NOT_YET = {}
CHECKS = {}

def _c(category, text, note, technique):
    return {'category': category, 'text': text, 'note': note, 'technique': technique}

CHECKS['C01'] = _c('exploration',
    "Differential runtime monitoring of the real codec: every message class (158) x boundary-biased seeded values is serialised by the real code and compared byte-for-byte with an independent reference codec driven by a pinned layout table; round trip through deserialize, the four dispatchers and real connection objects (plain/obfuscated); obfuscation vs a reference for all lengths 0..300 (thorough 0..1100) x 5+ keys. Held on the values explored; not a proof over the whole value domain.",
    "Trusts pinned/layout.json + pinned/vectors.json (extracted at the pinned commit, the reference is re-verified against 324 hand-written unit-test vectors in every shard); values stay inside the stated wire domain; zlib's byte stream itself is not pinned.",
    "differential monitoring against an independent reference codec + pinned layout")
CHECKS['C09'] = _c('exploration',
    "Runtime contract monitoring of the real naming strategies: ~20k (thorough ~1M) (remote path, chain, pre-existing directory content) sub-cases on a real temp file system; oracle evaluates containment by realpath, name validity and freshness of every returned (dir, name). The first 448 pairs are a fixed enumeration of short paths over 11 component kinds. Workload B (schedules of concurrent equally named downloads) is run on the simulated world.",
    "Freshness is only demanded of chains whose last strategy is NumberDuplicate; paths without any file-name component ('', '.', '..' only) may be rejected; OS limits (NAME_MAX) and symlinks are not modelled.",
    "postcondition monitoring over generated inputs on a real file system")
CHECKS['C19'] = _c('exploration',
    "Reference-model monitoring: the real logged-in client is fed seeded notification sequences (length 1..12, 25 kinds, 2 rooms x 3 users) by the scripted server; after every notification all room fields and user fields are compared with a pure fold written from the statement, emitted events are checked for target/blocked filtering, private-message acks are checked at the server. Quick enumerates all length-1 sequences over a 49-letter alphabet, thorough all length<=2 (2450).",
    "Model decisions where the statement is silent (RoomList, rooms only named by chat lines, list order, user_count/country) are not judged; see vf/roommodel.py.",
    "online comparison with an executable reference model (fold) + event trace rules")
CHECKS['C20'] = _c('exploration',
    "Trace checking of grant histories: the real limiters inside a real Network are driven under virtual time by 1-4 consumers with seeded gap patterns and run-time limit changes; every window of every history is checked against the exact token-bucket bound (per limiter object, and across changes), an icontract class invariant (0 <= bucket <= limit) runs after every public method, suspension while unlimited and bounded return time (120 virtual s) are monitored; plus two-client transfers with limits observed at send_data/receive_data.",
    "Virtual time; the stall rule is judged only with seeded 0.2-3 ms timer lateness (exactly periodic virtual timers phase-lock the 10 ms polling, which no real clock does); <= 4 consumers.",
    "offline trace checker over recorded grant histories + icontract invariant")

CHECKS['C04'] = _c('fault_enumeration',
    "Fault-injection monitoring on the simulated network: two real clients (or one real client and a scripted dishonest peer) transfer files of boundary sizes while a fault plan resets / FINs / silently drops the file connection at a chosen file position (systematic grid per size; thorough: every cut point for sizes <= 300, plus thousands of seeded multi-fault plans), inside the ticket and inside the offset. Oracles run on the taps and at listener notifications: whole-file comparison at every COMPLETE, local file a prefix of the source at every edge out of DOWNLOADING, offset on the wire == local size at that instant, delivered payload == source[offset:], uploader COMPLETE only after writing all bytes on an ended connection, and both sides COMPLETE within 2 virtual hours after the last reset.",
    "Convergence is demanded only for the fault kinds the quantifier names as network breaks (reset); FIN = cancel by the peer; silent loss is judged for corruption only. TCP model: in-order delivery, window, RST/FIN semantics of vf/simnet.py. Disk faults not modelled.",
    "fault injection at enumerated cut points + conservation / prefix oracles over byte taps")
CHECKS['C07'] = _c('exploration',
    "Reference-model monitoring of the real SharesManager on a real temp file system: seeded histories (<= 8 ops) of add/remove/update/scan/rescan/disk mutations/settings reload/cache round trip, ~45 queries per history built from the tree's own words; every query result is compared with a character-scanning reference predicate over a reference ownership index; after every full scan the index is compared with 'walk the disk, innermost owner wins'; stats compared with the index.",
    "Alphabet restricted to characters whose lower() is 1:1; queries without include/wildcard term are not judged; attribute scanning (mutagen) not covered; trees <= ~30 files.",
    "differential monitoring against an executable reference model (index + predicate)")

CHECKS['C03'] = _c('exploration',
    "Trace-automaton monitoring of the real transfer state machine: M1 a listener registered first on every Transfer checks every notified (old,new) against the pinned graph and for continuity; M2 observes every state operation INSIDE the transfer's own lock (instrumented asyncio.Lock subclass installed at Transfer creation): state dispatched on vs state at lock time, result, and a snapshot of file/reasons/timestamps/tasks before and after (refused operations must change nothing); M3 the public manager calls raise iff refused. Workloads: the exhaustive 187-cell state x operation x direction matrix, thousands of seeded 2-3-operation races while a slow operation holds the lock, and live two-client transfers with user calls landing at seeded instants.",
    "pinned/transfer_graph.json is the documented graph; in the race workload the slow transfer task is a harness coroutine that honours cancellation after k loop steps; the live workload uses the real tasks.",
    "trace automaton over listener notifications + invariant hook inside the object's own lock")

CHECKS['C11'] = _c('fault_enumeration',
    "Fault-enumeration monitoring of the real Network inside a logged-in client against a scripted peer and server: the connect mode x direct behaviour x indirect behaviour grid (60 cells) is enumerated in every run, ports / obfuscation preference / connection type / cancellation point / latencies (incl. both outcomes within one loop step) are seeded. Oracle on the boundary: outcome == (a path can work), the returned connection carries a message each way, and 120 virtual seconds later registry, simulated sockets, ticket waiters, cannot-connect waiters and connect tasks are compared with 'exactly the returned connection remains'. Connect-back duty: for every relayed ConnectToPeer exactly one of pierce-firewall (on the tap) / CannotConnect (at the server).",
    "What 'can work' means is fixed by the scenario (connect completes < 10 s and init accepted; peer pierces < 60 s with the server up). Cancelled requests are judged for residue only.",
    "fault enumeration over a scenario grid + residue comparison against simulated-network ground truth")
CHECKS['C12'] = _c('exploration',
    "Reference-model monitoring of pending requests: 1-4 concurrent requests (wait_for_*, create_*_response_future, execute(response=True) for six commands, request_place_in_queue) against seeded message sequences carrying unique ids from the server and two peers on an exact dyadic time grid (arrival == deadline == cancel instants occur in controlled orders, several frames per segment processed back-to-back); each request's outcome is compared with a fold over the observed MessageReceivedEvent order; residue and later delivery are checked at quiescence; 118 hand-written minimal histories run first.",
    "Where arrival and deadline/cancel coincide both outcomes are accepted; connection loss while pending, D/F connections and obfuscated links are not covered.",
    "history + executable model (per-request fold over the delivered message order)")
CHECKS['C15'] = _c('exploration',
    "Reference-model monitoring of user tracking: seeded track/untrack sequences (<= 8 calls, 2 users, 3 flags) with the gap between calls as schedule knob (k yields, delays around the worker's progress and the library's own 10/20/600 s timers), per-attempt scripted server answers (exists / not-exists / silence), up to two server disconnects + re-login; the frames recorded by the scripted server are judged per session against the fold of the calls (T-up AddUser, T-down RemoveUser, legitimate retries only after the documented delay while a reason remains), flags/state at quiescence, residue after a disconnect. Exhaustive in every run: track; {5 worker situations}; untrack; k=0..12 yields; track for all 9 flag pairs (585 cases) and a 144-case send-failure sweep.",
    "Calls made while plainly disconnected are not judged; a call inside the CLOSED dispatch is accepted under both readings.",
    "history + executable model over server-side frame logs, exhaustive gap sweep")
CHECKS['C17'] = _c('exploration',
    "Round-trip monitoring of the real TransferShelveCache and TransferManager.load_data: seeded lists of 0-8 transfers over every state x direction x field combination (legacy pickles, non-ASCII, concatenation-colliding identities) through histories of write / mutate / remove / add / write with restarts; after each load the set, fields, repaired state, flags, listener wiring, lock and scheduling eligibility are compared with the model. Crash points: two real clients transferring on the simulated net, write_cache at a state edge, brutal process end (tasks cancelled, sockets aborted) or stop(), restart on the same caches, resumed download checked with the C04 oracle.",
    "An UPLOADING record with bytes missing loading as INCOMPLETE is accepted (statement: 'INCOMPLETE otherwise'); bounded progress after a restart is not demanded.",
    "round-trip comparison with a reference model + crash-point injection")
CHECKS['C18'] = _c('exploration',
    "Trace checking against a reference fold: seeded step scripts (search / room / user search, wishlist rounds, manual removal, peer replies with live / stale / unknown / duplicate tickets, operations on the public request.timer) with steps placed exactly at timer deadlines in both orders; one ordered log of bus events, harness actions and registry snapshots is folded into the set of live requests and judged (result iff live and same ticket, distinct live tickets, removal exactly once at t+timeout, nothing after a manual removal, cancelled / re-armed timers never fire for a superseded deadline). Cases 0-242 enumerate every single follow-up x search type x 8 positions around the deadline.",
    "A KeyError raised synchronously by remove_request for a request that is no longer registered is not judged.",
    "offline trace checker (fold) over an ordered event log with same-instant races")

CHECKS['C10'] = _c('fault_enumeration',
    "Trace-automaton monitoring of every connection object of a real client: an online automaton over ConnectionStateChangedEvent / MessageReceivedEvent (forward-only states, CLOSED exactly once, nothing after it, no delivery after it, no byte on the tap for a send after it) plus a structural comparison, at quiescent moments, of the registry of peer connections with the simulated network's open endpoints and with the tasks that created the connections. Workload: enumerated/seeded endings (9 incoming init behaviours, outgoing, plain/obfuscated, P/D/F; local disconnect x1-3, remote EOF/RST, read timeout, write timeout, both sides at once, client stop), plus the C11 request grid with cancellation of the connecting task after k = 0..14 loop steps and the connect-back scenarios.",
    "A closing endpoint whose FIN is in flight is not a leak; an idle outgoing file connection is given a reader as the library's own callers do.",
    "online trace automaton + structural invariant against simulated-network ground truth at quiescent points")

CHECKS['C05'] = _c('exploration',
    "Trace monitoring of the real TransferManager of an uploading client against 1-5 scripted downloaders: occupancy is maintained from listener notifications only and judged at every edge into INITIALIZING (<= the slot limit in force at the granting decision, one per user); a wrapper around manage_transfers records every scheduling decision (queued uploads, grants = new initialisation tasks) and judges priority against ranks folded independently from the server frames the client processed (and voided when the client untracks a user); bounded progress (grant within 1 virtual second with a free slot and an eligible queued upload) is checked at quiescence. Seeded populations (status/friend/privilege), slot limits 0..4 changed at run time, holds of 0.2-6 s so that decisions overlap occupied slots, rejections, silent and vanishing peers, user aborts, status/privilege pushes.",
    "Tiers privileged > friend > online/away > unknown, offline never, ties free. The scripted server reports status only for users the client asked about.",
    "trace monitoring of scheduling decisions + independent fold of server announcements")
