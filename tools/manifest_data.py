SOURCE_COMMITS = []
NOTES = ("All checks decide by runtime monitoring (see DESIGN.md). Exit codes: 0 held, 1 violation "
         "(VIOLATION line), 2 inconclusive (INCONCLUSIVE line; the deciding monitor observed too little "
         "or a shard died). Known findings are listed in known_findings.json.")
NOT_YET = {}
CHECKS = {}

def _c(category, text, note, technique):
    return {'category': category, 'text': text, 'note': note, 'technique': technique}

CHECKS['C01'] = _c('exploration',
    "Differential runtime monitoring of the real codec: every message class (158) x boundary-biased seeded values is serialised by the real code and compared byte-for-byte with an independent reference codec driven by a pinned layout table; round trip through deserialize, the four dispatchers and real connection objects (plain/obfuscated); obfuscation vs a reference for all lengths 0..300 (thorough 0..1100) x 5+ keys. Held on the values explored; not a proof over the whole value domain.",
    "Trusts pinned/layout.json + pinned/vectors.json (extracted at the pinned commit, the reference is re-verified against 324 hand-written unit-test vectors in every shard); values stay inside the stated wire domain; zlib's byte stream itself is not pinned.",
    "differential monitoring against an independent reference codec + pinned layout")
CHECKS['C09'] = _c('exploration',
    "Runtime contract monitoring of the real naming strategies: ~20k (thorough ~1M) (remote path, chain, pre-existing directory content) sub-cases on a real temp file system; oracle evaluates containment by realpath, name validity and freshness of every returned (dir, name). The first 448 pairs are a fixed enumeration of short paths over 11 component kinds. Workload B (schedules of concurrent equally named downloads) is run on the simulated world.",
    "Freshness is only demanded of chains whose last strategy is NumberDuplicate; paths without any file-name component ('', '.', '..' only) may be rejected; OS limits (NAME_MAX) and symlinks are not modelled.",
    "postcondition monitoring over generated inputs on a real file system")
CHECKS['C19'] = _c('exploration',
    "Reference-model monitoring: the real logged-in client is fed seeded notification sequences (length 1..12, 25 kinds, 2 rooms x 3 users) by the scripted server; after every notification all room fields and user fields are compared with a pure fold written from the statement, emitted events are checked for target/blocked filtering, private-message acks are checked at the server. Quick enumerates all length-1 sequences over a 49-letter alphabet, thorough all length<=2 (2450).",
    "Model decisions where the statement is silent (RoomList, rooms only named by chat lines, list order, user_count/country) are not judged; see vf/roommodel.py.",
    "online comparison with an executable reference model (fold) + event trace rules")
CHECKS['C20'] = _c('exploration',
    "Trace checking of grant histories: the real limiters inside a real Network are driven under virtual time by 1-4 consumers with seeded gap patterns and run-time limit changes; every window of every history is checked against the exact token-bucket bound (per limiter object, and across changes), an icontract class invariant (0 <= bucket <= limit) runs after every public method, suspension while unlimited and bounded return time (120 virtual s) are monitored; plus two-client transfers with limits observed at send_data/receive_data.",
    "Virtual time; the stall rule is judged only with seeded 0.2-3 ms timer lateness (exactly periodic virtual timers phase-lock the 10 ms polling, which no real clock does); <= 4 consumers.",
    "offline trace checker over recorded grant histories + icontract invariant")

CHECKS['C04'] = _c('fault_enumeration',
    "Fault-injection monitoring on the simulated network: two real clients (or one real client and a scripted dishonest peer) transfer files of boundary sizes while a fault plan resets / FINs / silently drops the file connection at a chosen file position (systematic grid per size; thorough: every cut point for sizes <= 300, plus thousands of seeded multi-fault plans), inside the ticket and inside the offset. Oracles run on the taps and at listener notifications: whole-file comparison at every COMPLETE, local file a prefix of the source at every edge out of DOWNLOADING, offset on the wire == local size at that instant, delivered payload == source[offset:], uploader COMPLETE only after writing all bytes on an ended connection, and both sides COMPLETE within 2 virtual hours after the last reset.",
    "Convergence is demanded only for the fault kinds the quantifier names as network breaks (reset); FIN = cancel by the peer; silent loss is judged for corruption only. TCP model: in-order delivery, window, RST/FIN semantics of vf/simnet.py. Disk faults not modelled.",
    "fault injection at enumerated cut points + conservation / prefix oracles over byte taps")
CHECKS['C07'] = _c('exploration',
    "Reference-model monitoring of the real SharesManager on a real temp file system: seeded histories (<= 8 ops) of add/remove/update/scan/rescan/disk mutations/settings reload/cache round trip, ~45 queries per history built from the tree's own words; every query result is compared with a character-scanning reference predicate over a reference ownership index; after every full scan the index is compared with 'walk the disk, innermost owner wins'; stats compared with the index.",
    "Alphabet restricted to characters whose lower() is 1:1; queries without include/wildcard term are not judged; attribute scanning (mutagen) not covered; trees <= ~30 files.",
    "differential monitoring against an executable reference model (index + predicate)")

CHECKS['C03'] = _c('exploration',
    "Trace-automaton monitoring of the real transfer state machine: M1 a listener registered first on every Transfer checks every notified (old,new) against the pinned graph and for continuity; M2 observes every state operation INSIDE the transfer's own lock (instrumented asyncio.Lock subclass installed at Transfer creation): state dispatched on vs state at lock time, result, and a snapshot of file/reasons/timestamps/tasks before and after (refused operations must change nothing); M3 the public manager calls raise iff refused. Workloads: the exhaustive 187-cell state x operation x direction matrix, thousands of seeded 2-3-operation races while a slow operation holds the lock, and live two-client transfers with user calls landing at seeded instants.",
    "pinned/transfer_graph.json is the documented graph; in the race workload the slow transfer task is a harness coroutine that honours cancellation after k loop steps; the live workload uses the real tasks.",
    "trace automaton over listener notifications + invariant hook inside the object's own lock")
