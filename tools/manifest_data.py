SOURCE_COMMITS = []
NOTES = ("All checks decide by runtime monitoring (see DESIGN.md). Exit codes: 0 held, 1 violation "
         "(VIOLATION line), 2 inconclusive (INCONCLUSIVE line; the deciding monitor observed too little "
         "or a shard died). Known findings are listed in known_findings.json.")
NOT_YET = {}
CHECKS = {}

def _c(category, text, note, technique):
    return {'category': category, 'text': text, 'note': note, 'technique': technique}

CHECKS['C01'] = _c('exploration',
    "Differential runtime monitoring of the real codec: every message class (158) x boundary-biased seeded values is serialised by the real code and compared byte-for-byte with an independent reference codec driven by a pinned layout table; round trip through deserialize, the four dispatchers and real connection objects (plain/obfuscated); obfuscation vs a reference for all lengths 0..300 (thorough 0..1100) x 5+ keys. Held on the values explored; not a proof over the whole value domain.",
    "Trusts pinned/layout.json + pinned/vectors.json (extracted at the pinned commit, the reference is re-verified against 324 hand-written unit-test vectors in every shard); values stay inside the stated wire domain; zlib's byte stream itself is not pinned.",
    "differential monitoring against an independent reference codec + pinned layout")
CHECKS['C09'] = _c('exploration',
    "Runtime contract monitoring of the real naming strategies: ~20k (thorough ~1M) (remote path, chain, pre-existing directory content) sub-cases on a real temp file system; oracle evaluates containment by realpath, name validity and freshness of every returned (dir, name). The first 448 pairs are a fixed enumeration of short paths over 11 component kinds. Workload B (schedules of concurrent equally named downloads) is run on the simulated world.",
    "Freshness is only demanded of chains whose last strategy is NumberDuplicate; paths without any file-name component ('', '.', '..' only) may be rejected; OS limits (NAME_MAX) and symlinks are not modelled.",
    "postcondition monitoring over generated inputs on a real file system")
CHECKS['C19'] = _c('exploration',
    "Reference-model monitoring: the real logged-in client is fed seeded notification sequences (length 1..12, 25 kinds, 2 rooms x 3 users) by the scripted server; after every notification all room fields and user fields are compared with a pure fold written from the statement, emitted events are checked for target/blocked filtering, private-message acks are checked at the server. Quick enumerates all length-1 sequences over a 49-letter alphabet, thorough all length<=2 (2450).",
    "Model decisions where the statement is silent (RoomList, rooms only named by chat lines, list order, user_count/country) are not judged; see vf/roommodel.py.",
    "online comparison with an executable reference model (fold) + event trace rules")
CHECKS['C20'] = _c('exploration',
    "Trace checking of grant histories: the real limiters inside a real Network are driven under virtual time by 1-4 consumers with seeded gap patterns and run-time limit changes; every window of every history is checked against the exact token-bucket bound (per limiter object, and across changes), an icontract class invariant (0 <= bucket <= limit) runs after every public method, suspension while unlimited and bounded return time (120 virtual s) are monitored; plus two-client transfers with limits observed at send_data/receive_data.",
    "Virtual time; the stall rule is judged only with seeded 0.2-3 ms timer lateness (exactly periodic virtual timers phase-lock the 10 ms polling, which no real clock does); <= 4 consumers.",
    "offline trace checker over recorded grant histories + icontract invariant")
