SOURCE_COMMITS = []
NOTES = ("All checks decide by runtime monitoring (see DESIGN.md). Exit codes: 0 held, 1 violation "
         "(VIOLATION line), 2 inconclusive (INCONCLUSIVE line; the deciding monitor observed too little "
         "or a shard died). Known findings are listed in known_findings.json.")
NOT_YET = {}
CHECKS = {}
