#!/bin/sh
# Runs the repository's own test suite (hooks off) in a private network namespace (the e2e tests bind fixed
# ports) and exits 0 only when every test passed.  usage: tools/run_suite.sh [tree]   (default /repo)
T="${1:-/repo}"
OUT="$(unshare -rn sh -c "ip link set lo up && cd $T && PYTHONPATH=$T/src /venv/bin/python -m pytest -q -p no:cacheprovider --timeout=900 2>&1 | tail -1")"
echo "$OUT"
echo "$OUT" | grep -q "^782 passed" 
