#!/bin/sh
# tools/seeded_confirm.sh <PROP> <n> [check-props...]
# Confirms a seeded change produced in /tmp/wt-<PROP>/_seeded/<n>: suite passes with it, demo fails with it and
# passes without; then runs the quick checks of the given properties (default: <PROP>) against the patched
# scratch worktree (VERIF_REPO) and records everything under /verif/seeded/<PROP>-<n>/.
set -u
P="$1"; N="$2"; shift 2
CHECKS="${*:-$P}"
WT="/tmp/wt-$P"; SRC="$WT/_seeded/$N"; DST="/verif/seeded/$P-$N"
mkdir -p "$DST"
cp "$SRC/patch.diff" "$DST/patch.diff"; cp "$SRC"/demo_test.py "$DST/" 2>/dev/null; cp "$SRC/meta.json" "$DST/agent_meta.json" 2>/dev/null
cd "$WT" || exit 2
git checkout -q -- . ; git status --short | grep -v _seeded
demo() { PYTHONPATH="$WT/src" timeout 600 /venv/bin/python -m pytest -q -p no:cacheprovider "$SRC/demo_test.py" 2>&1 | tail -1; }
echo "== demo without patch:"; D0="$(demo)"; echo "$D0"
git apply "$SRC/patch.diff" || { echo "patch does not apply"; exit 2; }
echo "== demo with patch:"; D1="$(demo)"; echo "$D1"
echo "== suite with patch:"; S1="$(unshare -rn sh -c "ip link set lo up && cd $WT && PYTHONPATH=$WT/src timeout 900 /venv/bin/python -m pytest -q -p no:cacheprovider --timeout=900 --ignore=_seeded 2>&1 | tail -1")"; echo "$S1"
RES=""
for C in $CHECKS; do
  echo "== check $C against the patched tree:"
  OUT="$(cd /verif && VERIF_REPO="$WT" ./check "$C" --tier quick 2>&1)"; RC=$?
  echo "$OUT" | grep -E "VIOLATION|signature|INCONCLUSIVE|tier=" | cut -c1-220 | head -12
  SIGS="$(echo "$OUT" | grep 'signature:' | sed 's/.*signature: //' | cut -c1-150 | head -6 | tr '\n' ';')"
  RES="$RES{\"check\":\"$C\",\"exit\":$RC,\"signatures\":\"$SIGS\"},"
done
git checkout -q -- .
cat > "$DST/confirm.json" <<J
{"property":"$P","n":$N,"demo_without_patch":"$D0","demo_with_patch":"$D1","suite_with_patch":"$S1","checks":[${RES%,}]}
J
# evidence files were rewritten by the runs against the patched tree: restore them from git
cd /verif && git checkout -q -- evidence 2>/dev/null
echo "== recorded in $DST/confirm.json"
