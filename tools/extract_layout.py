#!/usr/bin/env python3
"""Dev tool: pin the protocol layout and the hand-written byte vectors (DESIGN §4 C01).

Run ONCE against the pinned commit of /repo:

    PYTHONPATH=/repo/src /venv/bin/python /verif/tools/extract_layout.py

writes

* /verif/pinned/layout.json  -- for every nested ``Request``/``Response`` dataclass of every
  subclass of ServerMessage / PeerInitializationMessage / PeerMessage / DistributedMessage
  and for the 8 record types of ``primitives``: family, qualified name, message code and
  its width, zlib flag, and per field name / wire type / element type / if_true / if_false
  / optional / default.
* /verif/pinned/vectors.json -- every (message value, hand-written bytes) pair that the
  tests of tests/unit/protocol/test_messages.py assert, plus the obfuscation vectors of
  test_obfuscation.py.

After generation both files are DATA and are committed. The check (vf/props/c01.py) only
reads them; it never calls this tool, so that a later change of a field's type, order or
condition, or of a MESSAGE_ID, shows up as a byte disagreement with the pinned layout.

How the vectors are harvested: the test methods keep their pair in local variables /
inline expressions, so each test method is *executed* once (parametrised ones once per
parameter) with ``MessageDataclass.serialize`` / ``.deserialize`` wrapped by a recorder.
A recorded (object, bytes) pair becomes a vector only if (a) the test passed -- i.e. the
test's own assertion tied it to its hand-written counterpart -- and (b) the bytes occur
literally as a hex string in the test file (provenance: written by hand, not produced by
the code). Vectors are therefore ground truth that does not come from the code under test.
"""
from __future__ import annotations

import dataclasses
import importlib.util
import inspect
import json
import os
import sys

REPO = os.environ.get('VERIF_REPO', '/repo')
HERE = os.path.dirname(os.path.dirname(os.path.abspath(__file__)))
OUT = os.path.join(HERE, 'pinned')

sys.path.insert(0, os.path.join(REPO, 'src'))

from aioslsk.protocol import messages as M  # noqa: E402
from aioslsk.protocol import primitives as P  # noqa: E402

FAMILIES = [
    ('server', M.ServerMessage),
    ('peerinit', M.PeerInitializationMessage),
    ('peer', M.PeerMessage),
    ('distributed', M.DistributedMessage),
]
RECORDS = ['Attribute', 'SimilarUser', 'Recommendation', 'RoomTicker', 'PotentialParent',
           'UserStats', 'FileData', 'DirectoryData']


def field_spec(fld: dataclasses.Field) -> dict:
    md = fld.metadata
    unknown = set(md) - {'type', 'subtype', 'if_true', 'if_false', 'optional'}
    if unknown:
        raise SystemExit(f'unknown metadata keys {unknown} on {fld.name}')
    spec = {'name': fld.name, 'type': md['type'].__name__}
    if 'subtype' in md:
        spec['subtype'] = md['subtype'].__name__
    if 'if_true' in md:
        spec['if_true'] = md['if_true']
    if 'if_false' in md:
        spec['if_false'] = md['if_false']
    if 'optional' in md:
        # presence of the key is what the codec tests
        spec['optional'] = True
    if fld.default is not dataclasses.MISSING:
        spec['has_default'] = True
        spec['default'] = fld.default
    if fld.default_factory is not dataclasses.MISSING:
        raise SystemExit(f'default_factory on {fld.name}: extend the tool')
    return spec


def is_compressed(cls) -> bool:
    par = inspect.signature(cls.serialize).parameters.get('compress')
    return bool(par is not None and par.default is True)


def extract_layout() -> dict:
    messages = []
    for family, base in FAMILIES:
        for order, sub in enumerate(base.__subclasses__()):
            for kind in ('Request', 'Response'):
                cls = sub.__dict__.get(kind)
                if cls is None:
                    continue
                if not (dataclasses.is_dataclass(cls) and issubclass(cls, P.MessageDataclass)):
                    raise SystemExit(f'{sub.__name__}.{kind} is not a MessageDataclass')
                messages.append({
                    'family': family,
                    'name': f'{sub.__name__}.{kind}',
                    'cls': sub.__name__,
                    'kind': kind,
                    'dispatch_order': order,
                    'code': int(cls.MESSAGE_ID),
                    'code_width': type(cls.MESSAGE_ID).__name__,
                    'compressed': is_compressed(cls),
                    'fields': [field_spec(f) for f in dataclasses.fields(cls)],
                })
    records = []
    for name in RECORDS:
        cls = getattr(P, name)
        records.append({'name': name, 'fields': [field_spec(f) for f in dataclasses.fields(cls)]})
    return {
        'note': 'PINNED DATA (tools/extract_layout.py, run once). Do not regenerate from a changed tree.',
        'messages': messages,
        'records': records,
    }


# ---------------------------------------------------------------------------------------
# vectors

def to_plain(value):
    """Real value -> JSON-able plain tree (records become {'__rec__': name, 'f': {...}})."""
    if value is None or isinstance(value, (bool, str)):
        return value
    if isinstance(value, int):
        return int(value)
    if isinstance(value, (bytes, bytearray)):
        return {'__bytes__': bytes(value).hex()}
    if isinstance(value, (list, tuple)):
        return [to_plain(v) for v in value]
    if dataclasses.is_dataclass(value):
        return {'__rec__': type(value).__name__,
                'f': {f.name: to_plain(getattr(value, f.name)) for f in dataclasses.fields(value)}}
    raise TypeError(f'cannot represent {type(value)}')


def qualname_of(cls) -> str:
    outer, _, kind = cls.__qualname__.rpartition('.')
    return f'{outer}.{kind}'


def harvest_message_vectors() -> tuple[list, dict]:
    import pytest  # noqa: F401  (the test module imports it)
    path = os.path.join(REPO, 'tests', 'unit', 'protocol', 'test_messages.py')
    source_lc = open(path).read().lower()
    spec = importlib.util.spec_from_file_location('c01_harvest_test_messages', path)
    mod = importlib.util.module_from_spec(spec)
    spec.loader.exec_module(mod)

    events: list = []
    orig_ser = P.MessageDataclass.serialize
    orig_de = P.MessageDataclass.deserialize.__func__

    def rec_ser(self, *a, **kw):
        out = orig_ser(self, *a, **kw)
        events.append(('ser', self, bytes(out)))
        return out

    def rec_de(cls, pos, message, *a, **kw):
        obj = orig_de(cls, pos, message, *a, **kw)
        if pos == 0:
            events.append(('de', obj, bytes(message)))
        return obj

    stats = {'test_methods': 0, 'runs': 0, 'runs_failed': 0, 'runs_without_pair': 0,
             'pairs_recorded': 0, 'pairs_not_handwritten': 0, 'pairs_unrepresentable': 0,
             'skipped_methods': []}
    vectors = []
    seen = set()
    P.MessageDataclass.serialize = rec_ser
    P.MessageDataclass.deserialize = classmethod(rec_de)
    try:
        for cname, tcls in sorted(vars(mod).items()):
            if not (inspect.isclass(tcls) and cname.startswith('Test')):
                continue
            for mname, func in sorted(vars(tcls).items()):
                if not (mname.startswith('test') and inspect.isfunction(func)):
                    continue
                stats['test_methods'] += 1
                params = [p for p in inspect.signature(func).parameters if p != 'self']
                arg_sets = [{}]
                marks = [m for m in getattr(func, 'pytestmark', []) if m.name == 'parametrize']
                if marks:
                    arg_sets = []
                    for mark in marks:
                        names = [n.strip() for n in mark.args[0].split(',')]
                        for vals in mark.args[1]:
                            if len(names) == 1:
                                vals = (vals,)
                            arg_sets.append(dict(zip(names, vals)))
                if any(set(params) - set(a) for a in arg_sets):
                    stats['skipped_methods'].append(f'{cname}.{mname} (needs fixtures {params})')
                    continue
                for args in arg_sets:
                    stats['runs'] += 1
                    del events[:]
                    try:
                        func(tcls(), **args)
                    except BaseException as exc:  # noqa
                        stats['runs_failed'] += 1
                        stats['skipped_methods'].append(f'{cname}.{mname}: {type(exc).__name__}: {exc}'[:200])
                        continue
                    got = 0
                    for direction, obj, data in events:
                        stats['pairs_recorded'] += 1
                        if data.hex() not in source_lc:
                            stats['pairs_not_handwritten'] += 1
                            continue
                        try:
                            fields = {f.name: to_plain(getattr(obj, f.name)) for f in dataclasses.fields(obj)}
                        except TypeError:
                            stats['pairs_unrepresentable'] += 1
                            continue
                        got += 1
                        vec = {'cls': qualname_of(type(obj)), 'direction': direction,
                               'fields': fields, 'hex': data.hex(), 'test': f'{cname}.{mname}'}
                        key = json.dumps([vec['cls'], vec['direction'], vec['fields'], vec['hex']], sort_keys=True)
                        if key not in seen:
                            seen.add(key)
                            vectors.append(vec)
                    if not got:
                        stats['runs_without_pair'] += 1
                        stats['skipped_methods'].append(f'{cname}.{mname}: no (message, bytes) pair')
    finally:
        P.MessageDataclass.serialize = orig_ser
        P.MessageDataclass.deserialize = classmethod(orig_de)
    return vectors, stats


def harvest_obfuscation_vectors() -> list:
    """(key, plain, obfuscated) triples of test_obfuscation.py's parametrize tables."""
    path = os.path.join(REPO, 'tests', 'unit', 'protocol', 'test_obfuscation.py')
    spec = importlib.util.spec_from_file_location('c01_harvest_test_obfuscation', path)
    mod = importlib.util.module_from_spec(spec)
    spec.loader.exec_module(mod)
    out = []
    for cname, tcls in vars(mod).items():
        if not (inspect.isclass(tcls) and cname.startswith('Test')):
            continue
        for mname, func in vars(tcls).items():
            for mark in getattr(func, 'pytestmark', []) if inspect.isfunction(func) else []:
                if mark.name != 'parametrize':
                    continue
                names = [n.strip() for n in mark.args[0].split(',')]
                for vals in mark.args[1]:
                    row = dict(zip(names, vals))
                    if 'obfuscated_data' in row:          # decode table: (key, obf-without-key, plain)
                        key, plain, obf = row['key'], row['expected_data'], row['key'] + row['obfuscated_data']
                    else:                                 # encode table: (key, plain, key+obf)
                        key, plain, obf = row['key'], row['data'], row['expected_obfuscated_data']
                    out.append({'key': key.hex(), 'plain': plain.hex(), 'obfuscated': obf.hex(),
                                'test': f'{cname}.{mname}'})
    return out


def pinned_from() -> str:
    import subprocess
    try:
        return subprocess.run(['git', '-C', REPO, 'log', '-1', '--format=%H %s', '--', 'src/aioslsk/protocol',
                               'tests/unit/protocol'], capture_output=True, text=True, timeout=20).stdout.strip()
    except Exception:  # noqa
        return 'unknown'


def main():
    os.makedirs(OUT, exist_ok=True)
    layout = extract_layout()
    layout['pinned_from'] = pinned_from()
    with open(os.path.join(OUT, 'layout.json'), 'w') as fh:
        json.dump(layout, fh, indent=1, sort_keys=False)
    fam = {}
    for m in layout['messages']:
        fam[(m['family'], m['kind'])] = fam.get((m['family'], m['kind']), 0) + 1
    print('layout.json:', len(layout['messages']), 'message classes', dict(sorted(fam.items())),
          len(layout['records']), 'record types')

    vectors, stats = harvest_message_vectors()
    obf = harvest_obfuscation_vectors()
    with open(os.path.join(OUT, 'vectors.json'), 'w') as fh:
        json.dump({'note': 'PINNED DATA harvested once from tests/unit/protocol (hand-written pairs).',
                   'pinned_from': layout['pinned_from'], 'harvest_stats': stats, 'messages': vectors, 'obfuscation': obf}, fh, indent=1)
    print('vectors.json:', len(vectors), 'distinct message vectors;', len(obf), 'obfuscation vectors')
    print(json.dumps(stats, indent=1))
    covered = {v['cls'] for v in vectors}
    missing = [m['name'] for m in layout['messages'] if m['name'] not in covered]
    print('message classes without any vector:', missing)


if __name__ == '__main__':
    main()
