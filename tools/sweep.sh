#!/bin/sh
# tools/sweep.sh <tier> <seeds...>   runs every registered check, prints one line per (check, seed)
TIER="$1"; shift
cd "$(dirname "$0")/.."
for S in "$@"; do
  for P in $(python3 -c "import json;print(' '.join(c['property_id'] for c in json.load(open('MANIFEST.json'))['checks']))"); do
    T0=$(date +%s)
    OUT="$(VERIF_SEED=$S ./check $P --tier $TIER 2>&1)"; RC=$?
    T1=$(date +%s)
    echo "$P seed=$S tier=$TIER exit=$RC wall=$((T1-T0))s $(echo "$OUT" | grep -E '^(VIOLATION|INCONCLUSIVE)' | head -3 | tr '\n' ' ' | cut -c1-200) $(echo "$OUT" | grep -c KNOWN-FINDING) known"
    [ $RC -ne 0 ] && echo "$OUT" | grep -E "signature|INCONCL|reason" | head -5 | sed 's/^/      /' | cut -c1-220
  done
done
