#!/usr/bin/env python3
"""Prints the markdown table 'which check catches which seeded change' from seeded/*/meta.json (DESIGN.md §6.3)."""
import glob, json, os
HERE = os.path.dirname(os.path.dirname(os.path.abspath(__file__)))
rows = []
for f in sorted(glob.glob(os.path.join(HERE, 'seeded', '*', 'meta.json'))):
    m = json.load(open(f))
    ran = m.get('what_was_run', {})
    what = m.get('what_the_change_does')
    if isinstance(what, dict):
        what = what.get('summary') or ''
    what = (what or '').replace('|', '/').replace('\n', ' ')
    if len(what) > 170:
        what = what[:167] + '...'
    sigs = []
    for c in ran.get('checks', []):
        if c.get('exit') == 1:
            sigs += [f"{c['check']}: " + s.split('  (x')[0] for s in c.get('signatures', [])[:2]]
    caught = ', '.join(m.get('caught_by') or []) or '**missed**'
    note = ran.get('note') or ''
    rows.append(f"| {m['id']} | {what} | {caught} | {'; '.join(sigs)[:200]}{(' — ' + note) if note else ''} |")
print('| change | what it does | caught by (quick tier) | first signatures |')
print('|---|---|---|---|')
print('\n'.join(rows))
