#!/usr/bin/env python3
"""Regenerates MANIFEST.json from tools/manifest_data.py (kept valid at all times)."""
import json, os, sys
HERE = os.path.dirname(os.path.dirname(os.path.abspath(__file__)))
sys.path.insert(0, os.path.join(HERE, 'tools'))
import manifest_data as md

props = [json.loads(l) for l in open(os.path.join(HERE, 'properties.jsonl'))]
ids = [p['id'] for p in props]
checks = []
na = []
for pid in ids:
    c = md.CHECKS.get(pid)
    if c is None:
        na.append({'property_id': pid, 'reason': md.NOT_YET.get(pid, 'check not built yet (work in progress); design in DESIGN.md §4')})
        continue
    entry = {
        'property_id': pid,
        'quick_cmd': f'./check {pid} --tier quick',
        'thorough_cmd': f'./check {pid} --tier thorough',
        'evidence_file': f'evidence/{pid}.json',
        'replay_cmd_template': f'./check {pid} --replay {{path}}',
        'engine': 'vf',
        'level_claimed': {'category': c['category'], 'text': c['text'], 'design_ref': f'DESIGN.md §4 {pid}'},
        'level_note': c['note'],
        'technique': c['technique'],
    }
    checks.append(entry)
manifest = {
    'version': 1,
    'setup_cmd': './setup.sh',
    'hooks': {
        'guard': 'AIOSLSK_VERIF',
        'enable': 'no source hooks: all instrumentation is attached from the harness process (AIOSLSK_VERIF=1 is set by ./check and only switches harness-side monitors on)',
        'baseline_off_cmd': 'cd /repo && /venv/bin/python -m pytest -ra -q -p no:cacheprovider --timeout=900 --continue-on-collection-errors',
        'source_commits': md.SOURCE_COMMITS,
        'add_only': True,
    },
    'engines': [{
        'name': 'vf', 'path': 'vf/',
        'serves_properties': [c['property_id'] for c in checks],
        'kind_free_text': 'runtime monitoring: real aioslsk code on a deterministic simulated world (virtual-time asyncio loop, in-memory TCP with fault plans, scripted server/peers); trace automata, reference-model and conservation oracles over recorded histories; seeded workloads sharded over 16 processes',
    }],
    'checks': checks,
    'not_applicable': na,
    'notes': md.NOTES,
}
json.dump(manifest, open(os.path.join(HERE, 'MANIFEST.json'), 'w'), indent=1)
try:
    sys.path.append(os.path.join(HERE, '.deps'))
    import jsonschema
    jsonschema.validate(manifest, json.load(open('/root/.vp/MANIFEST.schema.json')))
    print('MANIFEST.json valid;', len(checks), 'checks,', len(na), 'not_applicable')
except ImportError:
    print('jsonschema not available; not validated')
