#!/venv/bin/python
"""tools/seeded_confirm.py <PROP>-<n> [check-props...]

Confirms one seeded change (a realistic breaking change written by a sub-agent that only saw the property text):
a fresh scratch worktree of /repo at its current HEAD is created under /tmp, the demonstration is run without and
with the patch, the repository's own suite is run with the patch (private network namespace: the e2e tests bind
fixed ports), then the quick tier of the given checks (default: the property's own) is run against the patched
worktree (VERIF_REPO) with the evidence redirected.  Everything is recorded in /verif/seeded/<PROP>-<n>/meta.json;
the worktree is removed afterwards.  Nothing is ever applied to /repo.
"""
import json, os, re, shutil, subprocess, sys

VERIF = os.path.dirname(os.path.dirname(os.path.abspath(__file__)))
sid = sys.argv[1]
prop, n = sid.split('-')
checks = sys.argv[2:] or [prop]
tier = os.environ.get('CONFIRM_TIER', 'quick')
dst = os.path.join(VERIF, 'seeded', sid)
src = os.environ.get('CONFIRM_SRC') or f'/tmp/wt-{prop}/_seeded/{n}'      # where the sub-agent left patch / demo / meta
os.makedirs(dst, exist_ok=True)
if not os.path.exists(os.path.join(dst, 'patch.diff')):
    shutil.copy(os.path.join(src, 'patch.diff'), dst)
    for f, t in (('demo_test.py', 'demo_test.py'), ('meta.json', 'agent_meta.json')):
        if os.path.exists(os.path.join(src, f)):
            shutil.copy(os.path.join(src, f), os.path.join(dst, t))
wt = f'/tmp/sc-{sid}'
ev = f'/tmp/sc-{sid}-evidence'


def sh(cmd, **kw):
    return subprocess.run(cmd, shell=True, capture_output=True, text=True, **kw)


sh(f'git -C /repo worktree remove --force {wt}')
shutil.rmtree(wt, ignore_errors=True)
base = os.environ.get('CONFIRM_BASE', 'HEAD')     # an older commit when a later repair masks the change
head = sh(f'git -C /repo rev-parse --short {base}').stdout.strip()
r = sh(f'git -C /repo worktree add --detach {wt} {base}')
assert os.path.isdir(wt), r.stderr
out = {'id': sid, 'property': prop, 'repo_commit': head, 'note': os.environ.get('CONFIRM_NOTE', '')}
try:
    def demo():
        r = sh(f'PYTHONPATH={wt}/src timeout 900 /venv/bin/python -m pytest -q -p no:cacheprovider {dst}/demo_test.py 2>&1 | tail -1')
        return r.stdout.strip()
    out['demo_without_patch'] = demo()
    r = sh(f'git -C {wt} apply {dst}/patch.diff')
    if r.returncode:
        r = sh(f'git -C {wt} apply -3 {dst}/patch.diff')
    if r.returncode:
        out['error'] = 'patch does not apply at HEAD: ' + r.stderr[-300:]
        raise SystemExit
    out['demo_with_patch'] = demo()
    r = sh(f'unshare -rn sh -c "ip link set lo up && cd {wt} && PYTHONPATH={wt}/src timeout 1200 /venv/bin/python -m pytest -q '
           f'-p no:cacheprovider --timeout=900 2>&1 | tail -1"')
    out['suite_with_patch'] = r.stdout.strip()
    if not out['suite_with_patch'].startswith('782 passed'):
        # tests/e2e/test_e2e_transfer.py::test_transfer_requeueWhenUserComesOnline is timing dependent under load
        # (fails in ~4% of runs on a busy machine, also at the pinned commit): run once more
        r2 = sh(f'unshare -rn sh -c "ip link set lo up && cd {wt} && PYTHONPATH={wt}/src timeout 1200 /venv/bin/python -m pytest -q '
                f'-rf -p no:cacheprovider --timeout=900 2>&1 | grep -E \'^FAILED|passed|failed\' | tail -3"')
        out['suite_with_patch_first_run'] = out['suite_with_patch']
        out['suite_with_patch'] = r2.stdout.strip().replace('\n', ' ; ')
    out['checks'] = []
    for c in checks:
        shutil.rmtree(ev, ignore_errors=True)
        r = sh(f'cd {VERIF} && VERIF_REPO={wt} VERIF_EVIDENCE_DIR={ev} ./check {c} --tier {tier} 2>&1')
        sigs = re.findall(r'signature: (.*)', r.stdout)
        out['checks'].append({'check': c, 'tier': tier, 'exit': r.returncode, 'violation_lines': r.stdout.count('VIOLATION property='),
                              'signatures': [s.strip()[:160] for s in sigs][:10]})
finally:
    sh(f'git -C /repo worktree remove --force {wt}')
    shutil.rmtree(wt, ignore_errors=True)
    shutil.rmtree(ev, ignore_errors=True)
    agent = {}
    try:
        agent = json.load(open(os.path.join(dst, 'agent_meta.json')))
    except Exception:
        pass
    meta = {
        'id': sid,
        'breaks_property': prop,
        'what_the_change_does': agent.get('summary') or agent.get('description') or agent.get('what') or agent,
        'needs_to_manifest': agent.get('needs_to_manifest') or agent.get('needs') or agent.get('manifest_conditions'),
        'what_was_run': {
            'tool': 'tools/seeded_confirm.py (scratch worktree of /repo at HEAD under /tmp, removed afterwards)',
            **out,
        },
        'caught_by': [c['check'] for c in out.get('checks', []) if c['exit'] == 1 and c['violation_lines']],
    }
    json.dump(meta, open(os.path.join(dst, 'meta.json'), 'w'), indent=1)
    print(sid, 'demo', out.get('demo_without_patch'), '|', out.get('demo_with_patch'), '| suite', out.get('suite_with_patch'),
          '| caught by', meta['caught_by'], out.get('error', ''))
    for c in out.get('checks', []):
        print('   ', c['check'], 'exit', c['exit'], c['signatures'][:4])
