"""Independent reference codec for the SoulSeek wire format (DESIGN §4 C01).

Driven ONLY by /verif/pinned/layout.json (data pinned once from the reference commit).
Nothing from ``aioslsk`` is imported here: integers use ``int.to_bytes`` /
``int.from_bytes``, IPv4 reversal, string / blob / array framing, conditional and
trailing-optional fields, the frame header and the obfuscation are all re-implemented
from the protocol description.

Values are *plain trees*: ``dict`` field-name -> value for a message, records are
``dict`` field-name -> value too, arrays are ``list``, blobs are ``bytes``, IPv4 addresses
are dotted-quad ``str``, absent (conditional / optional) fields are ``None``.

Wire format
-----------
frame    := uint32 length-of(code + payload)  code  payload
code     := uint8 | uint32 (per message class, little endian)
payload  := fields in declared order; zlib.compress(fields) for the compressed classes
uintN    := N/8 bytes little endian, int32 two's complement little endian
boolean  := one byte, 0 or 1
string   := uint32 byte length + UTF-8 bytes
bytearr  := uint32 byte length + raw bytes
ipaddr   := the 4 address bytes in REVERSE order (1.2.3.4 -> 04 03 02 01)
array    := uint32 element count + elements
record   := its fields in declared order
field with if_true c  : on the wire iff value of field c is truthy
field with if_false c : on the wire iff value of field c is falsy
optional field        : on the wire iff its value is not None (encode);
                        parsed iff unparsed bytes remain (decode)
"""
from __future__ import annotations

import json
import os
import zlib
from typing import Any, Optional

PINNED = os.path.join(os.path.dirname(os.path.dirname(os.path.abspath(__file__))), 'pinned')

INT_TYPES = {          # name -> (bytes, signed)
    'uint8': (1, False),
    'uint16': (2, False),
    'uint32': (4, False),
    'uint64': (8, False),
    'int32': (4, True),
    # PeerInit.ticket: the pinned commit writes a uint32; when reading it accepts a uint64
    # from foreign clients if more than 4 bytes remain (see decode below)
    '_PeerInitTicket': (4, False),
}


class RefError(Exception):
    """The reference could not encode/decode (harness trouble or malformed bytes)."""


class Layout:
    def __init__(self, path: Optional[str] = None):
        with open(path or os.path.join(PINNED, 'layout.json')) as fh:
            raw = json.load(fh)
        self.messages: list[dict] = raw['messages']
        self.by_name: dict[str, dict] = {m['name']: m for m in self.messages}
        self.records: dict[str, dict] = {r['name']: r for r in raw['records']}


_LAYOUT: Optional[Layout] = None


def layout() -> Layout:
    global _LAYOUT
    if _LAYOUT is None:
        _LAYOUT = Layout()
    return _LAYOUT


# ---------------------------------------------------------------------------------------
# encoding

def _enc_int(value: int, size: int, signed: bool) -> bytes:
    if isinstance(value, bool):
        value = int(value)
    if not isinstance(value, int):
        raise RefError(f'integer expected, got {type(value).__name__}')
    try:
        return value.to_bytes(size, 'little', signed=signed)
    except OverflowError as exc:
        raise RefError(f'{value} outside {size}-byte {"signed" if signed else "unsigned"} domain') from exc


def _enc_ip(value: str) -> bytes:
    parts = value.split('.')
    if len(parts) != 4:
        raise RefError(f'bad ip {value!r}')
    octets = [int(p) for p in parts]
    if any(o < 0 or o > 255 for o in octets):
        raise RefError(f'bad ip {value!r}')
    return bytes([octets[3], octets[2], octets[1], octets[0]])


def enc_value(lay: Layout, tname: str, value: Any, subtype: Optional[str] = None) -> bytes:
    if tname in INT_TYPES:
        size, signed = INT_TYPES[tname]
        return _enc_int(value, size, signed)
    if tname == 'boolean':
        return b'\x01' if value else b'\x00'
    if tname == 'string':
        raw = value.encode('utf-8')
        return _enc_int(len(raw), 4, False) + raw
    if tname == 'bytearr':
        raw = bytes(value)
        return _enc_int(len(raw), 4, False) + raw
    if tname == 'ipaddr':
        return _enc_ip(value)
    if tname == 'array':
        out = [_enc_int(len(value), 4, False)]
        for item in value:
            out.append(enc_value(lay, subtype, item))
        return b''.join(out)
    if tname in lay.records:
        return enc_fields(lay, lay.records[tname]['fields'], value)
    raise RefError(f'unknown wire type {tname!r}')


def _on_wire(fspec: dict, values: dict) -> bool:
    """Encode-side presence rule."""
    value = values.get(fspec['name'])
    if fspec.get('optional') and value is None:
        return False
    if 'if_true' in fspec and not values.get(fspec['if_true']):
        return False
    if 'if_false' in fspec and values.get(fspec['if_false']):
        return False
    return True


def enc_fields(lay: Layout, fspecs: list[dict], values: dict) -> bytes:
    out = []
    for fs in fspecs:
        if not _on_wire(fs, values):
            continue
        value = values.get(fs['name'])
        if value is None:
            raise RefError(f"field {fs['name']} is None but must be on the wire (value outside the domain)")
        out.append(enc_value(lay, fs['type'], value, fs.get('subtype')))
    return b''.join(out)


def encode_parts(spec: dict, values: dict, lay: Optional[Layout] = None) -> tuple[bytes, bytes]:
    """-> (code bytes, UNcompressed payload)."""
    lay = lay or layout()
    code = _enc_int(spec['code'], INT_TYPES[spec['code_width']][0], False)
    return code, enc_fields(lay, spec['fields'], values)


def encode_message(spec: dict, values: dict, lay: Optional[Layout] = None) -> bytes:
    """Full frame. For compressed classes the zlib stream is *a* valid encoding; byte
    identity is only meaningful for header + decompressed payload (see ``split_frame``)."""
    code, payload = encode_parts(spec, values, lay)
    if spec['compressed']:
        payload = zlib.compress(payload)
    return _enc_int(len(code) + len(payload), 4, False) + code + payload


# ---------------------------------------------------------------------------------------
# decoding

class _Reader:
    def __init__(self, data: bytes, pos: int = 0):
        self.data = data
        self.pos = pos

    def take(self, n: int) -> bytes:
        if self.pos + n > len(self.data):
            raise RefError(f'need {n} bytes at {self.pos}, have {len(self.data) - self.pos}')
        chunk = self.data[self.pos:self.pos + n]
        self.pos += n
        return chunk

    def remaining(self) -> int:
        return len(self.data) - self.pos


def _dec_string(raw: bytes) -> str:
    try:
        return raw.decode('utf-8')
    except UnicodeDecodeError:
        return raw.decode('cp1252')


def dec_value(lay: Layout, rd: _Reader, tname: str, subtype: Optional[str] = None) -> Any:
    if tname == '_PeerInitTicket':
        if rd.remaining() == 4:
            return int.from_bytes(rd.take(4), 'little')
        return int.from_bytes(rd.take(8), 'little')
    if tname in INT_TYPES:
        size, signed = INT_TYPES[tname]
        return int.from_bytes(rd.take(size), 'little', signed=signed)
    if tname == 'boolean':
        return rd.take(1) != b'\x00'
    if tname == 'string':
        n = int.from_bytes(rd.take(4), 'little')
        return _dec_string(rd.take(n))
    if tname == 'bytearr':
        n = int.from_bytes(rd.take(4), 'little')
        return bytes(rd.take(n))
    if tname == 'ipaddr':
        b = rd.take(4)
        return f'{b[3]}.{b[2]}.{b[1]}.{b[0]}'
    if tname == 'array':
        n = int.from_bytes(rd.take(4), 'little')
        if n > rd.remaining():       # every element occupies >= 1 byte
            raise RefError(f'array count {n} exceeds remaining bytes')
        return [dec_value(lay, rd, subtype) for _ in range(n)]
    if tname in lay.records:
        return dec_fields(lay, rd, lay.records[tname]['fields'])
    raise RefError(f'unknown wire type {tname!r}')


def dec_fields(lay: Layout, rd: _Reader, fspecs: list[dict]) -> dict:
    values: dict = {}
    for fs in fspecs:
        name = fs['name']
        present = True
        if 'if_true' in fs and not values.get(fs['if_true']):
            present = False
        elif 'if_false' in fs and values.get(fs['if_false']):
            present = False
        elif fs.get('optional'):
            present = rd.remaining() > 0
        if present:
            values[name] = dec_value(lay, rd, fs['type'], fs.get('subtype'))
        else:
            values[name] = fs.get('default') if fs.get('has_default') else None
    return values


def split_frame(spec: dict, data: bytes) -> dict:
    """Header fields of a frame: declared length, bytes that follow, code, raw payload,
    and the decompressed payload for compressed classes."""
    width = INT_TYPES[spec['code_width']][0]
    if len(data) < 4 + width:
        raise RefError('frame shorter than its header')
    declared = int.from_bytes(data[:4], 'little')
    code = int.from_bytes(data[4:4 + width], 'little')
    raw = data[4 + width:]
    out = {'declared_len': declared, 'following': len(data) - 4, 'code': code, 'raw_payload': raw}
    if spec['compressed']:
        try:
            out['payload'] = zlib.decompress(raw)
        except zlib.error as exc:
            raise RefError(f'payload is not a zlib stream: {exc}') from exc
    else:
        out['payload'] = raw
    return out


def decode_message(spec: dict, data: bytes, lay: Optional[Layout] = None) -> tuple[dict, int]:
    """-> (values, number of unparsed trailing payload bytes)."""
    lay = lay or layout()
    parts = split_frame(spec, data)
    if parts['code'] != spec['code']:
        raise RefError(f"code {parts['code']} is not {spec['code']}")
    rd = _Reader(parts['payload'])
    values = dec_fields(lay, rd, spec['fields'])
    return values, rd.remaining()


# ---------------------------------------------------------------------------------------
# obfuscation: 4-byte key; for the i-th 4-byte block (0-based) of the data the block key
# is the key, read as a 32-bit little-endian integer, rotated LEFT by (i + 1) bits; the
# block is XORed byte-wise with the little-endian bytes of its block key.
# Wire form = original key + obfuscated data.

def _block_key(key_int: int, block: int) -> bytes:
    r = (block + 1) % 32
    rotated = ((key_int << r) | (key_int >> (32 - r))) & 0xFFFFFFFF
    return rotated.to_bytes(4, 'little')


def _obf_xor(data: bytes, key: bytes) -> bytes:
    k = int.from_bytes(key, 'little')
    out = bytearray()
    for block in range((len(data) + 3) // 4):
        chunk = data[4 * block:4 * block + 4]
        bkey = _block_key(k, block)
        out.extend(b ^ bkey[j] for j, b in enumerate(chunk))
    return bytes(out)


def obf_encode(data: bytes, key: bytes) -> bytes:
    if len(key) != 4:
        raise RefError('obfuscation key must be 4 bytes')
    return bytes(key) + _obf_xor(data, key)


def obf_decode(data: bytes) -> bytes:
    if len(data) < 4:
        raise RefError('obfuscated data shorter than its key')
    return _obf_xor(data[4:], data[:4])


# ---------------------------------------------------------------------------------------
# plain-tree <-> JSON (vectors.json, witnesses)

def tree_from_json(value: Any) -> Any:
    if isinstance(value, dict):
        if '__bytes__' in value:
            return bytes.fromhex(value['__bytes__'])
        if '__rec__' in value:
            return {k: tree_from_json(v) for k, v in value['f'].items()}
        return {k: tree_from_json(v) for k, v in value.items()}
    if isinstance(value, list):
        return [tree_from_json(v) for v in value]
    return value


def tree_to_json(value: Any, limit: int = 200) -> Any:
    """JSON-able, abbreviated rendering of a plain tree (for witnesses / samples)."""
    if isinstance(value, (bytes, bytearray)):
        h = bytes(value).hex()
        return {'__bytes__': h if len(h) <= 2 * limit else h[:2 * limit] + f'...({len(value)} bytes)'}
    if isinstance(value, str):
        return value if len(value) <= limit else value[:limit] + f'...({len(value)} chars)'
    if isinstance(value, dict):
        return {k: tree_to_json(v, limit) for k, v in value.items()}
    if isinstance(value, list):
        if len(value) > 12:
            return [tree_to_json(v, limit) for v in value[:12]] + [f'...({len(value)} items)']
        return [tree_to_json(v, limit) for v in value]
    return value
