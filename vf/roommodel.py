"""Reference model for C19: the room / user view as a pure fold over the
server's announcements.

Written from the property statement ("join adds, leave removes, grant adds,
revoke removes, lists replace"), not from the library's handlers.  It works on
*abstract* notifications (plain JSON-able dicts, see ``KINDS``) so that it does
not depend on any class of the library under test; ``vf.props.c19`` turns the
same dicts into wire messages.

State
    {'me': own user name,
     'rooms': name -> {'joined': bool, 'users': [names, order of joining, no
                       duplicates], 'owner': str|None, 'members': set,
                       'operators': set, 'tickers': {user: text},
                       'private': True|False|None},
     'users': name -> {'status': int, 'privileged': bool, 'avg_speed',
                       'uploads', 'shared_file_count', 'shared_folder_count',
                       'slots_free', 'country'},
     'mentioned': rooms only named by chat lines so far (see ``apply``)}

``private is None`` means "the announcements so far do not determine whether
the room is private" (never judged by the monitor).

Abstract notifications (``n['k']`` is the kind)
    RoomList            public, owned, private, operated   (lists of room names)
    JoinRoom            room, users [[name, status, [avg, upl, files, dirs], slots, country]...],
                        owner (str|None), operators (list|None)
    LeaveRoom           room
    UserJoinedRoom      room, user, status, stats, slots, country
    UserLeftRoom        room, user
    RoomTickers         room, tickers [[user, text]...]
    RoomTickerAdded     room, user, text
    RoomTickerRemoved   room, user
    PrivateRoomMembers / PrivateRoomOperators                      room, users
    PrivateRoomGrantMembership / PrivateRoomRevokeMembership       room, user   (about another user)
    PrivateRoomGrantOperator / PrivateRoomRevokeOperator           room, user   (about another user)
    PrivateRoomMembershipGranted / PrivateRoomMembershipRevoked    room         (about ourselves)
    PrivateRoomOperatorGranted / PrivateRoomOperatorRevoked        room         (about ourselves)
    GetUserStatus       user, status, privileged
    GetUserStats        user, stats
    PrivilegedUsers     users
    AddPrivilegedUser   user
    RoomChatMessage / PublicChatMessage     room, user, text      (no state)
    PrivateChatMessage                      chat_id, ts, user, text (no state)
"""
from __future__ import annotations

import copy
from typing import Any, Optional

STAT_FIELDS = ('avg_speed', 'uploads', 'shared_file_count', 'shared_folder_count')

ROOM_FIELDS = ('joined', 'users', 'owner', 'members', 'operators', 'tickers', 'private')
USER_FIELDS = ('status', 'privileged') + STAT_FIELDS

PRIVATE_ROOM_KINDS = frozenset({
    'PrivateRoomMembers', 'PrivateRoomOperators',
    'PrivateRoomGrantMembership', 'PrivateRoomRevokeMembership',
    'PrivateRoomGrantOperator', 'PrivateRoomRevokeOperator',
    'PrivateRoomMembershipGranted', 'PrivateRoomMembershipRevoked',
    'PrivateRoomOperatorGranted', 'PrivateRoomOperatorRevoked',
})
CHAT_KINDS = frozenset({'RoomChatMessage', 'PublicChatMessage', 'PrivateChatMessage'})

KINDS = (
    'RoomList', 'JoinRoom', 'LeaveRoom', 'UserJoinedRoom', 'UserLeftRoom',
    'RoomTickers', 'RoomTickerAdded', 'RoomTickerRemoved',
    'PrivateRoomMembers', 'PrivateRoomOperators',
    'PrivateRoomGrantMembership', 'PrivateRoomRevokeMembership',
    'PrivateRoomMembershipGranted', 'PrivateRoomMembershipRevoked',
    'PrivateRoomGrantOperator', 'PrivateRoomRevokeOperator',
    'PrivateRoomOperatorGranted', 'PrivateRoomOperatorRevoked',
    'GetUserStatus', 'GetUserStats', 'PrivilegedUsers', 'AddPrivilegedUser',
    'RoomChatMessage', 'PublicChatMessage', 'PrivateChatMessage',
)


def new_room() -> dict:
    return {'joined': False, 'users': [], 'owner': None, 'members': set(), 'operators': set(),
            'tickers': {}, 'private': None}


def new_user() -> dict:
    return {'status': -1, 'privileged': False, 'avg_speed': None, 'uploads': None,
            'shared_file_count': None, 'shared_folder_count': None, 'slots_free': None, 'country': None}


def new_state(me: str, users: Optional[dict] = None) -> dict:
    """``users``: what is already known about users when the fold starts."""
    st = {'me': me, 'rooms': {}, 'users': {}, 'mentioned': set()}
    for name, rec in (users or {}).items():
        u = new_user()
        u.update(rec)
        st['users'][name] = u
    return st


def _room(st: dict, name: str, kind: str) -> dict:
    """The room an announcement is about.  A room heard of for the first time
    through a private-room announcement is private; through any other
    announcement its privacy is undetermined until a join or a room list."""
    room = st['rooms'].get(name)
    if room is None:
        room = st['rooms'][name] = new_room()
        if kind in PRIVATE_ROOM_KINDS and name not in st['mentioned']:
            room['private'] = True
    elif kind in PRIVATE_ROOM_KINDS and room['private'] is False:
        # a private-room announcement for a room last seen as public: the
        # statement does not say which wins
        room['private'] = None
    return room


def _user(st: dict, name: str) -> dict:
    user = st['users'].get(name)
    if user is None:
        user = st['users'][name] = new_user()
    return user


def _set_stats(user: dict, stats) -> None:
    for field, value in zip(STAT_FIELDS, stats):
        user[field] = value


def apply(state: dict, n: dict, *, join_replaces: bool = False) -> dict:
    """Returns the state after announcement ``n`` (the input is not modified).

    ``join_replaces``: the statement has both "join adds" and "lists replace";
    for the user list carried by our own join it therefore allows two readings:
    the listed users are added to those already known to be in the room
    (default) or the list replaces them.
    """
    st = copy.deepcopy(state)
    me = st['me']
    k = n['k']

    if k in CHAT_KINDS:
        # chat carries no room / user state; whether a chat line makes its room
        # "known" is left open, so the room's privacy stays undetermined if it is
        # first described by a later announcement
        if 'room' in n and n['room'] not in st['rooms']:
            st['mentioned'].add(n['room'])
        return st

    if k == 'RoomList':
        public, owned, private, operated = (set(n['public']), set(n['owned']), set(n['private']),
                                            set(n['operated']))
        listed = public | owned | private
        old = st['rooms']
        st['rooms'] = {}
        st['mentioned'] = set()
        for name in sorted(listed):
            room = old.get(name) or new_room()
            st['rooms'][name] = room
            # our own flags are as listed; what is known about others stays
            if name in owned:
                room['owner'] = me
            elif room['owner'] == me:
                room['owner'] = None
            (room['members'].add if name in private else room['members'].discard)(me)
            (room['operators'].add if name in operated else room['operators'].discard)(me)
            room['private'] = name not in public
        return st

    if k == 'PrivilegedUsers':
        listed = set(n['users'])
        for name in listed:
            _user(st, name)
        for name, user in st['users'].items():
            user['privileged'] = name in listed
        return st

    if k == 'AddPrivilegedUser':
        _user(st, n['user'])['privileged'] = True
        return st

    if k == 'GetUserStatus':
        user = _user(st, n['user'])
        user['status'] = n['status']
        user['privileged'] = bool(n['privileged'])
        return st

    if k == 'GetUserStats':
        _set_stats(_user(st, n['user']), n['stats'])
        return st

    # everything else is about one room
    room = _room(st, n['room'], k)

    if k == 'JoinRoom':
        room['joined'] = True
        if join_replaces:
            room['users'] = []
        for name, status, stats, slots, country in n['users']:
            user = _user(st, name)
            user['status'] = status
            _set_stats(user, stats)
            user['slots_free'], user['country'] = slots, country
            if name not in room['users']:
                room['users'].append(name)
        room['owner'] = n.get('owner')
        room['operators'] = set(n.get('operators') or [])
        room['private'] = bool(n.get('owner'))
    elif k == 'LeaveRoom':
        room['joined'] = False
        room['users'] = []
    elif k == 'UserJoinedRoom':
        user = _user(st, n['user'])
        user['status'] = n['status']
        _set_stats(user, n['stats'])
        user['slots_free'], user['country'] = n['slots'], n['country']
        if n['user'] not in room['users']:
            room['users'].append(n['user'])
    elif k == 'UserLeftRoom':
        if n['user'] in room['users']:
            room['users'].remove(n['user'])
    elif k == 'RoomTickers':
        room['tickers'] = {}
        for name, text in n['tickers']:
            room['tickers'][name] = text
    elif k == 'RoomTickerAdded':
        room['tickers'][n['user']] = n['text']
    elif k == 'RoomTickerRemoved':
        room['tickers'].pop(n['user'], None)
    elif k == 'PrivateRoomMembers':
        room['members'] = set(n['users'])
    elif k == 'PrivateRoomOperators':
        room['operators'] = set(n['users'])
    elif k == 'PrivateRoomGrantMembership':
        room['members'].add(n['user'])
    elif k == 'PrivateRoomRevokeMembership':
        room['members'].discard(n['user'])
        room['operators'].discard(n['user'])       # an operator is a member
    elif k == 'PrivateRoomMembershipGranted':
        room['members'].add(me)
    elif k == 'PrivateRoomMembershipRevoked':
        room['members'].discard(me)
        room['operators'].discard(me)
    elif k == 'PrivateRoomGrantOperator':
        room['operators'].add(n['user'])
    elif k == 'PrivateRoomRevokeOperator':
        room['operators'].discard(n['user'])
    elif k == 'PrivateRoomOperatorGranted':
        room['operators'].add(me)
    elif k == 'PrivateRoomOperatorRevoked':
        room['operators'].discard(me)
    else:
        raise ValueError(f'unknown announcement kind {k!r}')
    return st


def forget_user(state: dict, name: str) -> dict:
    """The library only keeps a user as long as something references it.  When
    a user is no longer referenced anywhere, what was announced about its status
    and statistics may be forgotten ("unknown" makes no false claim); what was
    announced about its privileges may not: a user referenced again must not be
    shown as privileged after the server said it is not, or the reverse."""
    st = copy.deepcopy(state)
    old = st['users'].get(name)
    fresh = new_user()
    if old is not None:
        fresh['privileged'] = old['privileged']
    st['users'][name] = fresh
    return st


def privileged_set(state: dict) -> set:
    """Who is privileged according to the announcements so far."""
    return {name for name, user in state['users'].items() if user['privileged']}


PRIVILEGE_KINDS = frozenset({'PrivilegedUsers', 'AddPrivilegedUser', 'GetUserStatus'})


def fold(me: str, notifications: list, users: Optional[dict] = None) -> dict:
    st = new_state(me, users)
    for n in notifications:
        st = apply(st, n)
    return st


def announced(n: dict, me: str) -> tuple[set, set]:
    """(room names, user names) an announcement names — what an event caused
    by it may refer to.  Self-targeted announcements name the own user."""
    k = n['k']
    rooms: set = set()
    users: set = set()
    if k == 'RoomList':
        rooms = set(n['public']) | set(n['owned']) | set(n['private']) | set(n['operated'])
        users = {me}
    elif k == 'PrivilegedUsers':
        users = set(n['users'])
    else:
        if 'room' in n:
            rooms = {n['room']}
        if 'user' in n:
            users = {n['user']}
        elif k == 'JoinRoom':
            users = {u[0] for u in n['users']} | {me} | set(n.get('operators') or [])
            if n.get('owner'):
                users.add(n['owner'])
        elif k == 'RoomTickers':
            users = {t[0] for t in n['tickers']}
        elif k in ('PrivateRoomMembers', 'PrivateRoomOperators'):
            users = set(n['users'])
        else:
            users = {me}
    return rooms, users


def jsonable(obj: Any) -> Any:
    if isinstance(obj, (set, frozenset)):
        return sorted(obj)
    if isinstance(obj, dict):
        return {str(k): jsonable(v) for k, v in obj.items()}
    if isinstance(obj, (list, tuple)):
        return [jsonable(v) for v in obj]
    return obj
