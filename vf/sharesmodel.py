"""Reference model of the shares index and of query matching (DESIGN C07).

Used by C07 (search correctness), C08 (entitlement) and C14.  Nothing in here
imports aioslsk and nothing uses ``re`` or a term map: the predicate is written
by character scanning, the index by walking the real disk.

Vocabulary
----------
* *shared directory*: an absolute, normalised path the user shares (``RefDir``).
* *owner* of a file: the shared directory whose item set holds the file.
* *base* of an indexed file: the shared directory whose scan produced the entry.
  ``base == owner`` for every entry produced by a scan of the owner.  An entry
  that was moved between a parent and a child shared directory by add / remove
  *without* a scan keeps its old base until the next scan ("moved-unscanned").
  The property statement does not say which of the two directories the "path"
  of such an entry is relative to, so ``RefIndex.select`` returns a lower and an
  upper expectation for them (both readings accepted).
* *dontcare*: absolute file paths whose presence in the index is not defined by
  any documented semantics (see ``load_settings``); never judged until a scan of
  the region they lie in makes them defined again.

Alphabet assumption: characters whose ``str.lower()`` is 1:1 (ASCII, the
separators `` _-.()[]'&``, ``é É ü Ü ñ Ñ``, CJK ideographs), for which
``str.isalnum()`` coincides with the regex class ``[^\\W_]``.
"""
from __future__ import annotations

import os
from dataclasses import dataclass, field
from typing import Iterable, NamedTuple, Optional

EVERYONE = 'everyone'
FRIENDS = 'friends'
USERS = 'users'


# ---------------------------------------------------------------------------
# reference predicate

class ParsedQuery(NamedTuple):
    include: tuple
    wildcard: tuple
    exclude: tuple

    @property
    def has_inclusion(self) -> bool:
        return bool(self.include or self.wildcard)


def _has_alnum(s: str) -> bool:
    for ch in s:
        if ch.isalnum():
            return True
    return False


def parse_query(query: str) -> ParsedQuery:
    """Split on whitespace; '*x' wildcard, '-x' exclude, else include.  Terms
    without an alphanumeric character are ignored ('_' is not alphanumeric)."""
    inc, wild, exc = [], [], []
    for raw in query.split():
        term = raw.lower()
        if not _has_alnum(term):
            continue
        if term[0] == '*':
            if term[1:] not in wild:
                wild.append(term[1:])
        elif term[0] == '-':
            if term[1:] not in exc:
                exc.append(term[1:])
        else:
            if term not in inc:
                inc.append(term)
    return ParsedQuery(tuple(inc), tuple(wild), tuple(exc))


def _boundary_before(text: str, i: int) -> bool:
    return i == 0 or not text[i - 1].isalnum()


def _boundary_after(text: str, j: int) -> bool:
    return j == len(text) or not text[j].isalnum()


def occurs_as_word(text: str, term: str) -> bool:
    """``term`` occurs in ``text`` delimited at both ends (both already lower-cased)."""
    n = len(term)
    if n == 0:
        return False
    i = text.find(term)
    while i != -1:
        if _boundary_before(text, i) and _boundary_after(text, i + n):
            return True
        i = text.find(term, i + 1)
    return False


def occurs_as_suffix(text: str, term: str) -> bool:
    """``term`` occurs in ``text`` ending at a word end.  What precedes it inside
    the same word is by construction a run of alphanumerics starting at a word
    start, so nothing has to be checked on the left."""
    n = len(term)
    if n == 0:
        return False
    i = text.find(term)
    while i != -1:
        if _boundary_after(text, i + n):
            return True
        i = text.find(term, i + 1)
    return False


def matches_parsed(query_path: str, pq: ParsedQuery) -> bool:
    text = query_path.lower()
    for t in pq.include:
        if not occurs_as_word(text, t):
            return False
    for t in pq.wildcard:
        if not occurs_as_suffix(text, t):
            return False
    for t in pq.exclude:
        if occurs_as_word(text, t):
            return False
    return True


def ref_matches(query_path: str, query: str) -> Optional[bool]:
    """Reference predicate.  ``None``: the query has no include/wildcard term
    (the library answers nothing by design; not judged)."""
    pq = parse_query(query)
    if not pq.has_inclusion:
        return None
    return matches_parsed(query_path, pq)


def query_path(subdir: str, filename: str) -> str:
    """Path relative to the shared directory, components joined by one backslash."""
    parts = [p for p in subdir.replace('\\', '/').split('/') if p]
    parts.append(filename)
    return '\\'.join(parts)


def split_words(text: str) -> list:
    """Maximal alphanumeric runs of ``text.lower()`` (for query generation and
    for classifying queries; never used to decide a verdict)."""
    words, cur = [], []
    for ch in text.lower():
        if ch.isalnum():
            cur.append(ch)
        elif cur:
            words.append(''.join(cur))
            cur = []
    if cur:
        words.append(''.join(cur))
    return words


# ---------------------------------------------------------------------------
# reference index

def norm(path: str) -> str:
    return os.path.normpath(os.path.abspath(path))


def is_under(path: str, directory: str) -> bool:
    """``path`` equals ``directory`` or lies below it (component-wise)."""
    return path == directory or path.startswith(directory.rstrip(os.sep) + os.sep)


def is_file_on_disk(path: str) -> bool:
    """A non-directory entry of a listing counts as a file on disk iff it can be
    stat'ed (following symlinks).  A dangling symlink, a symlink loop or an entry
    that vanished after the listing is not a file: a scan skips exactly that
    entry and keeps every other entry of the same directory."""
    try:
        os.stat(path)
    except OSError:
        return False
    return True


def unstatable_entries(directory: str) -> list:
    """Absolute paths of the non-directory entries below ``directory`` that cannot
    be stat'ed (for workload generators and coverage counters)."""
    out = []
    for cur, _subdirs, files in os.walk(directory):
        for fn in files:
            ap = os.path.join(os.path.normpath(cur), fn)
            if not is_file_on_disk(ap):
                out.append(ap)
    return sorted(out)


def _rel_subdir(abs_dir: str, base: str) -> str:
    rel = os.path.relpath(abs_dir, base)
    return '' if rel == '.' else rel


@dataclass
class RefDir:
    path: str
    mode: str = EVERYONE
    users: list = field(default_factory=list)
    # (subdir relative to this directory, filename) -> base directory (abs)
    items: dict = field(default_factory=dict)


class RefItem(NamedTuple):
    owner: str
    subdir: str      # relative to owner, os.sep separated, '' for the top
    filename: str
    base: str        # directory whose scan produced the entry

    @property
    def abspath(self) -> str:
        return os.path.join(self.owner, self.subdir, self.filename) if self.subdir \
            else os.path.join(self.owner, self.filename)

    @property
    def moved(self) -> bool:
        return self.base != self.owner

    @property
    def key(self) -> tuple:
        return (self.owner, self.subdir, self.filename)

    def qpath_owner(self) -> str:
        return query_path(self.subdir, self.filename)

    def qpath_base(self) -> str:
        ap = self.abspath
        return query_path(_rel_subdir(os.path.dirname(ap), self.base), self.filename)


class Selection(NamedTuple):
    """Expectation for one query.  ``must`` ⊆ result ⊆ ``must ∪ may`` (before the
    cap); returned files outside both are acceptable only if in ``dontcare``."""
    must: set        # keys (owner, subdir, filename) selected under every reading
    may: set         # keys selected under one reading only (moved-unscanned entries)


class RefIndex:

    def __init__(self, friends: Iterable[str] = ()):
        self.dirs: dict = {}            # abs path -> RefDir (insertion ordered)
        self.friends: set = set(friends)
        self.dontcare: set = set()      # absolute file paths, see module docstring

    # -- helpers -------------------------------------------------------------
    def _parents(self, path: str) -> list:
        """Shared directories strictly containing ``path``, outermost first."""
        ps = [d for d in self.dirs if d != path and is_under(path, d)]
        return sorted(ps, key=len)

    def _children(self, path: str) -> list:
        return [d for d in self.dirs if d != path and is_under(d, path)]

    def innermost_owner(self, abs_file: str) -> Optional[str]:
        """Innermost shared directory containing the file, or None."""
        best = None
        d = os.path.dirname(abs_file)
        for sd in self.dirs:
            if is_under(d, sd) and (best is None or len(sd) > len(best)):
                best = sd
        return best

    def shared_paths(self) -> list:
        return list(self.dirs)

    # -- operations ----------------------------------------------------------
    def add(self, dir_abs: str, mode: str = EVERYONE, users: Optional[list] = None,
            _dontcare_sources: Iterable[str] = ()) -> RefDir:
        """Documented: no scan; if the new directory lies inside an already shared
        directory, the entries of the innermost such parent that lie under the
        new directory move to the new directory."""
        dir_abs = norm(dir_abs)
        if dir_abs in self.dirs:
            raise KeyError(f'already shared: {dir_abs}')
        new = RefDir(dir_abs, mode, list(users or []))
        parents = self._parents(dir_abs)
        if parents:
            parent = self.dirs[parents[-1]]
            for (subdir, filename), base in list(parent.items.items()):
                abs_dir = os.path.join(parent.path, subdir) if subdir else parent.path
                if is_under(abs_dir, dir_abs):
                    del parent.items[(subdir, filename)]
                    if parent.path in _dontcare_sources:
                        self.dontcare.add(os.path.join(abs_dir, filename))
                    else:
                        new.items[(_rel_subdir(abs_dir, dir_abs), filename)] = base
        self.dirs[dir_abs] = new
        return new

    def remove(self, dir_abs: str) -> RefDir:
        """Documented: entries return to the innermost remaining parent, else vanish."""
        dir_abs = norm(dir_abs)
        gone = self.dirs.pop(dir_abs)
        parents = self._parents(dir_abs)
        if parents:
            parent = self.dirs[parents[-1]]
            for (subdir, filename), base in gone.items.items():
                abs_dir = os.path.join(gone.path, subdir) if subdir else gone.path
                parent.items[(_rel_subdir(abs_dir, parent.path), filename)] = base
        return gone

    def update(self, dir_abs: str, mode: Optional[str] = None, users: Optional[list] = None) -> RefDir:
        d = self.dirs[norm(dir_abs)]
        if mode is not None:
            d.mode = mode
        if users is not None:
            d.users = list(users)
        return d

    def scan_dir(self, dir_abs: str):
        """Reconcile the directory's own region (everything below it that is not
        below a nested shared directory) with the disk."""
        dir_abs = norm(dir_abs)
        d = self.dirs[dir_abs]
        children = self._children(dir_abs)
        items = {}
        for cur, _subdirs, files in os.walk(dir_abs):
            cur_n = os.path.normpath(cur)
            if any(is_under(cur_n, c) for c in children):
                continue
            sub = _rel_subdir(cur_n, dir_abs)
            for fn in files:
                if is_file_on_disk(os.path.join(cur_n, fn)):
                    items[(sub, fn)] = dir_abs
        d.items = items
        # the scan defines the region again
        self.dontcare = {p for p in self.dontcare if self.innermost_owner(p) != dir_abs}

    def scan_all(self):
        for d in list(self.dirs):
            self.scan_dir(d)
        # after a full scan everything under a shared directory is defined by the
        # disk, and nothing outside every shared directory can be indexed
        self.dontcare = set()

    def load_settings(self, entries: list):
        """``entries``: [(path, mode, users)] — the new list of shared directories.
        Documented: existing updated, missing added (as ``add``), others removed.
        Not documented: whether the entries of a removed nested directory return
        to its parent, and whether removal happens before or after the additions.
        Every entry whose fate depends on that becomes *dontcare*."""
        wanted = [norm(p) for p, _m, _u in entries]
        removed = [d for d in self.dirs if d not in wanted]
        for (p, mode, users), path in zip(entries, wanted):
            if path in self.dirs:
                self.update(path, mode, list(users or []))
            else:
                self.add(path, mode, users, _dontcare_sources=removed)
        for path in removed:
            gone = self.dirs.pop(path)
            remaining_parent = any(is_under(path, d) and d != path for d in self.dirs)
            if remaining_parent:
                for (subdir, filename) in gone.items:
                    self.dontcare.add(os.path.join(gone.path, subdir, filename) if subdir
                                      else os.path.join(gone.path, filename))
        # keep the settings order (the library rebuilds its list in that order)
        self.dirs = {p: self.dirs[p] for p in wanted}

    def forget(self, item: 'RefItem', also: Iterable[str] = ()):
        """Stop judging an entry: drop it from the model, its path becomes dontcare."""
        self.dirs[item.owner].items.pop((item.subdir, item.filename), None)
        self.dontcare.add(item.abspath)
        self.dontcare.update(also)

    # -- history-free oracle -------------------------------------------------------
    def from_disk(self) -> dict:
        """owner -> set of (subdir, filename): walk the disk below every shared
        directory; each file goes to the innermost shared directory containing
        it.  Written independently of ``scan_dir`` (no child exclusion)."""
        out = {d: set() for d in self.dirs}
        seen = set()
        for d in self.dirs:
            for cur, _subdirs, files in os.walk(d):
                cur_n = os.path.normpath(cur)
                for fn in files:
                    ap = os.path.join(cur_n, fn)
                    if ap in seen:
                        continue
                    seen.add(ap)
                    try:
                        os.stat(ap)
                    except OSError:
                        continue    # not a file on disk (dangling symlink, loop, vanished)
                    owner = self.innermost_owner(ap)
                    out[owner].add((_rel_subdir(cur_n, owner), fn))
        return out

    # -- views -------------------------------------------------------------------------
    def owned(self) -> dict:
        return {p: set(d.items) for p, d in self.dirs.items()}

    def entries(self) -> list:
        out = []
        for p, d in self.dirs.items():
            for (subdir, filename), base in d.items.items():
                out.append(RefItem(p, subdir, filename, base))
        return out

    def by_abspath(self) -> dict:
        """abspath -> RefItem (the model never holds a file twice)."""
        return {it.abspath: it for it in self.entries()}

    def has_moved(self) -> bool:
        return any(it.moved for it in self.entries())

    def stats(self) -> tuple:
        """(folder count, file count) of the index: per shared directory the
        number of distinct sub-directories among its entries, summed; number of
        entries."""
        dir_count = sum(len({sub for (sub, _fn) in d.items}) for d in self.dirs.values())
        file_count = sum(len(d.items) for d in self.dirs.values())
        return dir_count, file_count

    def words(self) -> set:
        ws = set()
        for it in self.entries():
            ws.update(split_words(it.qpath_owner()))
            if it.moved:
                ws.update(split_words(it.qpath_base()))
        return ws

    # -- entitlement ---------------------------------------------------------------------
    def is_locked(self, owner: str, username: str) -> bool:
        d = self.dirs[owner]
        if d.mode == FRIENDS:
            return username not in self.friends
        if d.mode == USERS:
            return username not in d.users
        return False

    def entitled(self, username: str, owner: str) -> bool:
        return not self.is_locked(owner, username)

    # -- queries ---------------------------------------------------------------------------
    def select(self, query: str) -> Optional[Selection]:
        pq = parse_query(query)
        if not pq.has_inclusion:
            return None
        must, may = set(), set()
        for it in self.entries():
            a = matches_parsed(it.qpath_owner(), pq)
            b = matches_parsed(it.qpath_base(), pq) if it.moved else a
            if a and b:
                must.add(it.key)
            elif a or b:
                may.add(it.key)
        return Selection(must, may)
