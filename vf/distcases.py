"""Scenarios shared by C13 (distributed tree: one parent, bounded live children,
truthful advertised place) and C14 (search requests flow down the tree exactly
once and are answered to the asker).

One world per case: the scripted server, the real client ``me`` (logged in) and
three or four scripted peers.  The workload is a list of abstract events, each
applied by one harness function (``Engine._act_*``).  Every remote party (the
server, each peer) is a sequential process: its events are applied in order,
events of different parties overlap in the schedule-quantifier half of the
cases.

All verdicts are taken at quiescent moments (``settle``) from

* what the scripted parties received (``SimServer`` session frames, ``PeerLink``
  frames),
* the SimNet ground truth (transport lost or not),
* the client's own ``DistributedNetwork.parent / children`` (whose parent / child
  it believes to be is what the property talks about),
* ``MessageReceivedEvent`` of the client (what it has *processed* from a link),
* a class level wrapper on ``DistributedNetwork._add_child`` that records the
  admission state at entry.
"""
from __future__ import annotations

import asyncio
import os
import random
import re
from typing import Optional

from . import runner
from .monitors import safety_net_violations
from .simloop import settle, yields
from .simnet import ConnPlan
from .world import World, run_world

ME = 'me'
DPEERS = ('p1', 'p2', 'p3', 'p4')
ROOTS = ('rootA', 'rootB', 'rootC')          # never the client's own name, never a scripted peer
SETTLE = 0.5
PP_CACHE = 20                                 # documented size of the potential-parent cache

# (parent_min_speed, parent_speed_ratio, own avg_speed)  ->  documented (accept, max):
#   speed < min_speed * 1024           -> (False, 0)
#   else max = floor(speed / ((ratio / 10) * 1024)), accept True
LIMITS = (
    (10, 10, 5000),      # below the minimum speed -> (False, 0)
    (1, 50, 2000),       # accepting, but floor(2000 / 5120) = 0
    (1, 50, 6000),       # 1
    (1, 10, 1024),       # exactly 1.0 -> 1
    (1, 10, 3500),       # 3
    (2, 25, 30000),      # 11
)


def documented_limits(min_speed: int, ratio: int, speed: int) -> tuple:
    """(accept, max) by the documented rule, in integer arithmetic."""
    if speed < min_speed * 1024:
        return (False, 0)
    return (True, (speed * 10) // (ratio * 1024))


# ---------------------------------------------------------------------------
# hooks (class level, installed once per process; they only observe)

_hooks_installed = False
_CURRENT: Optional['Engine'] = None


def install_hooks():
    global _hooks_installed
    if _hooks_installed:
        return
    from aioslsk.distributed import DistributedNetwork
    orig_add = DistributedNetwork._add_child
    orig_set = DistributedNetwork._set_parent
    orig_unset = DistributedNetwork._unset_parent

    async def _add_child(self, peer):
        eng = _CURRENT
        if eng is not None and eng.dn is self:
            try:
                eng.on_add_child(peer)
            except Exception:  # noqa  harness trouble, never the library's
                import traceback
                eng.w.harness_error('add_child hook', traceback.format_exc())
        return await orig_add(self, peer)

    async def _set_parent(self, peer):
        eng = _CURRENT
        if eng is not None and eng.dn is self:
            eng.parent_sets.append((round(eng.w.now, 6), peer.username))
        return await orig_set(self, peer)

    async def _unset_parent(self):
        eng = _CURRENT
        if eng is not None and eng.dn is self:
            eng.parent_unsets.append(round(eng.w.now, 6))
        return await orig_unset(self)

    DistributedNetwork._add_child = _add_child
    DistributedNetwork._set_parent = _set_parent
    DistributedNetwork._unset_parent = _unset_parent
    _hooks_installed = True


# ---------------------------------------------------------------------------
# helpers

def fold_position(frames: list, sender: str) -> tuple:
    """(level, root) a peer has announced on one link.  Level 0 means the
    sender is itself the root (root frame not needed)."""
    from aioslsk.protocol.messages import DistributedBranchLevel, DistributedBranchRoot
    lvl = root = None
    for m in frames:
        if isinstance(m, DistributedBranchLevel.Request):
            lvl = m.level
            if lvl == 0:
                root = sender
        elif isinstance(m, DistributedBranchRoot.Request):
            root = m.username
    return lvl, root


def prefix_positions(frames: list, sender: str) -> list:
    """Complete (level, root) values after every proper prefix of ``frames``."""
    out = []
    for k in range(1, len(frames)):
        lvl, root = fold_position(frames[:k], sender)
        if lvl is not None and root is not None:
            out.append((lvl, root))
    return out


def frame_brief(m) -> str:
    return repr(m)[:110]


_TB_FRAME = re.compile(r'File "[^"]*/aioslsk/([^"]+)", line \d+, in (\w+)')


def safety_sig(sig: str, detail: dict) -> str:
    """Mechanism-level name of a safety-net hit: exception type, the library
    function that raised and the handler it was raised under (from the logged
    traceback); the generic site name when there is no traceback."""
    tb = (detail or {}).get('tb') or ''
    frames = [(f, fn) for f, fn in _TB_FRAME.findall(tb) if not f.startswith('events.py')]
    if not frames:
        return 'safety:' + sig
    exc = ((detail.get('exc') or '').split('(')[0]) or 'exception'
    return f'safety:{exc}:{frames[-1][1]}:under:{frames[0][1]}'


# ---------------------------------------------------------------------------

def aligned_plan() -> ConnPlan:
    """Whole segments, one fixed latency (equal to the FIN latency): what two
    parties send at the same virtual instant arrives at the same instant."""
    return ConnPlan(latency=0.004, seg='whole', seg_lat=(0.002, 0.002))


class Engine:
    """Applies abstract events to one world and exposes what can be observed."""

    def __init__(self, w: World, handle, peers: dict, rng: random.Random, *, overlap: bool,
                 indirect: dict, judge_c13: bool = True, aligned: bool = False):
        self.w, self.h = w, handle
        self.client = handle.client
        self.dn = self.client.distributed_network
        self.peers = peers                       # name -> SimPeer (all of them, askers included)
        self.rng = rng
        self.overlap = overlap
        self.indirect = indirect                 # peer -> 'pierce' | 'cannot' | 'ignore'
        self.judge_c13 = judge_c13
        self.aligned = aligned
        self.ghosts = 0                          # proposed names nobody listens for
        self.accepted: dict = {}                 # SimConn id -> (user, SimConn) of every connection taken as child
        self.dial_plan: dict = {}                # peer -> ConnPlan of its next dial (one shot)
        self.stalled = None                      # the server's transport while it does not read
        self.queues: dict = {}                   # party -> last task
        self.own_speed = 0
        self.direct_fail: dict = {}              # peer -> 'refuse' | 'hang' (one shot)
        self.applied: list = []                  # applied (normalised) events, JSON-able
        self.abstract: list = []                 # abstract tokens (csig)
        self.viol: list = []                     # (sig, detail)
        self.obs: dict = {}
        self.cover: dict = {}
        # observation of the client
        self.conn_refs: dict = {}                # id(PeerConnection) -> (PeerConnection, SimConn)
        self.processed: dict = {}                # SimConn id -> [distributed messages the client processed]
        self.processed_t: dict = {}              # SimConn id -> [virtual time of each]
        self.own_replies: list = []              # PeerSearchReply the client received itself (t, msg)
        self.add_child_recs: list = []
        self.parent_sets: list = []
        self.parent_unsets: list = []
        # harness knowledge for the admission rules
        self.limits_allowed: Optional[set] = None        # None: not defined by the documents
        self.limits_pending: Optional[tuple] = None
        self.proposed_processed: set = set()      # names of PotentialParents the client has processed
        self.proposed_total = 0
        # check state
        self.prev_parent_key = None
        self.prev_fold = None
        self.burst_kinds: list = []
        self.reported: dict = {}                 # target -> (expected, observed) already reported
        self.sigs_seen: set = set()
        self.parent_ever = False
        self.ever_children: set = set()          # SimConn ids that were a child's connection at a check
        self._listeners: list = []
        self._install_observers()
        self._install_scripts()

    # -- counters -------------------------------------------------------------
    def add_obs(self, key: str, n: int = 1):
        self.obs[key] = self.obs.get(key, 0) + n

    def add_cover(self, key: str, value):
        lst = self.cover.setdefault(key, [])
        if value not in lst:
            lst.append(value)

    def violate(self, sig: str, **detail):
        """First witness per signature and case."""
        if sig in self.sigs_seen:
            return
        self.sigs_seen.add(sig)
        detail.setdefault('events_applied', [dict(e) for e in self.applied])
        detail.setdefault('mode', 'overlap' if self.overlap else 'settle')
        detail.setdefault('t', round(self.w.now, 6))
        self.viol.append((sig, detail))

    # -- observers -------------------------------------------------------------
    def _install_observers(self):
        from aioslsk.events import MessageReceivedEvent, PeerInitializedEvent
        from aioslsk.network.connection import PeerConnection
        from aioslsk.protocol.messages import PeerSearchReply, PotentialParents

        def on_init(ev):
            self.simconn_of(ev.connection)

        def on_msg(ev):
            conn = ev.connection
            if isinstance(ev.message, PotentialParents.Response):
                for entry in ev.message.entries:
                    self.proposed_processed.add(entry.username)
                    self.proposed_total += 1
            if not isinstance(conn, PeerConnection):
                return
            if isinstance(ev.message, PeerSearchReply.Request):
                self.own_replies.append((round(self.w.now, 6), ev.message))
            if conn.connection_type != 'D':
                return
            sc = self.simconn_of(conn)
            if sc is None:
                return
            self.processed.setdefault(sc.id, []).append(ev.message)
            self.processed_t.setdefault(sc.id, []).append(round(self.w.now, 6))

        self._listeners += [on_init, on_msg]
        self.client.events.register(PeerInitializedEvent, on_init, priority=-1000)
        self.client.events.register(MessageReceivedEvent, on_msg, priority=-1000)

    def simconn_of(self, pc):
        ent = self.conn_refs.get(id(pc))
        if ent is not None:
            return ent[1]
        wr = getattr(pc, '_writer', None)
        if wr is None:
            return None
        sc = wr.transport.conn
        self.conn_refs[id(pc)] = (pc, sc)
        return sc

    # -- scripts of the remote parties -------------------------------------------
    def _install_scripts(self):
        from aioslsk.protocol.messages import GetUserStats
        from aioslsk.protocol.primitives import UserStats
        w = self.w

        def stats_override(session, msg):
            if msg.username == ME:
                session.send(GetUserStats.Response(ME, UserStats(
                    avg_speed=self.own_speed, uploads=0, shared_file_count=0, shared_folder_count=0)))
                return True
            return False
        w.server.overrides[GetUserStats.Request] = stats_override

        peer_ports = {}
        for name, peer in self.peers.items():
            for prt in (peer.port, peer.obf_port):
                if prt:
                    peer_ports[prt] = name

        def planner(node, host, port, attempt):
            plan = aligned_plan() if self.aligned else ConnPlan(latency=w.net.rng.uniform(0.001, 0.03))
            if node in self.dial_plan:
                return self.dial_plan.pop(node)
            name = peer_ports.get(port)
            if node == ME and name is not None:
                how = self.direct_fail.pop(name, None)
                if how == 'refuse':
                    plan.connect = 'refuse'
                elif how == 'hang':
                    plan.connect = 'hang'
                elif isinstance(how, (int, float)):
                    plan.latency = float(how)            # slow, but within the connect timeout
            return plan
        w.net.planner = planner

        for name, peer in self.peers.items():
            peer.on_connect_to_peer = self._make_ctp_handler(peer)

    def _make_ctp_handler(self, peer):
        async def on_ctp(msg):
            how = self.indirect.get(peer.name, 'ignore')
            if how == 'pierce':
                await asyncio.sleep(self.w.net.rng.uniform(0.04, 0.12))
                self.w.pending_pierce[(peer.name, msg.ticket)] = (msg.typ, msg.username)
                await peer.pierce(msg)
            elif how == 'cannot':
                await asyncio.sleep(0.02)
                peer.cannot_report(msg)
        return on_ctp

    # -- links ----------------------------------------------------------------------
    @staticmethod
    def link_alive(link) -> bool:
        c = link.conn
        return not c.a._lost and not c.b._lost and not link.writer.transport.is_closing()

    def dlinks(self, peer_name: str, alive: bool = True) -> list:
        out = [l for l in self.peers[peer_name].links if l.typ == 'D']
        if alive:
            out = [l for l in out if self.link_alive(l)]
        return out

    @staticmethod
    def requested_link(link) -> bool:
        """The client asked for this connection (it dialled, or the scripted peer
        pierced on the client's ConnectToPeer): a connection to a user the server
        proposed as potential parent, never a child's connection."""
        from aioslsk.protocol.messages import PeerPierceFirewall
        if link.conn.src == ME:
            return True
        return bool(link.sent) and isinstance(link.sent[0][1], PeerPierceFirewall.Request)

    def all_links(self) -> list:
        return [(name, l) for name, p in self.peers.items() for l in p.links]

    def link_by_simconn(self, sc):
        if sc is None:
            return None
        for _name, l in self.all_links():
            if l.conn is sc:
                return l
        return None

    def parent_link(self):
        p = self.dn.parent
        return self.link_by_simconn(self.simconn_of(p.connection)) if p is not None else None

    def child_links(self) -> list:
        out = []
        for c in self.dn.children:
            l = self.link_by_simconn(self.simconn_of(c.connection))
            if l is not None:
                out.append(l)
        return out

    def accepted_open(self) -> list:
        """(user, SimConn) of every connection that was taken as child and whose two
        simulated endpoints are still open (nobody closed it)."""
        out = []
        for user, sc in self.accepted.values():
            if sc.a._lost or sc.b._lost or sc.a._closing or sc.b._closing:
                continue
            out.append((user, sc))
        return out

    def role_of_link(self, link) -> str:
        dn = self.dn
        roles = []
        if dn.parent is not None and self.simconn_of(dn.parent.connection) is link.conn:
            roles.append('parent')
        if any(self.simconn_of(c.connection) is link.conn for c in dn.children):
            roles.append('child')
        if roles:
            return '+'.join(roles)
        return 'candidate' if self.link_alive(link) else 'dead'

    def role_of_peer(self, name: str) -> str:
        links = self.dlinks(name)
        if not links:
            return 'none'
        return '/'.join(sorted({self.role_of_link(l) for l in links}))

    def roles(self) -> dict:
        return {name: [self.role_of_link(l) for l in self.dlinks(name, alive=False)] for name in self.peers
                if self.dlinks(name, alive=False)}

    # -- party queues ------------------------------------------------------------------
    def fire(self, party: str, coro_fn) -> asyncio.Task:
        prev = self.queues.get(party)

        async def run():
            if prev is not None:
                await asyncio.gather(prev, return_exceptions=True)
            try:
                await coro_fn()
            except Exception:  # noqa  harness trouble
                import traceback
                self.w.harness_error(f'event of {party}', traceback.format_exc())
        t = self.w.spawn(party, run(), name=f'vf-dist-{party}')
        self.queues[party] = t
        return t

    async def drain(self):
        tasks = [t for t in self.queues.values() if not t.done()]
        if tasks:
            await asyncio.gather(*tasks, return_exceptions=True)

    async def _server_ready(self):
        for _ in range(1000):
            s = self.w.server.by_user.get(ME)
            if s is not None and s.open and s.logged_in and self.client.session is not None:
                return
            await asyncio.sleep(0.01)
        raise RuntimeError('no server session for the client')

    # -- events ---------------------------------------------------------------------------
    def party_of(self, ev: dict) -> str:
        k = ev['e']
        if k in ('in', 'ann', 'disc'):
            return ev['peer']
        if k == 'search' and ev.get('carrier') != 'server':
            return 'parent-link'
        if k == 'wait':
            return 'clock'
        return 'server'

    def apply(self, ev: dict) -> asyncio.Task:
        """Start applying one event (returns the task of its party's queue)."""
        k = ev['e']
        rec = dict(ev)
        self.applied.append(rec)
        self.burst_kinds.append(k)
        self.add_obs('events_applied')
        self.add_cover('event_kinds', k)
        fn = getattr(self, '_act_' + k)
        return self.fire(self.party_of(ev), lambda: fn(ev, rec))

    async def _act_pp(self, ev, rec):
        from aioslsk.protocol.messages import PotentialParents
        from aioslsk.protocol.primitives import PotentialParent
        await self._server_ready()
        entries = [PotentialParent(p, self.peers[p].ip, self.peers[p].port) for p in ev['peers']]
        for _ in range(ev.get('ghosts', 0)):
            # proposed users that cannot be reached (nobody listens, the server knows no such user)
            self.ghosts += 1
            entries.append(PotentialParent(f'ghost{self.ghosts}', '10.9.9.9', 9))
        self.abstract.append(f"pp:{len(ev['peers'])}{'+ghosts' if ev.get('ghosts') else ''}:"
                             + ','.join(sorted({self.role_of_peer(p) for p in ev['peers']})))
        self.w.server.push(ME, PotentialParents.Response(entries=entries))

    async def _act_in(self, ev, rec):
        peer = self.peers[ev['peer']]
        van = ev.get('vanish')
        self.abstract.append(f"in:{self.role_of_peer(ev['peer'])}" + (f":vanish:{van['how']}" if van else ''))
        try:
            if not van:
                await peer.dial(self.h.port, 'D', host=self.w.net.ip_of(ME))
                return
            # the peer disappears right after (or while) sending its PeerInit: whole segments and one fixed latency
            # equal to the RST/FIN latency, so that the reset can reach the client at the instant of the last init byte
            from aioslsk.protocol.messages import PeerInit
            self.dial_plan[peer.name] = aligned_plan()
            link = await peer.dial(self.h.port, 'D', host=self.w.net.ip_of(ME), init=None)
            data = PeerInit.Request(peer.name, 'D', 0).serialize()
            split = van.get('split')
            if split:
                link.send_raw(data[:split])
                await asyncio.sleep(0.003)           # the first part has arrived, the client waits for the rest
                link.send_raw(data[split:])
            else:
                link.send_raw(data)
            await _gap(van.get('delay') or ['y', 0])
            if van['how'] == 'abort':
                link.abort()
            else:
                link.close()
            self.add_obs('in_events_with_vanishing_peer')
        except (ConnectionError, OSError) as exc:
            rec['outcome'] = f'dial failed: {exc!r}'

    async def _act_ann(self, ev, rec):
        from aioslsk.protocol.messages import DistributedBranchLevel, DistributedBranchRoot
        name = ev['peer']
        links = self.dlinks(name)
        for _ in range(40):                       # a peer announces as soon as it is connected
            if links:
                break
            await asyncio.sleep(0.005)
            links = self.dlinks(name)
        if not links:
            rec['outcome'] = 'skipped: no live D link'
            self.abstract.append('ann:none')
            return
        level = ev['level']
        root = name if level == 0 else ev['root']
        sent = []
        for link in links:
            s_lvl, s_root = fold_position([m for _, m in link.sent], name)
            order = ev['order']
            # keep the scripted peer protocol-legal (level 0 <=> root is the sender; level 0 may be sent alone, the
            # library documents that it then takes the sender as root)
            if level == 0:
                if order == 'r' and s_lvl not in (None, 0):
                    order = 'rl'
            else:
                if order == 'l' and s_root == name:
                    order = 'lr'
                if order == 'r' and s_lvl == 0:
                    order = 'rl'
            lv, rt = DistributedBranchLevel.Request(level), DistributedBranchRoot.Request(root)
            msgs = {'lr': [lv, rt], 'rl': [rt, lv], 'l': [lv], 'r': [rt]}[order]
            role = self.role_of_link(link)
            link.send(*msgs)
            sent.append({'link': link.conn.id, 'role': role, 'order': order})
            self.abstract.append(f"ann:{role}:{order}:{'L0' if level == 0 else 'L+'}")
        rec['sent'] = sent

    async def _act_disc(self, ev, rec):
        links = self.dlinks(ev['peer'])
        if not links:
            rec['outcome'] = 'skipped: no live D link'
            self.abstract.append('disc:none')
            return
        link = links[-1]
        role = self.role_of_link(link)
        rec['link'], rec['role'] = link.conn.id, role
        self.abstract.append(f"disc:{role}:{ev['how']}")
        if ev['how'] == 'abort':
            link.abort()
        else:
            link.close()

    async def _act_cfail(self, ev, rec):
        if ev['how'] == 'slow':
            self.direct_fail[ev['peer']] = float(ev['latency'])
        else:
            self.direct_fail[ev['peer']] = ev['how']
        self.abstract.append(f"cfail:{ev['how']}:{self.indirect.get(ev['peer'])}")

    async def _act_stall(self, ev, rec):
        """The server link stalls: the scripted server stops reading, application
        traffic (one long private message) fills the simulated socket buffers, so
        every further write of the client to the server suspends until the server
        reads again.  The peers' events of ``during`` happen meanwhile."""
        from aioslsk.protocol.messages import PrivateChatMessage
        await self._server_ready()
        self.abstract.append('stall' + ('+during' if ev.get('during') else ''))
        tr = self.w.server.session_of(ME).writer.transport
        tr.pause_reading()
        self.stalled = tr
        try:
            self.client.network.queue_server_messages(
                PrivateChatMessage.Request('nobody', 'x' * int(ev.get('bytes', 400_000))))
            await settle(0.05)
            ctr = self.client.network.server_connection._writer.transport
            rec['client_writes_suspend'] = bool(ctr._wpaused)
            if ctr._wpaused:
                self.add_obs('stalls_with_suspended_writes')
            nested = []
            for sub in ev.get('during') or []:
                if self.party_of(sub) == 'server':
                    raise RuntimeError('server event inside a stall')
                t = self.apply(dict(sub, during_stall=True))
                nested.append(t)
                if self.overlap:
                    await asyncio.sleep(0.003)
                else:
                    await t
                    await settle(0.4)
            if nested:
                await asyncio.gather(*nested, return_exceptions=True)
                await settle(0.05 if self.overlap else 0.4)
        finally:
            self.stalled = None
            tr.resume_reading()

    async def _act_wait(self, ev, rec):
        self.abstract.append('wait')
        await asyncio.sleep(float(ev['t']))

    async def _act_limits(self, ev, rec):
        from aioslsk.protocol.messages import ParentMinSpeed, ParentSpeedRatio
        await self._server_ready()
        self.own_speed = ev['speed']
        exp = documented_limits(ev['min'], ev['ratio'], ev['speed'])
        rec['documented'] = list(exp)
        if self.limits_allowed is not None:
            self.limits_allowed = set(self.limits_allowed) | {exp}
        self.limits_pending = exp
        self.abstract.append(f"limits:{int(exp[0])}:{min(exp[1], 4)}")
        self.w.server.push(ME, ParentMinSpeed.Response(ev['min']), ParentSpeedRatio.Response(ev['ratio']))

    async def _act_reset(self, ev, rec):
        from aioslsk.protocol.messages import ResetDistributed
        await self._server_ready()
        self.abstract.append('reset')
        self.w.server.push(ME, ResetDistributed.Response())

    async def _act_sessloss(self, ev, rec):
        await self._server_ready()
        self.abstract.append('sessloss' + ('+during' if ev.get('during') else ''))
        # the documents do not say what the child limits are after the session is gone
        self.limits_allowed = None
        self.limits_pending = None
        # the harness' own proposal history is kept per session (the library's cache is read in any case)
        await self.drop_session()
        nested = []
        for sub in ev.get('during') or []:
            # events of the peers while the client has no session
            if self.party_of(sub) == 'server':
                raise RuntimeError('server event inside a session-less window')
            t = self.apply(dict(sub, during_session_loss=True))
            nested.append(t)
            if self.overlap:
                await asyncio.sleep(0.002)
            else:
                await t
                await settle(SETTLE)
        if nested:
            await asyncio.gather(*nested, return_exceptions=True)
            await settle(0.05 if self.overlap else SETTLE)
        await self.relogin()

    async def drop_session(self):
        """The server resets the link; returns once the client has destroyed its session."""
        from aioslsk.network.connection import ConnectionState
        self.limits_allowed = None
        self.limits_pending = None
        self.proposed_processed = set()
        self.w.server.session_of(ME).close('rst')
        sc = self.client.network.server_connection
        for _ in range(400):
            await asyncio.sleep(0.005)
            if sc.state == ConnectionState.CLOSED and self.client.session is None:
                break
        else:
            raise RuntimeError('client never noticed the loss of the server link')
        await settle(0.0)

    async def relogin(self):
        await self.h.call(self.client.network.connect_server())
        await self.h.call(self.client.login())
        self.add_obs('relogins')

    async def _act_search(self, ev, rec):
        from aioslsk.protocol.messages import (
            DistributedSearchRequest, DistributedServerSearchRequest, ServerSearchRequest)
        carrier = ev['carrier']
        rec['t_fire'] = round(self.w.now, 6)
        self.abstract.append(f"search:{carrier}:{'own' if ev['user'] == ME else 'other'}")
        if carrier == 'server':
            await self._server_ready()
            self.w.server.push(ME, ServerSearchRequest.Response(
                distributed_code=3, unknown=0x31, username=ev['user'], ticket=ev['ticket'], query=ev['query']))
            return
        link = self.parent_link()
        if link is None:
            raise RuntimeError('search through the parent link without a parent')
        if carrier == 'distributed':
            link.send(DistributedSearchRequest.Request(0x31, ev['user'], ev['ticket'], ev['query']))
        else:
            link.send(DistributedServerSearchRequest.Request(
                distributed_code=3, unknown=0x31, username=ev['user'], ticket=ev['ticket'], query=ev['query']))

    # -- quiescence --------------------------------------------------------------------------
    async def quiesce(self):
        await self.drain()
        await settle(SETTLE)
        if self.limits_pending is not None:
            self.limits_allowed = {self.limits_pending}
            self.limits_pending = None

    # -- C13: admission ---------------------------------------------------------------------------
    def on_add_child(self, peer):
        dn = self.dn
        rec = {'t': round(self.w.now, 6), 'user': peer.username, 'accept': bool(dn._accept_children),
               'children': len(dn.children), 'max': dn._max_children,
               'in_potential_parents': peer.username in dn.potential_parents}
        sc = self.simconn_of(peer.connection)
        if sc is not None:
            self.accepted[sc.id] = (peer.username, sc)
        link = self.link_by_simconn(sc)          # may not exist yet: the scripted peer accepts one step later
        rec['connection_requested_by_client'] = bool(
            (sc is not None and sc.src == ME) or (link is not None and self.requested_link(link)))
        self.add_child_recs.append(rec)
        self.add_obs('add_child_observed')
        if not self.judge_c13:
            return
        if rec['connection_requested_by_client']:
            self.violate('child-accepted:potential-parent', add_child=rec,
                         note='the connection is one the client itself opened to a user the server proposed')
        if not rec['accept']:
            self.violate('child-accepted:acceptance-off', add_child=rec)
        if rec['children'] >= rec['max']:
            self.violate('child-accepted:over-limit', add_child=rec)
        if rec['in_potential_parents']:
            self.violate('child-accepted:potential-parent', add_child=rec)
        elif peer.username in self.proposed_processed and self.proposed_total <= PP_CACHE:
            self.violate('child-accepted:potential-parent', add_child=rec,
                         note='the client processed a PotentialParents list naming this peer (within the cache size)')
        allowed = self.limits_allowed
        if allowed is not None and rec['accept'] and rec['children'] < rec['max']:
            self.add_obs('add_child_judged_against_documented_limits')
            if not any(a and rec['children'] < m for a, m in allowed):
                which = 'acceptance-off' if not any(a for a, _ in allowed) else 'over-limit'
                self.violate(f'child-accepted:{which}:documented-formula', add_child=rec,
                             documented_limits=sorted(list(x) for x in allowed))

    # -- C13: quiescent check ---------------------------------------------------------------------------
    def check_c13(self, step: int):
        from aioslsk.network.connection import ConnectionState
        from aioslsk.protocol.messages import (
            BranchLevel, BranchRoot, DistributedBranchLevel, DistributedBranchRoot, ToggleParentSearch)
        dn = self.dn
        self.add_obs('quiescence_checks')
        parent = dn.parent
        children = list(dn.children)
        kinds = set(self.burst_kinds)
        self.burst_kinds = []
        base = {'after_event': step, 'roles': self.roles()}

        # (a) parent not among the children
        if parent is not None:
            if any(c is parent or c.connection is parent.connection for c in children):
                self.violate('parent-is-also-child', parent=parent.username,
                             children=[c.username for c in children], **base)
            elif any(c.username == parent.username for c in children):
                self.violate('parent-is-also-child:via-second-connection', parent=parent.username,
                             children=[c.username for c in children], **base)

        # (a) live connections
        dead: set = set()
        for role, dp in ([('parent', parent)] if parent is not None else []) + [('child', c) for c in children]:
            pc = dp.connection
            sc = self.simconn_of(pc)
            wr = getattr(pc, '_writer', None)
            ok = (pc.state == ConnectionState.CONNECTED and wr is not None and sc is not None
                  and not sc.a._lost and not sc.b._lost)
            if not ok:
                dead.add(id(dp))
                self.violate('parent-or-child-connection-dead', role=role, user=dp.username,
                             state=pc.state.name, has_writer=wr is not None,
                             transport_lost=None if sc is None else [sc.a._lost, sc.b._lost], **base)

        parent_sc = self.simconn_of(parent.connection) if parent is not None else None
        child_scs = [self.simconn_of(c.connection) for c in children]
        for sc in child_scs:
            if sc is not None:
                self.ever_children.add(sc.id)

        # (a) a peer taken as child stays a child for as long as its connection is open
        for user, sc in self.accepted_open():
            if not any(sc is c for c in child_scs):
                self.violate('child-dropped-but-connection-open', child=user,
                             children=[c.username for c in children], max_children=dn._max_children, **base)

        # (a) other complete candidates are closed once there is a parent
        if parent is not None:
            self.parent_ever = True
            for name in self.peers:
                for link in self.dlinks(name):
                    if link.conn is parent_sc or any(link.conn is sc for sc in child_scs):
                        continue
                    lvl, root = fold_position(self.processed.get(link.conn.id, []), name)
                    if lvl is not None and root is not None:
                        self.violate('candidates-not-closed-after-parent-set', candidate=name,
                                     announced=[lvl, root], parent=parent.username, **base)

        # (c) advertised position
        session = self.w.server.by_user.get(ME)
        if session is None or not session.open:
            raise RuntimeError('no server session at a quiescent check')
        if parent is None:
            pfold = None
            expected = {'level': 0, 'root': ME, 'parent-search': True}
        else:
            pframes = self.processed.get(parent_sc.id, []) if parent_sc is not None else []
            pfold = fold_position(pframes, parent.username)
            if pfold[0] is None or pfold[1] is None:
                self.violate('parent-without-complete-announcement', parent=parent.username,
                             processed=[frame_brief(m) for m in pframes], **base)
                self._remember(parent_sc, pfold)
                return
            expected = {'level': pfold[0] + 1, 'root': pfold[1], 'parent-search': False}

        parent_key = parent_sc.id if parent_sc is not None else None
        if 'sessloss' in kinds:
            # what happened to the parent while there was no session names the mechanism
            if parent is None:
                situation = 'after-relogin:parent-lost' if self.prev_parent_key is not None or self._sets_in_burst \
                    else 'after-relogin'
            elif parent_key != self.prev_parent_key:
                situation = 'after-relogin:parent-set'
            elif pfold != self.prev_fold:
                situation = 'after-relogin:parent-update'
            else:
                situation = 'after-relogin'
        elif 'reset' in kinds:
            situation = 'after-reset'
        elif parent is None:
            lost = self.prev_parent_key is not None or bool(self._sets_in_burst)
            situation = 'parent-lost' if lost else 'no-parent'
        elif parent_key == self.prev_parent_key and pfold != self.prev_fold:
            situation = 'parent-update'
        else:
            situation = 'parent-set'
        self.add_cover('situations', situation)

        def last(cls, frames):
            for _t, m in reversed(frames):
                if isinstance(m, cls):
                    return m
            return None

        sframes = session.frames
        m_lvl, m_root, m_tog = last(BranchLevel.Request, sframes), last(BranchRoot.Request, sframes), \
            last(ToggleParentSearch.Request, sframes)
        told = {'level': None if m_lvl is None else m_lvl.level,
                'root': None if m_root is None else m_root.username,
                'parent-search': None if m_tog is None else bool(m_tog.enable)}
        self.add_obs('position_checks')
        bad = [f for f in ('level', 'root', 'parent-search') if told[f] != expected[f]]
        key = (tuple(sorted(expected.items())), tuple(sorted(told.items(), key=str)))
        if bad and self.reported.get('server') != key:
            self.reported['server'] = key
            stale = False
            if parent is not None:
                earlier = [(lv + 1, rt) for lv, rt in prefix_positions(
                    self.processed.get(parent_sc.id, []), parent.username)]
                stale = (told['level'], told['root']) in earlier and told['parent-search'] is False
            detail = dict(expected=expected, server_was_last_told=told, situation=situation,
                          parent=None if parent is None else parent.username,
                          parent_announced=None if pfold is None else list(pfold),
                          server_frames_tail=[frame_brief(m) for _t, m in sframes[-8:]], **base)
            if stale:
                self.violate('position:server-not-told-after-parent-update', **detail)
            else:
                self.violate(f'position:server:{bad[0]}:{situation}', also_wrong=bad[1:], **detail)
        elif not bad:
            self.reported.pop('server', None)

        for c, sc in zip(children, child_scs):
            link = self.link_by_simconn(sc)
            if link is None or id(c) in dead:        # a dead child is reported as such, not as badly informed
                continue
            self.add_obs('position_checks')
            c_lvl, c_root = last(DistributedBranchLevel.Request, link.frames), \
                last(DistributedBranchRoot.Request, link.frames)
            ctold = {'level': None if c_lvl is None else c_lvl.level,
                     'root': None if c_root is None else c_root.username}
            cbad = []
            if ctold['level'] != expected['level']:
                cbad.append('level')
            if expected['level'] != 0 and ctold['root'] != expected['root']:
                cbad.append('root')
            ckey = (expected['level'], expected['root'], ctold['level'], ctold['root'])
            tgt = f'child:{sc.id}'
            if cbad and self.reported.get(tgt) != ckey:
                self.reported[tgt] = ckey
                if c_lvl is None and c_root is None:
                    sig = 'position:child:never-told:' + situation.split(':')[0]
                else:
                    sig = f'position:child:{cbad[0]}:{situation}'
                self.violate(sig, child=c.username, expected=expected, also_wrong=cbad[1:],
                             child_was_last_told=ctold, situation=situation,
                             parent=None if parent is None else parent.username,
                             parent_announced=None if pfold is None else list(pfold),
                             child_frames_tail=[frame_brief(m) for _t, m in link.frames[-6:]], **base)
            elif not cbad:
                self.reported.pop(tgt, None)
        self._remember(parent_sc, pfold)

    @property
    def _sets_in_burst(self) -> list:
        return self.parent_sets[self._sets_seen:]

    _sets_seen = 0

    def _remember(self, parent_sc, pfold):
        self.prev_parent_key = parent_sc.id if parent_sc is not None else None
        self.prev_fold = pfold
        self._sets_seen = len(self.parent_sets)


# ---------------------------------------------------------------------------
# C13: generation

def gen_c13_events(rng: random.Random, n_peers: int, length: int) -> list:
    peers = list(DPEERS[:n_peers])
    linked: list = []
    evs: list = []
    kinds = ['pp', 'in', 'ann', 'disc', 'cfail', 'limits', 'reset', 'sessloss', 'stall']
    weights = [17, 16, 32, 12, 4, 9, 5, 5, 4]

    def ann(peer):
        level = rng.choice([0, 1, 1, 2, 3, 5])
        # a peer that is itself the root usually sends level 0 alone (as aioslsk itself does)
        weights = [20, 10, 60, 10] if level == 0 else [40, 30, 15, 15]
        return {'e': 'ann', 'peer': peer, 'level': level, 'root': rng.choice(ROOTS),
                'order': rng.choices(['lr', 'rl', 'l', 'r'], weights)[0]}

    def total():
        return sum(1 + len(e.get('during') or []) for e in evs)

    if length >= 7 and rng.random() < 0.12:
        # family: many proposals, one slow early candidate
        slow = rng.choice(peers)
        first = rng.choice([9, 10, 12])
        evs += many_proposals(slow, rng.choice([2.0, 3.0, 4.5]), (first, rng.choice([8, 10]), rng.choice([11, 13])))
        linked.append(slow)

    elif length >= 7 and rng.random() < 0.07:
        # family: child, parent and a silent candidate; while the server link is stalled the parent leaves and the
        # candidate announces (the writes to the server of both steps suspend)
        c, p, q = rng.sample(peers, 3)
        first = [{'e': 'in', 'peer': c}, {'e': 'pp', 'peers': [p]}, ann(p)]
        if rng.random() < 0.4:
            first = first[1:] + first[:1]                 # the child joins after the parent is set
        evs += first + [{'e': 'pp', 'peers': [q]}]
        during = [{'e': 'disc', 'peer': p, 'how': rng.choice(['close', 'abort'])}, ann(q)]
        if rng.random() < 0.3:
            during.append(ann(q))
        evs.append({'e': 'stall', 'during': during})
        linked += [c, q]
    elif length >= 4 and rng.random() < 0.08:
        # family: the connect to a proposed user fails on both paths, then that user dials in
        x = rng.choice(peers)
        how = rng.choice(['refuse', 'refuse', 'hang'])
        evs.append({'e': 'cfail', 'peer': x, 'how': how, 'indirect': 'cannot'})
        others = [p for p in peers if p != x]
        evs.append({'e': 'pp', 'peers': [x] + rng.sample(others, rng.choice([0, 0, 1]))})
        if how == 'hang':
            evs.append({'e': 'wait', 't': 11.0})          # the direct attempt gives up after 10 s
        if rng.random() < 0.4 and total() + 2 <= length:
            evs.append(ann(rng.choice(others)))
        evs.append({'e': 'in', 'peer': x})
        linked.append(x)

    while total() < length:
        if not evs and rng.random() < 0.6:
            k = rng.choice(['pp', 'pp', 'in', 'limits'])
        else:
            k = rng.choices(kinds, weights)[0]
        if k == 'pp':
            ps = rng.sample(peers, rng.choice([1, 1, 2, 2, 3]))
            evs.append({'e': 'pp', 'peers': ps})
            for p in ps:
                if p not in linked:
                    linked.append(p)
        elif k == 'in':
            p = rng.choice(peers)
            if rng.random() < 0.18:
                # the peer resets / closes its connection right after (or while) sending its PeerInit
                evs.append({'e': 'in', 'peer': p, 'vanish': vanish(rng)})
                continue
            evs.append({'e': 'in', 'peer': p})
            if p not in linked:
                linked.append(p)
        elif k == 'ann':
            p = rng.choice(linked) if linked and rng.random() < 0.9 else rng.choice(peers)
            evs.append(ann(p))
        elif k == 'disc':
            if not linked:
                continue
            p = rng.choice(linked)
            evs.append({'e': 'disc', 'peer': p, 'how': rng.choice(['close', 'close', 'abort'])})
            if rng.random() < 0.7:
                linked.remove(p)
        elif k == 'cfail':
            evs.append({'e': 'cfail', 'peer': rng.choice(peers), 'how': rng.choice(['refuse', 'hang'])})
        elif k == 'limits':
            mn, ratio, speed = rng.choice(LIMITS)
            evs.append({'e': 'limits', 'min': mn, 'ratio': ratio, 'speed': speed})
        elif k == 'reset':
            evs.append({'e': 'reset'})
            linked = []
        elif k == 'stall':
            # the server link stalls while the peers act
            during = []
            for _ in range(rng.choice([1, 2, 2])):
                if total() + 1 + len(during) >= length:
                    break
                r = rng.random()
                if r < 0.2:
                    p = rng.choice(peers)
                    during.append({'e': 'in', 'peer': p})
                    if p not in linked:
                        linked.append(p)
                elif r < 0.65 and linked:
                    during.append(ann(rng.choice(linked)))
                elif linked:
                    during.append({'e': 'disc', 'peer': rng.choice(linked), 'how': rng.choice(['close', 'abort'])})
            if during:
                evs.append({'e': 'stall', 'during': during})
        else:
            ev = {'e': 'sessloss'}
            if rng.random() < 0.5:
                # what the peers do while the client has no session
                during = []
                for _ in range(rng.choice([1, 1, 2])):
                    if total() + 1 + len(during) >= length:
                        break
                    r = rng.random()
                    if r < 0.35:
                        p = rng.choice(peers)
                        during.append({'e': 'in', 'peer': p})
                        if p not in linked:
                            linked.append(p)
                    elif r < 0.7 and linked:
                        during.append(ann(rng.choice(linked)))
                    elif linked:
                        during.append({'e': 'disc', 'peer': rng.choice(linked), 'how': rng.choice(['close', 'abort'])})
                if during:
                    ev['during'] = during
            evs.append(ev)
    return evs


def vanish(rng: random.Random) -> dict:
    return {'how': rng.choice(['abort', 'abort', 'abort', 'close']),
            'split': rng.choice([None, None, 4, 5, 9]),            # None: the init frame in one segment
            'delay': rng.choice([['y', 0], ['y', 0], ['y', 1], ['y', 3], ['t', 0.0005], ['t', 0.001], ['t', 0.003]])}


def many_proposals(peer: str, latency: float = 3.0, ghosts=(9, 10, 11)) -> list:
    """More proposed names than the documented potential-parent cache holds
    (20), almost all unreachable; the connect to ``peer``, proposed first, is slow
    and completes after its name has left the cache."""
    out = [{'e': 'cfail', 'peer': peer, 'how': 'slow', 'latency': latency}]
    for i, g in enumerate(ghosts):
        out.append({'e': 'pp', 'peers': [peer] if i == 0 else [], 'ghosts': g})
    out.append({'e': 'wait', 't': latency})
    return out


def _A(peer, level, root='rootA', order='lr'):
    return {'e': 'ann', 'peer': peer, 'level': level, 'root': root, 'order': order}


def _L(i):
    mn, ratio, speed = LIMITS[i]
    return {'e': 'limits', 'min': mn, 'ratio': ratio, 'speed': speed}


# short directed sequences, run first (lowest case numbers = shortest witnesses)
C13_DIRECTED = [
    [{'e': 'pp', 'peers': ['p1']}, _A('p1', 1)],
    [{'e': 'pp', 'peers': ['p1']}, _A('p1', 1, order='rl')],
    [{'e': 'pp', 'peers': ['p1']}, _A('p1', 0, order='l')],
    [{'e': 'pp', 'peers': ['p1']}, _A('p1', 1), _A('p1', 2, order='l')],
    [{'e': 'pp', 'peers': ['p1']}, _A('p1', 1), _A('p1', 1, root='rootB', order='r')],
    [{'e': 'pp', 'peers': ['p1']}, _A('p1', 1), _A('p1', 3, root='rootB')],
    [{'e': 'in', 'peer': 'p1'}, _A('p1', 1)],
    [{'e': 'in', 'peer': 'p1'}, _A('p1', 0, order='l')],
    [{'e': 'in', 'peer': 'p2'}, {'e': 'pp', 'peers': ['p1']}, _A('p1', 2)],
    [{'e': 'in', 'peer': 'p2'}, {'e': 'pp', 'peers': ['p1']}, _A('p1', 2), _A('p1', 4, root='rootC')],
    [{'e': 'in', 'peer': 'p2'}, {'e': 'pp', 'peers': ['p1']}, _A('p1', 2), {'e': 'disc', 'peer': 'p1', 'how': 'close'}],
    [{'e': 'pp', 'peers': ['p1']}, _A('p1', 2), {'e': 'in', 'peer': 'p2'}],
    [{'e': 'pp', 'peers': ['p1']}, _A('p1', 1), {'e': 'disc', 'peer': 'p1', 'how': 'abort'}],
    [{'e': 'pp', 'peers': ['p1', 'p2']}, _A('p1', 1), _A('p2', 1, root='rootB')],
    [{'e': 'pp', 'peers': ['p1', 'p2']}, _A('p1', 1, order='l'), _A('p2', 1, root='rootB'), _A('p1', 1, order='r')],
    [{'e': 'pp', 'peers': ['p1', 'p2']}, {'e': 'in', 'peer': 'p1'}],
    [_L(2), {'e': 'in', 'peer': 'p1'}, {'e': 'in', 'peer': 'p2'}],
    [_L(0), {'e': 'in', 'peer': 'p1'}],
    [_L(1), {'e': 'in', 'peer': 'p1'}],
    [_L(4), {'e': 'in', 'peer': 'p1'}, {'e': 'in', 'peer': 'p2'}, {'e': 'in', 'peer': 'p3'}],
    [_L(2), {'e': 'in', 'peer': 'p1'}, {'e': 'disc', 'peer': 'p1', 'how': 'close'}, {'e': 'in', 'peer': 'p2'}],
    [{'e': 'pp', 'peers': ['p1']}, _A('p1', 1), {'e': 'in', 'peer': 'p2'}, {'e': 'reset'}],
    [{'e': 'pp', 'peers': ['p1']}, _A('p1', 1), {'e': 'in', 'peer': 'p2'}, {'e': 'sessloss'}],
    [{'e': 'in', 'peer': 'p2'}, {'e': 'sessloss'}],
    [{'e': 'sessloss', 'during': [{'e': 'in', 'peer': 'p1'}]}],
    [{'e': 'pp', 'peers': ['p1']}, _A('p1', 1), {'e': 'in', 'peer': 'p2'},
     {'e': 'sessloss', 'during': [{'e': 'disc', 'peer': 'p1', 'how': 'close'}]}],
    [{'e': 'pp', 'peers': ['p1']}, _A('p1', 1), {'e': 'in', 'peer': 'p2'},
     {'e': 'sessloss', 'during': [_A('p1', 3, order='l')]}],
    [{'e': 'pp', 'peers': ['p1']}, {'e': 'sessloss', 'during': [_A('p1', 1)]}],
    [{'e': 'in', 'peer': 'p2'}, {'e': 'pp', 'peers': ['p1']}, {'e': 'sessloss', 'during': [_A('p1', 1)]}],
    [{'e': 'cfail', 'peer': 'p1', 'how': 'refuse'}, {'e': 'pp', 'peers': ['p1']}, _A('p1', 1)],
    [{'e': 'cfail', 'peer': 'p1', 'how': 'hang'}, {'e': 'pp', 'peers': ['p1', 'p2']}, _A('p2', 1)],
    [{'e': 'pp', 'peers': ['p1']}, _A('p1', 1), {'e': 'pp', 'peers': ['p2']}, _A('p2', 1, root='rootB')],
    [{'e': 'pp', 'peers': ['p1']}, _A('p1', 1), {'e': 'in', 'peer': 'p2'}, _A('p2', 3, root='rootB')],
    # the parent becomes the root itself: level 0 alone after an explicit root
    [{'e': 'pp', 'peers': ['p1']}, _A('p1', 2), _A('p1', 0, order='l')],
    [{'e': 'pp', 'peers': ['p1']}, _A('p1', 1, root='rootB', order='rl'), _A('p1', 0, order='l'), {'e': 'in', 'peer': 'p2'}],
    [{'e': 'in', 'peer': 'p2'}, {'e': 'pp', 'peers': ['p1']}, _A('p1', 3), _A('p1', 0, order='l'), _A('p1', 2, order='l')],
    [{'e': 'pp', 'peers': ['p1']}, _A('p1', 0, order='l'), _A('p1', 2, root='rootB'), _A('p1', 0, order='l')],
    # more proposals than the potential-parent cache holds, the connect to the first proposed user is slow
    many_proposals('p1'),
    many_proposals('p1') + [{'e': 'in', 'peer': 'p2'}, {'e': 'pp', 'peers': ['p3']}, _A('p3', 1)],
    many_proposals('p1') + [_A('p1', 1), {'e': 'in', 'peer': 'p2'}],
    many_proposals('p1', 2.0, (10, 11)) + [{'e': 'in', 'peer': 'p1'}],
    # ... that user becomes the parent and then dials in itself
    many_proposals('p1') + [_A('p1', 1), {'e': 'in', 'peer': 'p1'}],
    # the connect to a proposed user fails on both paths, then that user dials in
    [{'e': 'cfail', 'peer': 'p1', 'how': 'refuse', 'indirect': 'cannot'}, {'e': 'pp', 'peers': ['p1']},
     {'e': 'in', 'peer': 'p1'}],
    [{'e': 'cfail', 'peer': 'p1', 'how': 'hang', 'indirect': 'cannot'}, {'e': 'pp', 'peers': ['p1']},
     {'e': 'wait', 't': 11.0}, {'e': 'in', 'peer': 'p1'}],
    [{'e': 'cfail', 'peer': 'p1', 'how': 'refuse', 'indirect': 'cannot'}, {'e': 'pp', 'peers': ['p1', 'p2']},
     _A('p2', 1), {'e': 'in', 'peer': 'p1'}],
    # the child limit goes down below the number of children
    [_L(4), {'e': 'in', 'peer': 'p1'}, {'e': 'in', 'peer': 'p2'}, {'e': 'in', 'peer': 'p3'}, _L(2)],
    [{'e': 'in', 'peer': 'p1'}, {'e': 'in', 'peer': 'p2'}, _L(0)],
    [{'e': 'in', 'peer': 'p1'}, {'e': 'in', 'peer': 'p2'}, _L(2), {'e': 'pp', 'peers': ['p3']}, _A('p3', 2)],
    # the peer resets its connection at the instant the last byte of its PeerInit arrives (init in two segments)
    [{'e': 'in', 'peer': 'p1', 'vanish': {'how': 'abort', 'split': 5, 'delay': ['y', 0]}}, {'e': 'in', 'peer': 'p2'}],
    [_L(2), {'e': 'in', 'peer': 'p1', 'vanish': {'how': 'abort', 'split': 4, 'delay': ['y', 0]}},
     {'e': 'in', 'peer': 'p2'}, {'e': 'in', 'peer': 'p3'}],
    [{'e': 'pp', 'peers': ['p3']}, _A('p3', 1),
     {'e': 'in', 'peer': 'p1', 'vanish': {'how': 'abort', 'split': 9, 'delay': ['y', 0]}}, _A('p3', 2, order='l')],
    [{'e': 'in', 'peer': 'p1', 'vanish': {'how': 'abort', 'split': None, 'delay': ['y', 0]}}, {'e': 'in', 'peer': 'p2'}],
    [{'e': 'in', 'peer': 'p1', 'vanish': {'how': 'close', 'split': None, 'delay': ['y', 0]}}, {'e': 'in', 'peer': 'p2'}],
    [{'e': 'in', 'peer': 'p1', 'vanish': {'how': 'abort', 'split': 5, 'delay': ['t', 0.001]}}, {'e': 'in', 'peer': 'p2'}],
    # the server link stalls (writes to the server suspend) while the tree changes
    [{'e': 'in', 'peer': 'p3'}, {'e': 'pp', 'peers': ['p1']}, _A('p1', 1), {'e': 'pp', 'peers': ['p2']},
     {'e': 'stall', 'during': [{'e': 'disc', 'peer': 'p1', 'how': 'close'}, _A('p2', 2, root='rootB')]}],
    [{'e': 'in', 'peer': 'p3'}, {'e': 'pp', 'peers': ['p1']}, _A('p1', 1), {'e': 'pp', 'peers': ['p2']},
     {'e': 'stall', 'during': [{'e': 'disc', 'peer': 'p1', 'how': 'abort'}, _A('p2', 0, order='l')]}],
    [{'e': 'in', 'peer': 'p3'}, {'e': 'pp', 'peers': ['p1']}, _A('p1', 1),
     {'e': 'stall', 'during': [_A('p1', 3, order='l'), _A('p1', 3, root='rootB', order='r')]}],
    [{'e': 'pp', 'peers': ['p1']}, _A('p1', 1), {'e': 'stall', 'during': [{'e': 'in', 'peer': 'p2'},
                                                                          {'e': 'disc', 'peer': 'p1', 'how': 'close'}]}],
    [{'e': 'in', 'peer': 'p3'}, {'e': 'pp', 'peers': ['p1']},
     {'e': 'stall', 'during': [_A('p1', 1), {'e': 'disc', 'peer': 'p1', 'how': 'close'}]}],
]


def c13_length_for(i: int, n: int) -> int:
    f = i / max(1, n)
    return min(10, 2 + int(f * 9))


def expand_c13(params: dict) -> dict:
    """-> {'events', 'overlap', 'n_peers', 'indirect', 'connect_mode', 'bursts'}"""
    if 'events' in params:
        cfg = {'events': [dict(e) for e in params['events']], 'overlap': bool(params.get('overlap', False)),
               'n_peers': params.get('n_peers', 3), 'indirect': dict(params.get('indirect') or {}),
               'connect_mode': params.get('connect_mode', 'race')}
        rng = random.Random(f"{params.get('seed', 0)}:C13:explicit:{params.get('idx', 0)}")
    elif params['mode'] == 'directed':
        cfg = {'events': [dict(e) for e in C13_DIRECTED[params['idx']]], 'overlap': False, 'n_peers': 3,
               'indirect': {p: 'pierce' for p in DPEERS}, 'connect_mode': params.get('connect_mode', 'race')}
        rng = random.Random(f"{params['seed']}:C13:directed:{params['idx']}")
    else:
        rng = random.Random(f"{params['seed']}:C13:{params['idx']}")
        n_peers = rng.choice([3, 4])
        cfg = {'events': gen_c13_events(rng, n_peers, params['len']), 'overlap': params['idx'] % 2 == 1,
               'n_peers': n_peers,
               'indirect': {p: rng.choices(['pierce', 'cannot', 'ignore'], [70, 15, 15])[0] for p in DPEERS[:n_peers]},
               'connect_mode': rng.choice(['race', 'fallback'])}
    for e in cfg['events']:
        if e['e'] == 'cfail' and e['how'] == 'slow':
            cfg['indirect'][e['peer']] = 'ignore'     # else the pierced connection is there long before
        elif e['e'] == 'cfail' and e.get('indirect'):
            cfg['indirect'][e['peer']] = e['indirect']
    # burst structure and gaps of the overlapping half
    bursts, gaps = [], []
    i = 0
    while i < len(cfg['events']):
        size = rng.choice([2, 3, 3, 4]) if cfg['overlap'] else 1
        bursts.append(list(range(i, min(len(cfg['events']), i + size))))
        i += size
    for _ in cfg['events']:
        gaps.append(rng.choice([['y', 0], ['y', 1], ['y', 2], ['y', 3], ['t', 0.001], ['t', 0.003], ['t', 0.008]]))
    cfg['bursts'], cfg['gaps'] = bursts, gaps
    return cfg


async def _gap(g):
    if g[0] == 'y':
        await yields(g[1])
    else:
        await asyncio.sleep(g[1])


async def _setup(w: World, cfg: dict, peer_names, settings=None, scan: bool = False):
    from aioslsk.network.network import PeerConnectMode
    await w.start_server()
    h = await w.add_client(ME, settings, scan=scan)
    h.client.settings.network.peer.connect_mode = (
        PeerConnectMode.RACE if cfg.get('connect_mode', 'race') == 'race' else PeerConnectMode.FALLBACK)
    peers = {}
    for name in peer_names:
        peers[name] = await w.add_peer(name)
    await settle(SETTLE)
    return h, peers


def run_c13_case(res: dict, params: dict):
    global _CURRENT
    install_hooks()
    cfg = expand_c13(params)
    events = cfg['events']
    n_events = sum(1 + len(e.get('during') or []) for e in events)
    if not 1 <= n_events <= 10:
        res['inconclusive'] = f'sequence length {n_events} outside 1..10'
        return
    holder: dict = {}

    async def main(w: World):
        global _CURRENT
        h, peers = await _setup(w, cfg, DPEERS[:cfg['n_peers']])
        eng = Engine(w, h, peers, random.Random(f'{w.seed}:eng'), overlap=cfg['overlap'], indirect=cfg['indirect'])
        holder['eng'] = eng
        _CURRENT = eng
        try:
            eng.check_c13(-1)
            for burst in cfg['bursts']:
                for i in burst:
                    t = eng.apply(events[i])
                    if cfg['overlap']:
                        await _gap(cfg['gaps'][i])
                    else:
                        await t
                await eng.quiesce()
                eng.check_c13(burst[-1])
            dead = h.dead_background_tasks()
            await w.stop_clients()
            return {'dead_tasks': dead}
        finally:
            _CURRENT = None

    tag = f"C13:{params.get('seed', 0)}:{params.get('mode', 'x')}:{params.get('idx', 0)}"
    out = run_world(tag, main, wall_timeout=90)
    _CURRENT = None
    if out.inconclusive:
        res['inconclusive'] = out.inconclusive
        return
    eng: Engine = holder['eng']
    for sig, detail in eng.viol:
        runner.violation(res, sig, **detail)
    for sig, detail in safety_net_violations(out):
        runner.violation(res, safety_sig(sig, detail), detail=detail, events_applied=eng.applied,
                         mode='overlap' if eng.overlap else 'settle')
    for d in (out.result or {}).get('dead_tasks', []):
        if not d['cancelled']:
            runner.violation(res, f"safety:background-task-died:{d['task']}", detail=d, events_applied=eng.applied)
    for k, v in eng.obs.items():
        runner.add_obs(res, k, v)
    runner.add_obs(res, 'parents_set', len(eng.parent_sets))
    runner.add_obs(res, 'parents_unset', len(eng.parent_unsets))
    runner.add_obs(res, 'sequences')
    for k, vals in eng.cover.items():
        for v in vals:
            runner.add_cover(res, k, v)
    runner.add_cover(res, 'modes', ('overlap' if eng.overlap else 'settle') + '/' + cfg['connect_mode'])
    if eng.parent_sets:
        res['csigs'].append(('O|' if eng.overlap else 'S|') + '>'.join(eng.abstract))
    res['sample'] = {'params': {k: v for k, v in params.items() if k != 'events'},
                     'mode': 'overlap' if eng.overlap else 'settle', 'connect_mode': cfg['connect_mode'],
                     'indirect': cfg['indirect'], 'events_applied': eng.applied, 'abstract': eng.abstract,
                     'add_child': eng.add_child_recs[:6], 'parents_set': eng.parent_sets[:6]}


# ---------------------------------------------------------------------------
# C14

ASKERS = ('alice', 'bob', 'carol')            # scripted users that only ask (and listen for the reply)
C14_WORDS = ['song', 'long', 'along', 'live', 'alive', 'olive', 'mix', 'remix', 'rock', 'rocks', 'shamrock',
             'love', 'glove', 'above', '01', '101', 'café', 'über', 'the', 'beatles', 'vol', 'track', 'b', 'side']
C14_JOIN = [' ', ' ', '_', '-', '.', ' - ', "'", ' & ']
C14_EXT = ['.mp3', '.mp3', '.flac', '.ogg', '.MP3', '']


def gen_c14(rng: random.Random) -> dict:
    """Share layout, user settings and the event list of one C14 run."""
    from .sharesmodel import EVERYONE, FRIENDS, USERS
    pool = rng.sample(C14_WORDS, rng.randint(7, 11))

    def name(nmax):
        out = ''
        for i in range(rng.randint(1, nmax)):
            wd = rng.choice(pool)
            r = rng.random()
            wd = wd if r < 0.6 else (wd.capitalize() if r < 0.85 else wd.upper())
            out += (rng.choice(C14_JOIN) if i else '') + wd
        return out.strip() or 'x'

    n_dirs = rng.choice([1, 2, 2, 3])
    dirs = []
    modes = [EVERYONE, rng.choice([EVERYONE, FRIENDS, USERS]), rng.choice([FRIENDS, USERS])]
    rng.shuffle(modes)
    for d in range(n_dirs):
        mode = modes[d]
        users = sorted(rng.sample(list(ASKERS) + ['p1', 'p2'], rng.randint(0, 2))) if mode == USERS else []
        files, seen = [], set()
        subs = ['']
        for _ in range(rng.randint(0, 2)):
            subs.append(name(2))
        for _ in range(rng.randint(2, 6)):
            sub, fn = rng.choice(subs), name(3) + rng.choice(C14_EXT)
            if (sub, fn) in seen or fn in ('.', '..') or fn in subs:
                continue
            seen.add((sub, fn))
            files.append([sub, fn])
        dirs.append({'name': f'share{d}', 'mode': mode, 'users': users, 'files': files})
    friends = sorted(rng.sample(list(ASKERS) + ['p1', 'p3'], rng.randint(0, 2)))
    blocked = {}
    if rng.random() < 0.6:
        blocked[rng.choice(ASKERS)] = rng.choice(['SEARCHES', 'ALL', 'SEARCHES|UPLOADS'])
    if rng.random() < 0.3:
        blocked[rng.choice(ASKERS)] = rng.choice(['UPLOADS', 'SHARES', 'PRIVATE_MESSAGES'])   # not a search block

    n_peers = rng.choice([3, 4, 4])
    peers = list(DPEERS[:n_peers])
    # tree shape
    parent = rng.choice(peers) if rng.random() < 0.65 else None
    rest = [p for p in peers if p != parent]
    rng.shuffle(rest)
    n_children = rng.choice([0, 1, 2, 2, 3, 3])
    children = rest[:min(n_children, len(rest))]
    spare = rest[len(children):]
    candidate = spare[0] if spare and rng.random() < 0.6 else None
    steps: list = []          # events and 'burst' markers
    family = rng.choices(['plain', 'many-proposals', 'closing-child', 'asker-closes'], [52, 16, 18, 14])[0]
    slow = None
    if family == 'many-proposals':
        # more proposed names than the potential-parent cache holds; the connect to the first proposed user is slow
        if not spare:
            spare = [children.pop()] if children else []
        if spare:
            slow = candidate = spare[0]
        else:
            family = 'plain'
    if family == 'closing-child' and len(children) < 2:
        children = rest[:2]
        spare = rest[2:]
        if candidate in children:
            candidate = None

    def parent_events(p):
        lvl = rng.choice([0, 1, 2, 4])
        return [{'e': 'pp', 'peers': [p]},
                {'e': 'ann', 'peer': p, 'level': lvl, 'root': rng.choice(ROOTS), 'order': rng.choice(['lr', 'rl'])}]

    setup = []
    if slow:
        # before any parent is set (setting a parent cancels the pending connects)
        setup += many_proposals(slow, rng.choice([2.0, 3.0]), (rng.choice([9, 10]), 10, rng.choice([11, 12])))
        parent_done = False
    elif parent and rng.random() < 0.5:
        setup += parent_events(parent)
        parent_done = True
    else:
        parent_done = False
    for c in children:
        setup.append({'e': 'in', 'peer': c})
    if parent and not parent_done:
        setup += parent_events(parent)
    if candidate and not slow:
        # a candidate is a D connection that is neither parent nor child: a proposed peer that never announces
        # (with a parent set) or a proposed peer that dials in (never accepted as child)
        if parent:
            setup.append({'e': 'pp', 'peers': [candidate]})
        else:
            setup.append({'e': 'pp', 'peers': [candidate]})
            if rng.random() < 0.5:
                setup.append({'e': 'in', 'peer': candidate})
    steps += setup

    state = {'parent': parent, 'children': list(children), 'candidate': candidate,
             'free': [p for p in spare if p != candidate]}
    ticket = [rng.randrange(1, 2 ** 31)]
    n_bursts = rng.choice([2, 3, 3, 4])
    users_pool = list(ASKERS) * 3 + peers + [ME, ME]

    def request():
        ticket[0] = (ticket[0] + rng.randrange(1, 100000)) % (2 ** 32)
        if state['parent'] is not None:
            carrier = rng.choices(['distributed', 'legacy', 'server'], [50, 35, 15])[0]
        else:
            carrier = 'server'
        return {'e': 'search', 'carrier': carrier, 'user': rng.choice(users_pool), 'ticket': ticket[0], 'query': None}

    open_askers = [a for a in ASKERS if not search_blocked(blocked, a)]
    close_asker = rng.choice(open_askers) if family == 'asker-closes' and open_askers else None

    def asker_pair():
        # two requests with matches from one asker; the asker closes the connection that carried the first reply
        # around the moment the second request is processed
        r1, r2 = request(), request()
        for r in (r1, r2):
            r.update(user=close_asker, want_match=True)
        offset = rng.choice([0.0, 0.0, 0.001, 0.003])
        return [{'burst': [r1]},
                {'burst': [r2], 'asker_close': {'user': close_asker, 'how': rng.choice(['close', 'close', 'abort']),
                                                'offset': offset,
                                                'order': rng.choice(['close-first', 'search-first']) if not offset
                                                else 'close-first'}}]

    for b in range(n_bursts):
        if close_asker and rng.random() < 0.75:
            steps.extend(asker_pair())
        burst = {'burst': [request() for _ in range(rng.choice([1, 2, 2, 3]))]}
        steps.append(burst)
        if state['parent'] is not None and family != 'closing-child' and rng.random() < 0.15:
            # the server link is lost while the parent keeps sending searches (the tree connections stay open)
            burst['no_session'] = True
            for r in burst['burst']:
                if r['carrier'] == 'server':
                    r['carrier'] = rng.choice(['distributed', 'legacy'])
        if family == 'closing-child' and len(state['children']) >= 2 and rng.random() < 0.7:
            # one child closes at the instant the requests are sent; its siblings must still get them
            c = rng.choice(state['children'][:-1] if rng.random() < 0.7 else state['children'])
            burst.update(leaver=c, leaver_first=rng.random() < 0.5, leaver_how=rng.choice(['close', 'close', 'abort']))
            state['children'].remove(c)
            state['free'].append(c)
        if b == n_bursts - 1:
            break
        # membership changes between requests
        for _ in range(rng.choice([0, 1, 1, 2])):
            r = rng.random()
            if len(state['children']) >= 2 and rng.random() < 0.2:
                # the server lowers the child limit below the number of children (they stay children)
                mn, ratio, speed = rng.choice([LIMITS[2], LIMITS[2], LIMITS[1], LIMITS[0]])
                steps.append({'e': 'limits', 'min': mn, 'ratio': ratio, 'speed': speed})
            elif r < 0.35 and state['children']:
                c = rng.choice(state['children'])
                state['children'].remove(c)
                state['free'].append(c)
                steps.append({'e': 'disc', 'peer': c, 'how': rng.choice(['close', 'abort'])})
            elif r < 0.65 and state['free'] and len(state['children']) < 3:
                c = state['free'].pop(0)
                state['children'].append(c)
                steps.append({'e': 'in', 'peer': c})
            elif r < 0.8 and state['parent'] is not None:
                p = state['parent']
                state['parent'] = None
                state['free'].append(p)
                steps.append({'e': 'disc', 'peer': p, 'how': rng.choice(['close', 'abort'])})
            elif r < 0.9 and state['parent'] is None and state['free']:
                p = state['free'].pop(0)
                state['parent'] = p
                steps += parent_events(p)
            elif state['parent'] is not None:
                steps.append({'e': 'ann', 'peer': state['parent'], 'level': rng.choice([1, 2, 3]),
                              'root': rng.choice(ROOTS), 'order': 'lr'})
    # in a quarter of the runs 1-3 indexed files are deleted from disk after the scan (stale index)
    gone = []
    if rng.random() < 0.25:
        allf = [[d['name'], sub, fn] for d in dirs for sub, fn in d['files']]
        gone = rng.sample(allf, min(len(allf) - 1, rng.choice([1, 1, 2, 3]))) if len(allf) > 1 else []
    indirect = {p: rng.choices(['ignore', 'pierce'], [70, 30])[0] for p in list(ASKERS) + peers}
    if slow:
        indirect[slow] = 'ignore'            # else the pierced connection is there long before
    if close_asker:
        indirect[close_asker] = 'ignore'     # one connection per reply
    # an application listener that suspends while a peer connection is CLOSING (listeners are public API)
    suspend = rng.choice([None, 0.005, 0.005]) if family == 'asker-closes' else None
    return {'dirs': dirs, 'friends': friends, 'blocked': blocked, 'n_peers': n_peers, 'steps': steps,
            'pool': pool, 'overlap': rng.random() < 0.5, 'family': family, 'vanished_files': gone,
            'aligned': family in ('closing-child', 'asker-closes'), 'suspend_listener': suspend,
            'indirect': indirect, 'connect_mode': rng.choice(['race', 'fallback'])}


_FLAG_BITS = {'PRIVATE_MESSAGES': 1, 'ROOM_MESSAGES': 2, 'SEARCHES': 4, 'SHARES': 8, 'INFO': 16, 'UPLOADS': 32,
              'ALL': 63}          # documented meaning of the blocking flags


def _flag_value(spec: str) -> int:
    v = 0
    for part in spec.split('|'):
        v |= _FLAG_BITS[part]
    return v


def search_blocked(blocked: dict, user: str) -> bool:
    return bool(_flag_value(blocked[user]) & _FLAG_BITS['SEARCHES']) if user in blocked else False


def _fill_queries(rng: random.Random, plan: dict, model) -> None:
    """Queries come from the C07 generator over the words of the reference index."""
    from .props.c07 import QueryGen
    entries = model.entries()
    paths = [it.qpath_owner() for it in entries]
    gen = QueryGen(rng, paths, plan['pool'])
    for st in plan['steps']:
        for req in st.get('burst', []):
            if req.get('query') is None:
                q = gen.query()
                gone_words = plan.get('_gone_words') or []
                if req.get('want_match') and gen.words:
                    q = gen.word()
                elif gone_words and rng.random() < 0.4:
                    q = rng.choice(gone_words)               # matches (at least) a file that vanished from disk
                elif rng.random() < 0.45 and gen.words:        # more requests with matches
                    q = rng.choice([gen.word, gen.word, gen.wild_single, gen.punct])()
                req['query'] = q


def written_replies(w: World, user: str) -> list:
    """PeerSearchReply frames the client wrote on any (clear) connection between it and ``user``."""
    from aioslsk.protocol.messages import PeerMessage, PeerSearchReply
    out = []
    for c in w.net.conns:
        if {c.src, c.dst} != {ME, user}:
            continue
        data = c.stream('a2b' if c.src == ME else 'b2a', delivered=False)
        pos = 0
        while pos + 4 <= len(data):
            n = int.from_bytes(data[pos:pos + 4], 'little')
            frame = data[pos:pos + 4 + n]
            pos += 4 + n
            if len(frame) < 4 + n:
                break
            try:
                m = PeerMessage.deserialize_request(frame)
            except Exception:  # noqa  init frames, other protocols
                continue
            if isinstance(m, PeerSearchReply.Request):
                out.append(m)
    return out


def run_c14_case(res: dict, params: dict):
    global _CURRENT
    from .sharesmodel import RefIndex
    install_hooks()
    rng = random.Random(f"{params.get('seed', 0)}:C14:{params.get('idx', 0)}")
    plan = params['plan'] if 'plan' in params else gen_c14(rng)
    holder: dict = {}
    viol: list = []
    sigs_seen: set = set()
    obs: dict = {}
    judged: list = []
    nontrivial = {'v': False}

    def add(k, n=1):
        obs[k] = obs.get(k, 0) + n

    async def main(w: World):
        global _CURRENT
        from aioslsk.protocol.messages import (
            DistributedSearchRequest, DistributedServerSearchRequest, GetPeerAddress, PeerSearchReply)
        from aioslsk.settings import SharedDirectorySettingEntry, UsersSettings
        from aioslsk.shares.model import DirectoryShareMode
        from aioslsk.user.model import BlockingFlag
        await w.start_server()
        # -- share on disk ------------------------------------------------------------
        entries = []
        model = RefIndex(plan['friends'])
        for d in plan['dirs']:
            root = os.path.join(w.tmp, 'shares', d['name'])
            os.makedirs(root, exist_ok=True)
            for sub, fn in d['files']:
                os.makedirs(os.path.join(root, sub), exist_ok=True)
                with open(os.path.join(root, sub, fn), 'wb') as fh:
                    fh.write(b'x' * (1 + len(fn)))
            entries.append(SharedDirectorySettingEntry(
                path=root, share_mode=DirectoryShareMode(d['mode']), users=list(d['users'])))
            model.add(root, d['mode'], list(d['users']))
        model.scan_all()
        settings = w.make_settings(ME, shared=entries, users=UsersSettings(
            friends=set(plan['friends']),
            blocked={u: BlockingFlag(_flag_value(spec)) for u, spec in plan['blocked'].items()}))
        cfg = {'connect_mode': plan['connect_mode']}
        from aioslsk.network.network import PeerConnectMode
        if plan.get('aligned'):
            w.net.planner = lambda node, host, port, attempt: aligned_plan()     # the server link as well
        h = await w.add_client(ME, settings, scan=True)
        h.client.settings.network.peer.connect_mode = (
            PeerConnectMode.RACE if cfg['connect_mode'] == 'race' else PeerConnectMode.FALLBACK)
        peers = {}
        for name in list(DPEERS[:plan['n_peers']]) + list(ASKERS):
            peers[name] = await w.add_peer(name)
        await settle(SETTLE)
        if plan.get('suspend_listener'):
            from aioslsk.events import ConnectionStateChangedEvent
            from aioslsk.network.connection import ConnectionState, PeerConnection

            async def suspending_listener(ev):
                c = ev.connection
                if isinstance(c, PeerConnection) and c.connection_type == 'P' and ev.state == ConnectionState.CLOSING:
                    await asyncio.sleep(plan['suspend_listener'])
            holder['listener'] = suspending_listener
            h.client.events.register(ConnectionStateChangedEvent, suspending_listener)
        eng = Engine(w, h, peers, random.Random(f'{w.seed}:eng'), overlap=plan['overlap'],
                     indirect=plan['indirect'], judge_c13=False, aligned=bool(plan.get('aligned')))
        runner.add_cover(res, 'families', plan.get('family', 'plain'))
        if plan.get('family') == 'many-proposals':
            add('runs_with_many_proposals')
        holder['eng'] = eng
        _CURRENT = eng
        client = h.client

        # -- the real index, by model key ------------------------------------------------------
        real = {}
        for d in client.shares.shared_directories:
            for item in d.items:
                ap = os.path.normpath(item.get_absolute_path())
                sub = os.path.relpath(os.path.dirname(ap), d.absolute_path)
                real[(d.absolute_path, '' if sub == '.' else sub, os.path.basename(ap))] = item.get_remote_path()
        if set(real) != {it.key for it in model.entries()}:
            raise RuntimeError('harness self-check: scanned index differs from the reference index (C07 judges that)')
        # stale index: files deleted from disk after the scan (the index, and so the reference index, keep them)
        vanished = set()
        gone_words: list = []
        for dname, sub, fn in plan.get('vanished_files') or []:
            root = os.path.join(w.tmp, 'shares', dname)
            os.unlink(os.path.join(root, sub, fn))
            vanished.add((root, sub, fn))
            from .sharesmodel import query_path, split_words
            gone_words += [wd for wd in split_words(query_path(sub, fn)) if wd]
        if vanished:
            add('runs_with_vanished_files')
            if not vanished <= set(real):
                raise RuntimeError('harness: a file to vanish is not in the index')
        plan['_gone_words'] = sorted(set(gone_words))
        _fill_queries(rng, plan, model)
        plan.pop('_gone_words', None)

        def violate(sig, **detail):
            if sig in sigs_seen:
                return
            sigs_seen.add(sig)
            detail.setdefault('events_applied', [dict(e) for e in eng.applied])
            detail.setdefault('shares', [{k: d[k] for k in ('name', 'mode', 'users', 'files')} for d in plan['dirs']])
            detail.setdefault('friends', plan['friends'])
            detail.setdefault('blocked', plan['blocked'])
            detail.setdefault('roles', eng.roles())
            viol.append((sig, detail))

        def carried(m) -> bool:
            return isinstance(m, (DistributedSearchRequest.Request, DistributedServerSearchRequest.Request))

        try:
            for st in plan['steps']:
                if 'burst' not in st:
                    t = eng.apply(st)
                    await t
                    await eng.quiesce()
                    continue
                # ---- a burst of requests while the membership is fixed -----------------------
                await eng.quiesce()
                plink = eng.parent_link()
                # a connection the client itself opened (to a user the server proposed) is a candidate's, never a
                # child's, whatever the client's children list says
                K = [l for l in eng.child_links() if not eng.requested_link(l)]
                counted_as_child = [l.peer.name for l in eng.child_links() if eng.requested_link(l)]
                if counted_as_child:
                    add('candidate_links_in_children_list', len(counted_as_child))
                k_ids = {l.conn.id for l in K}
                # ground truth: a connection that was taken as child and that nobody closed is still a child's
                dropped_ids = set()
                for _user, sc in eng.accepted_open():
                    l = eng.link_by_simconn(sc)
                    if l is not None and sc.id not in k_ids and not eng.requested_link(l):
                        K.append(l)
                        k_ids.add(sc.id)
                        dropped_ids.add(sc.id)
                if dropped_ids:
                    add('open_child_links_missing_from_children_list', len(dropped_ids))
                for l in K:
                    eng.ever_children.add(l.conn.id)
                leaver = st.get('leaver')
                leaver_links = [l for l in K if l.peer.name == leaver] if leaver else []
                leaver_ids = {l.conn.id for l in leaver_links}
                marks = {id(l): len(l.frames) for _n, l in eng.all_links()}
                n_cand = sum(1 for _n, l in eng.all_links() if l.typ == 'D' and eng.link_alive(l)
                             and l is not plink and l.conn.id not in k_ids)
                n_closed = sum(1 for _n, l in eng.all_links() if l.conn.id in eng.ever_children
                               and l.conn.id not in k_ids)
                add('bursts')
                add('bursts_with_candidate_link', 1 if n_cand else 0)
                add('bursts_with_closed_child_link', 1 if n_closed else 0)
                add('bursts_with_parent', 1 if plink is not None else 0)
                reply_mark = len(eng.own_replies)
                srv_mark = len(w.server.frames)
                no_session = bool(st.get('no_session')) and plink is not None
                if no_session:
                    # the server link is lost; the distributed connections stay open and the parent keeps searching
                    await eng.drop_session()
                    add('bursts_without_session')
                ac = st.get('asker_close')
                a_links = []
                if ac:
                    a_links = [l for l in peers[ac['user']].links if l.typ == 'P' and eng.link_alive(l)]
                wire = bool(a_links)

                def close_asker_links():
                    for l in a_links:
                        l.abort() if ac['how'] == 'abort' else l.close()
                if wire:
                    add('bursts_with_asker_closing')
                    if ac['order'] == 'close-first':
                        close_asker_links()
                        if ac['offset']:
                            await asyncio.sleep(ac['offset'])
                reqs = []
                if leaver_links:
                    # one child closes at the very instant the requests are sent (latencies are aligned): its FIN and
                    # the first request reach the client in the same loop iteration
                    add('bursts_with_child_closing')
                    leave = {'e': 'disc', 'peer': leaver, 'how': st.get('leaver_how', 'close')}
                    if st.get('leaver_first', True):
                        eng.apply(leave)
                for req in st['burst']:
                    req = dict(req)
                    if req['carrier'] != 'server' and plink is None:
                        req['carrier'] = 'server'
                    if no_session and req['carrier'] == 'server':
                        req['carrier'] = 'distributed'
                    reqs.append(req)
                    eng.apply(req)
                    if wire and ac['order'] == 'search-first':
                        close_asker_links()
                    if leaver_links or wire:
                        continue
                    if plan['overlap']:
                        await _gap(rng.choice([['y', 0], ['y', 1], ['y', 3], ['t', 0.002], ['t', 0.01]]))
                    else:
                        await eng.drain()
                        await settle(SETTLE)
                if leaver_links and not st.get('leaver_first', True):
                    eng.apply(leave)
                await eng.drain()
                await settle(1.0)
                if no_session:
                    await eng.relogin()
                    await settle(SETTLE)
                k_after = {l.conn.id for l in eng.child_links() if not eng.requested_link(l)}
                k_after |= {sc.id for _u, sc in eng.accepted_open() if sc.id in dropped_ids}
                same_parent = eng.parent_link() is plink
                by_ticket = {r['ticket']: r for r in reqs}
                # frames that arrived on every link of every scripted peer since the burst began
                arrivals = []       # (peer, link, msg)
                for name, l in eng.all_links():
                    for _t, m in l.frames[marks.get(id(l), 0):]:
                        arrivals.append((name, l, m))
                for name, l, m in arrivals:
                    if carried(m) and m.ticket not in by_ticket:
                        violate('forward:altered-field', what='ticket of no request', frame=frame_brief(m), on=name)
                    if isinstance(m, PeerSearchReply.Request) and (m.ticket not in by_ticket or m.username != ME
                                                                   or by_ticket[m.ticket]['user'] != name):
                        violate('reply:wrong-ticket-or-user', frame=frame_brief(m), received_by=name,
                                requests=reqs)
                for req in reqs:
                    add('requests_judged')
                    carrier, user, tk, query = req['carrier'], req['user'], req['ticket'], req['query']
                    own = user == ME
                    unspecified_forward = carrier == 'server' and plink is not None
                    if own:
                        add('own_name_requests')
                    info = dict(request=req, without_session=no_session, children=[l.peer.name for l in K],
                                parent=None if plink is None else plink.peer.name,
                                candidates_in_children_list=counted_as_child,
                                child_closing_at_that_instant=leaver if leaver_links else None)
                    runner.add_cover(res, 'carriers', carrier + ('+own-name' if own else ''))
                    runner.add_cover(res, 'tree_shapes', f"{'P' if plink is not None else '-'}{len(K)}")
                    # ---- forwards --------------------------------------------------------------
                    per_link: dict = {}
                    for name, l, m in arrivals:
                        if carried(m) and m.ticket == tk:
                            per_link.setdefault(id(l), [name, l, []])[2].append(m)
                    for name, l, ms in per_link.values():
                        for m in ms:
                            if m.username != user or m.query != query:
                                violate('forward:altered-field', frame=frame_brief(m), on=name, **info)
                    if own:
                        if per_link:
                            violate(f'own-search:forwarded:{carrier}',
                                    forwarded_to=[[n, eng.role_of_link(l)] for n, l, _ in per_link.values()], **info)
                    else:
                        for l in K:
                            add('forwards_checked')
                            n = len(per_link.get(id(l), [None, None, []])[2])
                            if l.conn.id in leaver_ids:
                                if n > 1:
                                    violate(f'forward:duplicate:{carrier}', child=l.peer.name, copies=n, **info)
                                continue                     # closing at that instant: 0 or 1 copies
                            if n == 0 and l.conn.id in k_after and same_parent and not unspecified_forward:
                                violate('forward:missing:child-dropped-without-closing' if l.conn.id in dropped_ids
                                        else 'forward:missing:while-a-child-closes' if leaver_links
                                        else f'forward:missing:{carrier}:without-session' if no_session
                                        else f'forward:missing:{carrier}', child=l.peer.name, **info)
                            elif n > 1:
                                violate(f'forward:duplicate:{carrier}', child=l.peer.name, copies=n, **info)
                            elif n == 1:
                                m = per_link[id(l)][2][0]
                                if not isinstance(m, DistributedSearchRequest.Request):
                                    violate('forward:altered-field', what='not passed on as a distributed search request',
                                            frame=frame_brief(m), **info)
                        for name, l, ms in per_link.values():
                            if l.conn.id in k_ids or l.conn.id in k_after:
                                continue
                            add('forwards_checked')
                            if l is plink:
                                sig = 'forward:to-parent'
                            elif l.conn.id in eng.ever_children:
                                sig = 'forward:to-closed-child'
                            elif l.typ == 'D':
                                sig = 'forward:to-candidate'
                            else:
                                sig = 'forward:to-other-connection'
                            violate(sig, on=name, role=eng.role_of_link(l), frames=[frame_brief(m) for m in ms], **info)
                        # links outside K were looked at as well (they got nothing)
                        add('forwards_checked', sum(1 for _n, l in eng.all_links()
                                                    if l.typ == 'D' and l.conn.id not in k_ids and id(l) not in per_link))
                    if (K or counted_as_child) and not own:
                        nontrivial['v'] = True
                    # ---- reply -------------------------------------------------------------------
                    if no_session:
                        # without the server the asker cannot be looked up: the reply is not judged
                        add('replies_unjudged_no_session')
                        continue
                    if own:
                        got_own = [m for _t, m in eng.own_replies[reply_mark:] if m.ticket == tk]
                        asked_addr = [m for _t, u, m in w.server.frames[srv_mark:]
                                      if u == ME and isinstance(m, GetPeerAddress.Request) and m.username == ME]
                        add('replies_checked')
                        if got_own:
                            violate(f'own-search:answered:{carrier}', reply=frame_brief(got_own[0]),
                                    asked_server_for_own_address=bool(asked_addr), **info)
                        continue
                    replies = [(l, m) for name, l, m in arrivals
                               if name == user and isinstance(m, PeerSearchReply.Request) and m.ticket == tk]
                    if wire and user == ac['user']:
                        # the asker closed a connection around that moment: a reply counts when the client WROTE it on
                        # a connection to the asker (it may have been written into the connection that was closing)
                        replies = [(None, m) for m in written_replies(w, user) if m.ticket == tk]
                        add('replies_judged_on_the_wire')
                    sel = model.select(query)
                    if sel is None:
                        add('replies_unjudged_no_inclusion_term')
                        continue
                    add('replies_checked')
                    # the reply carries the indexed matches that still exist on disk
                    gone_hit = sorted(real[k] for k in sel.must if k in vanished)
                    vis = sorted(real[k] for k in sel.must if k not in vanished and not model.is_locked(k[0], user))
                    lck = sorted(real[k] for k in sel.must if k not in vanished and model.is_locked(k[0], user))
                    blocked = search_blocked(plan['blocked'], user)
                    rinfo = dict(expected_visible=vis, expected_locked=lck, matching_files_vanished_from_disk=gone_hit,
                                 replies=[frame_brief(m) for _l, m in replies], **info)
                    if blocked:
                        add('blocked_user_requests')
                        if replies:
                            violate('reply:to-blocked-user', **rinfo)
                        continue
                    if not vis and not lck and gone_hit:
                        # every indexed match vanished from disk: whether an (empty) reply is sent is left open (the
                        # library sends one); if one is sent it must not name the vanished files
                        add('replies_all_matches_vanished')
                        if len(replies) > 1:
                            violate('reply:duplicate', **rinfo)
                        for _l, m in replies:
                            if m.results or m.locked_results:
                                violate('reply:files-differ:vanished-file-offered', **rinfo)
                        continue
                    if not vis and not lck:
                        add('replies_expected_none')
                        if replies:
                            violate('reply:unexpected', **rinfo)
                        continue
                    nontrivial['v'] = True
                    add('replies_expected')
                    if gone_hit:
                        add('replies_expected_with_vanished_match')
                        if any(model.is_locked(k[0], user) for k in sel.must if k in vanished):
                            add('replies_expected_with_vanished_locked_match')
                    if lck:
                        add('replies_with_locked_expected')
                    if not replies:
                        if wire and user == ac['user']:
                            violate('reply:missing:asker-closed-the-previous-connection', asker_close=ac,
                                    suspending_listener=plan.get('suspend_listener'), **rinfo)
                        elif gone_hit:
                            violate('reply:missing:a-matching-file-vanished-from-disk', **rinfo)
                        else:
                            violate('reply:missing', **rinfo)
                        continue
                    if len(replies) > 1:
                        violate('reply:duplicate', **rinfo)
                    m = replies[0][1]
                    if m.username != ME or m.ticket != tk:
                        violate('reply:wrong-ticket-or-user', **rinfo)
                    got_vis = sorted(f.filename for f in m.results)
                    got_lck = sorted(f.filename for f in (m.locked_results or []))
                    if got_vis != vis:
                        violate('reply:files-differ:visible', got_visible=got_vis, got_locked=got_lck, **rinfo)
                    if got_lck != lck:
                        violate('reply:files-differ:locked', got_visible=got_vis, got_locked=got_lck, **rinfo)
                judged.append({'children': len(K), 'parent': plink is not None,
                               'requests': [[r['carrier'], r['user'] == ME] for r in reqs]})
            dead = h.dead_background_tasks()
            await w.stop_clients()
            return {'dead_tasks': dead}
        finally:
            _CURRENT = None

    out = run_world(f"C14:{params.get('seed', 0)}:{params.get('idx', 0)}", main, wall_timeout=90)
    _CURRENT = None
    if out.inconclusive:
        res['inconclusive'] = out.inconclusive
        return
    eng: Engine = holder['eng']
    for sig, detail in viol:
        runner.violation(res, sig, **detail)
    for sig, detail in safety_net_violations(out):
        runner.violation(res, safety_sig(sig, detail), detail=detail, events_applied=eng.applied)
    for d in (out.result or {}).get('dead_tasks', []):
        if not d['cancelled']:
            runner.violation(res, f"safety:background-task-died:{d['task']}", detail=d, events_applied=eng.applied)
    for k, v in obs.items():
        runner.add_obs(res, k, v)
    runner.add_obs(res, 'events_applied', eng.obs.get('events_applied', 0))
    runner.add_obs(res, 'runs')
    if nontrivial['v']:
        res['csigs'].append(('O|' if plan['overlap'] else 'S|') + '>'.join(eng.abstract) + '|' + repr(judged))
    res['sample'] = {'params': {k: v for k, v in params.items() if k != 'plan'},
                     'shares': plan['dirs'], 'friends': plan['friends'], 'blocked': plan['blocked'],
                     'mode': 'overlap' if plan['overlap'] else 'settle', 'connect_mode': plan['connect_mode'],
                     'events_applied': eng.applied[:30], 'judged': judged}
