"""Passive monitors attached from the harness (DESIGN §2.4).

* TransferMonitor  — M1 (state listener on every Transfer) and M2 (the module
  function ``aioslsk.transfer.state._with_state_lock`` replaced by a version
  that snapshots inside the transfer's own lock).  Used by C03 and passively by
  every run that has transfers.
* ConnMonitor      — per-connection automaton over ConnectionStateChangedEvent /
  MessageReceivedEvent (C10), passive in every simulated run.
"""
from __future__ import annotations

import asyncio
import json
import os
from typing import Any, Optional

_GRAPH = None


def graph() -> dict:
    global _GRAPH
    if _GRAPH is None:
        here = os.path.dirname(os.path.dirname(os.path.abspath(__file__)))
        with open(os.path.join(here, 'pinned', 'transfer_graph.json')) as fh:
            _GRAPH = json.load(fh)
    return _GRAPH


def edge_ok(old: str, new: str, direction: str) -> bool:
    g = graph()
    if new not in g['edges'].get(old, []):
        return False
    if direction == 'UPLOAD' and (new in g['download_only'] or old in g['download_only']):
        return False
    if direction == 'DOWNLOAD' and (new in g['upload_only'] or old in g['upload_only']):
        return False
    return True


def op_allowed(state: str, op: str, direction: str) -> bool:
    """Is ``op`` allowed in ``state`` according to the pinned graph?"""
    g = graph()
    target = g['op_target'].get(op)
    if target is None:
        return False
    if target == 'TRANSFERRING':
        target = 'UPLOADING' if direction == 'UPLOAD' else 'DOWNLOADING'
    return edge_ok(state, target, direction)


# ---------------------------------------------------------------------------

_CURRENT_TM: Optional['TransferMonitor'] = None
_tm_installed = False


def _snapshot(transfer) -> dict:
    lp = transfer.local_path
    exists = None
    if transfer.is_download() and lp:
        exists = os.path.exists(lp)

    def tstate(task):
        if task is None:
            return None
        if task.done():
            return 'done'
        try:
            return 'cancelling' if task.cancelling() else 'live'
        except AttributeError:  # pragma: no cover
            return 'live'
    return {
        'local_path': lp, 'file_exists': exists, 'abort_reason': transfer.abort_reason,
        'fail_reason': transfer.fail_reason, 'start_time': transfer.start_time,
        'complete_time': transfer.complete_time, 'remotely_queued': transfer.remotely_queued,
        'bytes': transfer.bytes_transfered, 'filesize': transfer.filesize,
        'transfer_task': tstate(transfer._transfer_task), 'queue_task': tstate(transfer._remotely_queue_task),
    }


class ObservedLock(asyncio.Lock):
    """The transfer's own ``_state_lock`` with observation points right after
    acquisition and right before release (i.e. *inside* the lock), whatever the
    library's lock wrapper does internally."""

    def __init__(self, transfer):
        super().__init__()
        self._vf_transfer = transfer
        self._vf_recs: dict = {}

    async def acquire(self):
        r = await super().acquire()
        mon = _CURRENT_TM
        if mon is not None:
            rec = self._vf_recs.get(asyncio.current_task())
            if rec is not None and 't_lock' not in rec:
                mon.op_locked(rec, self._vf_transfer)
        return r

    def release(self):
        mon = _CURRENT_TM
        if mon is not None:
            rec = self._vf_recs.get(asyncio.current_task())
            if rec is not None and 't_lock' in rec and 'after' not in rec:
                mon.op_releasing(rec, self._vf_transfer)
        super().release()


def install_transfer_hooks():
    """Idempotent; must run before any Transfer object is created.  The
    library's own ``_with_state_lock`` is kept and called: the hook only adds a
    record per call and observes through the transfer's lock."""
    global _tm_installed
    if _tm_installed:
        return
    import aioslsk.transfer.state as st
    import aioslsk.transfer.model as model

    lib_with_state_lock = st._with_state_lock

    def _with_state_lock(func):
        name = getattr(func, '__name__', '?')
        lib_wrapper = lib_with_state_lock(func)

        async def wrapper(obj, *args, **kwargs):
            mon = _CURRENT_TM
            transfer = obj.transfer
            lock = transfer._state_lock
            if mon is None or not isinstance(lock, ObservedLock):
                return await lib_wrapper(obj, *args, **kwargs)
            task = asyncio.current_task()
            rec = mon.op_called(transfer, name, obj.VALUE.name, args, kwargs)
            outer = lock._vf_recs.get(task)
            lock._vf_recs[task] = rec
            try:
                result = await lib_wrapper(obj, *args, **kwargs)
            except BaseException as exc:  # noqa
                mon.op_done(rec, transfer, None, exc)
                raise
            finally:
                if outer is None:
                    lock._vf_recs.pop(task, None)
                else:
                    lock._vf_recs[task] = outer
            mon.op_done(rec, transfer, result, None)
            return result

        return wrapper

    st._with_state_lock = _with_state_lock

    orig_init = model.Transfer.__init__
    orig_setstate = model.Transfer.__setstate__

    def __init__(self, *a, **kw):
        orig_init(self, *a, **kw)
        mon = _CURRENT_TM
        if mon is not None:
            self._state_lock = ObservedLock(self)
            mon.register(self, loaded=False)

    def __setstate__(self, state):
        orig_setstate(self, state)
        mon = _CURRENT_TM
        if mon is not None:
            self._state_lock = ObservedLock(self)
            mon.register(self, loaded=True)

    model.Transfer.__init__ = __init__
    model.Transfer.__setstate__ = __setstate__
    _tm_installed = True


class _M1Listener:
    def __init__(self, mon: 'TransferMonitor'):
        self.mon = mon

    async def on_transfer_state_changed(self, transfer, old, new):
        self.mon.notified(transfer, old.name, new.name)


class TransferMonitor:
    """Collects M1/M2 observations; ``violations`` holds (sig, detail) pairs."""

    def __init__(self, world=None):
        self.world = world
        self.violations: list[tuple[str, dict]] = []
        self.edges: list[tuple[float, str, str, str, str]] = []     # (t, key, direction, old, new)
        self.ops: list[dict] = []
        self.last: dict[int, str] = {}
        self.loaded: set[int] = set()
        self.transfers: dict[int, Any] = {}
        self.listener = _M1Listener(self)
        self.counters = {'m1_edges': 0, 'm2_ops': 0, 'm2_refused': 0, 'm2_stale_dispatch': 0, 'm2_lock_waits': 0,
                         'm2_refused_followups': 0}
        self._refused_watch: dict[int, tuple] = {}
        self.complete_hooks: list = []     # fn(transfer) called at every COMPLETE notification
        self.edge_hooks: list = []         # fn(transfer, old, new)

    # -- lifecycle -----------------------------------------------------------
    def attach_world(self, world):
        self.world = world
        self.activate()

    def attach_client(self, handle):
        pass

    def activate(self):
        global _CURRENT_TM
        install_transfer_hooks()
        _CURRENT_TM = self

    def deactivate(self):
        global _CURRENT_TM
        if _CURRENT_TM is self:
            _CURRENT_TM = None

    @property
    def now(self) -> float:
        if self.world is not None:
            return round(self.world.now, 6)
        loop = asyncio._get_running_loop()
        return round(loop.time() - 1000.0, 6) if loop else 0.0

    def key(self, transfer) -> str:
        return f"{transfer.direction.name}:{transfer.username}:{transfer.remote_path}"

    # -- M1 -------------------------------------------------------------------
    def register(self, transfer, loaded: bool):
        tid = id(transfer)
        self.transfers[tid] = transfer
        transfer.state_listeners.insert(0, self.listener)
        self.last[tid] = transfer.state.VALUE.name
        if loaded:
            self.loaded.add(tid)

    def notified(self, transfer, old: str, new: str):
        tid = id(transfer)
        direction = transfer.direction.name
        self.counters['m1_edges'] += 1
        self.edges.append((self.now, self.key(transfer), direction, old, new))
        prev = self.last.get(tid)
        if prev is not None and prev != old:
            if tid in self.loaded:
                # read_cache() repairs the state by direct assignment before the
                # first notification of a loaded transfer
                self.loaded.discard(tid)
            else:
                self.violations.append((
                    f'm1-discontinuity:{direction.lower()}',
                    {'t': self.now, 'transfer': self.key(transfer), 'previous_new': prev, 'old': old, 'new': new}))
        self.loaded.discard(tid)
        self.last[tid] = new
        if not edge_ok(old, new, direction):
            key = self.key(transfer)
            running = [o for o in self.ops if o['transfer'] == key and 't_lock' in o and 't_done' not in o]
            stale = any(o['dispatched'] != o['actual'] for o in running)
            sig = 'illegal-edge:via-stale-dispatch' if stale else f'illegal-edge:{old}->{new}:{direction.lower()}'
            self.violations.append((
                sig, {'t': self.now, 'transfer': key, 'edge': f'{old}->{new}', 'direction': direction.lower(),
                      'recent_ops': self._recent_ops(transfer)}))
        for hook in self.edge_hooks:
            hook(transfer, old, new)
        if new == 'COMPLETE':
            for hook in self.complete_hooks:
                hook(transfer)

    def _recent_ops(self, transfer, n: int = 6) -> list:
        key = self.key(transfer)
        return [
            {k: o[k] for k in ('t_call', 't_lock', 'op', 'dispatched', 'actual', 'result') if k in o}
            for o in self.ops if o['transfer'] == key][-n:]

    # -- M2 -------------------------------------------------------------------
    def op_called(self, transfer, op: str, dispatched: str, args, kwargs) -> dict:
        rec = {'t_call': self.now, 'transfer': self.key(transfer), 'direction': transfer.direction.name,
               'op': op, 'dispatched': dispatched, 'locked_at_call': transfer._state_lock.locked(),
               'task': id(asyncio.current_task())}
        if rec['locked_at_call']:
            self.counters['m2_lock_waits'] += 1
        self.ops.append(rec)
        return rec

    def op_locked(self, rec: dict, transfer):
        rec['t_lock'] = self.now
        rec['actual'] = transfer.state.VALUE.name
        rec['before'] = _snapshot(transfer)
        self._check_refused_watch(transfer, rec['before'])

    # what a refused request left alone stays alone until a request is accepted: the time stamps and the fail reason
    # are only written inside state operations, so between the release of the lock by a refused operation and the
    # next acquisition nothing may have touched them
    _WATCHED = ('start_time', 'complete_time', 'fail_reason')

    def _check_refused_watch(self, transfer, snap: dict):
        watch = self._refused_watch.pop(id(transfer), None)
        if watch is None:
            return
        self.counters['m2_refused_followups'] += 1
        rec, then = watch
        diff = {k: (then[k], snap[k]) for k in self._WATCHED if then[k] != snap[k]}
        if diff:
            self.violations.append((
                f"refused-op-side-effect-after-return:{rec['op']}:in-{rec['actual']}:{rec['direction'].lower()}:"
                + '+'.join(sorted(diff)),
                {'t': self.now, 'transfer': rec['transfer'], 'refused_at': rec['t_done'], 'diff': diff}))

    def final_check(self):
        for tid in list(self._refused_watch):
            transfer = self.transfers.get(tid)
            if transfer is not None:
                self._check_refused_watch(transfer, _snapshot(transfer))

    def op_releasing(self, rec: dict, transfer):
        rec['after'] = _snapshot(transfer)
        rec['after_state'] = transfer.state.VALUE.name

    def op_done(self, rec: dict, transfer, result, exc):
        self.counters['m2_ops'] += 1
        rec['t_done'] = self.now
        rec['result'] = result if exc is None else f'raised {type(exc).__name__}'
        if 't_lock' not in rec or 'after' not in rec:
            # cancelled while waiting for the lock, or the lock was never taken
            rec.pop('before', None)
            return
        after = rec.pop('after')
        before = rec.pop('before')
        direction = rec['direction']
        op, dispatched, actual = rec['op'], rec['dispatched'], rec['actual']
        stale = dispatched != actual
        if stale:
            self.counters['m2_stale_dispatch'] += 1
        if exc is not None:
            return
        allowed = op_allowed(actual, op, direction)
        if result:
            if not allowed:
                self.violations.append((
                    'stale-dispatch:op-took-effect-in-a-state-entered-while-waiting-for-the-lock' if stale
                    else f"disallowed-op-took-effect:{op}:in-{actual}:{direction.lower()}",
                    {'t': rec['t_done'], 'op': op, 'direction': direction.lower(), 'transfer': rec['transfer'], 'dispatched_on': dispatched, 'actual_state': actual,
                     'after_state': rec['after_state'], 'waited_for_lock': rec['locked_at_call'],
                     'before': before, 'after': after}))
        else:
            self.counters['m2_refused'] += 1
            diff = {k: (before[k], after[k]) for k in after if before[k] != after[k]}
            if rec['after_state'] != actual:
                diff['state'] = (actual, rec['after_state'])
            if diff:
                self.violations.append((
                    f"refused-op-side-effect:{op}:in-{actual}:{direction.lower()}:" + '+'.join(sorted(diff)),
                    {'t': rec['t_done'], 'transfer': rec['transfer'], 'dispatched_on': dispatched, 'diff': diff}))
            else:
                self._refused_watch[id(transfer)] = (rec, {k: after[k] for k in self._WATCHED})

    # -- reporting ---------------------------------------------------------------
    def report(self, res: dict, prop_filter=None):
        from . import runner
        self.final_check()
        for sig, detail in self.violations:
            runner.violation(res, sig, **detail)
        for k, v in self.counters.items():
            runner.add_obs(res, k, v)


# ---------------------------------------------------------------------------

RANK = {'UNINITIALIZED': 0, 'CONNECTING': 1, 'CONNECTED': 2, 'CLOSING': 3, 'CLOSED': 4}


class ConnMonitor:
    """Per-connection automaton fed by the client's event bus (C10)."""

    def __init__(self, world=None):
        self.world = world
        self.violations: list[tuple[str, dict]] = []
        self.streams: dict[int, list] = {}
        self.conns: dict[int, Any] = {}
        self.closed: set[int] = set()
        self.counters = {'conn_events': 0, 'conns_seen': 0, 'conns_closed': 0, 'msgs_seen': 0}
        self._handlers: list = []

    def attach_world(self, world):
        self.world = world

    def attach_client(self, handle):
        from aioslsk.events import ConnectionStateChangedEvent, MessageReceivedEvent
        handle.listen(ConnectionStateChangedEvent, lambda ev, h=handle: self.on_state(h, ev))
        handle.listen(MessageReceivedEvent, lambda ev, h=handle: self.on_message(h, ev))

    def attach_bus(self, bus, name='net'):
        from aioslsk.events import ConnectionStateChangedEvent, MessageReceivedEvent

        class H:
            pass
        h = H()
        h.name = name
        f1 = lambda ev: self.on_state(h, ev)     # noqa
        f2 = lambda ev: self.on_message(h, ev)   # noqa
        self._handlers += [f1, f2]
        bus.register(ConnectionStateChangedEvent, f1, priority=0)
        bus.register(MessageReceivedEvent, f2, priority=0)

    def kind(self, conn) -> str:
        from aioslsk.network.connection import ListeningConnection, PeerConnection, ServerConnection
        if isinstance(conn, ServerConnection):
            return 'server'
        if isinstance(conn, ListeningConnection):
            return 'listening'
        if isinstance(conn, PeerConnection):
            return 'peer-in' if conn.incoming else 'peer-out'
        return type(conn).__name__

    def on_state(self, handle, ev):
        conn = ev.connection
        cid = id(conn)
        kind = self.kind(conn)
        new = ev.state.name
        self.counters['conn_events'] += 1
        stream = self.streams.get(cid)
        if stream is None:
            stream = self.streams[cid] = []
            self.conns[cid] = conn     # strong ref keeps id() unique for the run
            self.counters['conns_seen'] += 1
        t = round(self.world.now, 6) if self.world else 0.0
        reason = ev.close_reason.name if ev.close_reason is not None else None
        prev = stream[-1][1] if stream else None
        stream.append((t, new, reason))
        if kind == 'listening':
            return
        if prev is not None:
            if prev == 'CLOSED':
                if kind == 'server' and new == 'CONNECTING':
                    self.closed.discard(cid)
                else:
                    self.violations.append((
                        f'event-after-closed:{kind}:{new}',
                        {'node': handle.name, 'stream': [s[1] for s in stream], 'reasons': [s[2] for s in stream]}))
            elif RANK[new] < RANK[prev]:
                self.violations.append((
                    f'backward:{kind}:{prev}->{new}',
                    {'node': handle.name, 'stream': [s[1] for s in stream], 'reasons': [s[2] for s in stream]}))
            elif new == prev and new == 'CLOSED':
                self.violations.append((f'closed-twice:{kind}', {'node': handle.name, 'stream': [s[1] for s in stream]}))
        if new == 'CLOSED':
            if cid in self.closed:
                self.violations.append((f'closed-twice:{kind}', {'node': handle.name, 'stream': [s[1] for s in stream]}))
            self.closed.add(cid)
            self.counters['conns_closed'] += 1

    def on_message(self, handle, ev):
        self.counters['msgs_seen'] += 1
        cid = id(ev.connection)
        if cid in self.closed:
            self.violations.append((
                f'message-after-closed:{self.kind(ev.connection)}',
                {'node': handle.name, 'message': type(ev.message).__qualname__,
                 'stream': [s[1] for s in self.streams.get(cid, [])]}))

    def final_check(self, all_closed: bool = False):
        """After the run has settled (and, with ``all_closed``, after the client
        was stopped): every connection that ever reported a state has reported
        CLOSED (exactly once is enforced online)."""
        for cid, stream in self.streams.items():
            conn = self.conns[cid]
            kind = self.kind(conn)
            if kind == 'listening':
                continue
            states = [s[1] for s in stream]
            if not states or states[-1] == 'CLOSED':
                continue
            wr = getattr(conn, '_writer', None)
            really_open = wr is not None and not wr.transport._lost
            if all_closed or not really_open:
                self.violations.append((
                    f'closed-never-reported:{kind}:last-{states[-1]}',
                    {'stream': states, 'socket_open': really_open}))

    def report(self, res: dict):
        from . import runner
        for sig, detail in self.violations:
            runner.violation(res, sig, **detail)
        for k, v in self.counters.items():
            runner.add_obs(res, k, v)


def safety_net_violations(out, allow_msgs=()) -> list[tuple[str, dict]]:
    """Global safety nets: loop exception handler entries and ERROR log records
    carrying an exception from aioslsk loggers."""
    v = []
    for e in out.loop_exceptions:
        if _fire_and_forget_write_error(e.get('exc_type'), str(e.get('task') or '') + ' ' + str(e.get('message') or '')):
            continue
        v.append((f"loop-exception:{e.get('exc_type') or 'none'}:{_site(e.get('message') or '')}", e))
    for r in out.log_records:
        if r['level'] == 'ERROR' and r['exc_type']:
            if any(a in r['msg'] for a in allow_msgs):
                continue
            if _fire_and_forget_write_error(r['exc_type'], r['msg']):
                continue
            v.append((f"error-log:{r['exc_type']}:{_site(r['msg'])}", {k: r[k] for k in ('t', 'logger', 'msg', 'exc', 'tb')}))
    return v


def _fire_and_forget_write_error(exc_type, text: str) -> bool:
    """queue_message() is the library's fire-and-forget send: it returns a task nobody has to await.  When the
    connection breaks while such a write is pending, the task ends with ConnectionWriteError and asyncio reports
    'Task exception was never retrieved' at collection time.  The broken connection itself is handled (and judged)
    through the connection's state changes; the unretrieved exception of the forgotten task is noise, not a
    violation of any property (seen once in 400 000 C13 histories: server reset while its writes were suspended)."""
    if exc_type != 'ConnectionWriteError':
        return False
    if 'queue-message-task' in text and 'never retrieved' in text:
        return True
    # a message handler that was sending when the (fault-injected) connection broke ends with the write error; the
    # event bus logs it ("exception notifying listener") and goes on - an expected consequence of the fault, the
    # loss itself is judged through the connection and session rules of the properties
    return 'exception notifying listener' in text


def _site(msg: str) -> str:
    msg = msg.split(' : ')[0].split(':')[0]
    return '-'.join(msg.strip().split()[:5])[:60]
