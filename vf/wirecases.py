"""C01 on the wire: concurrent sends on ONE real connection under back-pressure.

The scripted peer stops reading, the real client is asked to send several
messages at once on the same peer connection (send_message from separate tasks
and queue_message), some of them larger than the transport's buffer, then the
peer reads everything and parses the byte stream with the reference framing
(4-byte length, de-obfuscated).  Every frame must be exactly one of the
messages that were sent, each exactly once: the length prefix of a frame equals
the number of bytes that follow it ON THE WIRE too, whatever the interleaving of
the sending tasks.
"""
from __future__ import annotations

import asyncio
import random
from collections import Counter

from . import runner
from .monitors import safety_net_violations
from .parties import Undecodable
from .simloop import settle
from .simnet import ConnPlan
from .world import World, run_world


def run_wire_case(res: dict, params: dict):
    rng = random.Random(f"{params['seed']}:C01:wire:{params['i']}")
    obf = rng.random() < 0.4
    n_msgs = rng.randint(2, 6)
    stop_reading = rng.random() < 0.8
    sizes = [rng.choice([0, 10, 1000, 65530, 65536, 70000, 150000, 400000]) for _ in range(n_msgs)]
    if max(sizes) < 65536:
        sizes[rng.randrange(n_msgs)] = rng.choice([70000, 150000, 400000])
    how = [rng.choice(['send', 'send', 'queue']) for _ in range(n_msgs)]
    gaps = [rng.choice([0, 0, 1, 2, 5]) for _ in range(n_msgs)]
    # the other direction: the scripted peer writes the frames back-to-back (one write), the client has to deliver
    # every message, in order - a frame is exactly its length prefix long when READ from the wire, too
    inbound = random.Random(f"{params['seed']}:C01:wire:dir:{params['i']}").random() < 0.35
    viol: list = []
    obs = {'wire_runs': 0, 'wire_frames_parsed': 0, 'wire_big_messages': 0, 'wire_sends_suspended': 0}

    async def main(w: World):
        from aioslsk.protocol.messages import PeerPlaceInQueueReply, PeerUserInfoReply
        await w.start_server()
        me = await w.add_client('me')
        me.client.settings.network.peer.obfuscate = obf
        bob = await w.add_peer('bob', clear=not obf, obf=obf)
        await settle(0.3)
        w.net.planner = lambda node, host, port, attempt: ConnPlan(latency=rng.uniform(0.001, 0.01), seg='random')
        conn = await me.call(me.client.network.create_peer_connection('bob', 'P'))
        tr = conn._writer.transport
        link = None
        for _ in range(200):
            link = next((l for l in bob.links if l.conn is tr.conn), None)
            if link is not None and link.init is not None:
                break
            await asyncio.sleep(0.005)
        if link is None:
            return {'skipped': 'no link'}
        if stop_reading:
            link.stop_reading()
        msgs = []
        for k, size in enumerate(sizes):
            if size >= 1000:
                m = PeerUserInfoReply.Request(f'user {k}', True, rng.randbytes(size), k, 10 + k, True)
                if size > 65536:
                    obs['wire_big_messages'] += 1
            else:
                m = PeerPlaceInQueueReply.Request('x' * size + f'\\file{k}.mp3', 1000 + k)
            msgs.append(m)
        if inbound:
            from aioslsk.events import MessageReceivedEvent
            received = []
            me.listen(MessageReceivedEvent, lambda ev: received.append(ev.message) if ev.connection is conn else None)
            link.send(*msgs)
            await settle(5.0)
            obs['wire_runs'] += 1
            obs['wire_inbound_runs'] = obs.get('wire_inbound_runs', 0) + 1
            obs['wire_frames_parsed'] += len(received)
            detail = {'sizes': sizes, 'obfuscated': obf, 'direction': 'peer->client', 'delivered': len(received)}
            if [repr(m) for m in received] != [repr(m) for m in msgs]:
                viol.append(('wire:inbound-messages-differ-from-the-frames-written',
                             dict(detail, connection_state=conn.state.name,
                                  first_difference=next((k for k, (a, b) in enumerate(zip(received, msgs)) if repr(a) != repr(b)),
                                                        min(len(received), len(msgs))))))
            await w.stop_clients()
            return detail
        tasks = []
        iters0 = w.loop.iterations

        async def send(m):
            it0 = w.loop.iterations
            await conn.send_message(m)
            if w.loop.iterations != it0:
                obs['wire_sends_suspended'] += 1
        for k, m in enumerate(msgs):
            for _ in range(gaps[k]):
                await asyncio.sleep(0)
            if how[k] == 'queue':
                tasks.append(conn.queue_message(m))
            else:
                tasks.append(w.spawn('me', send(m), name=f'vf-wire-send-{k}'))
        await asyncio.sleep(rng.choice([0.0, 0.05, 0.5, 2.0]))
        if stop_reading:
            link.writer.transport.resume_reading()
        done = await asyncio.gather(*tasks, return_exceptions=True)
        await settle(3.0)
        errors = [repr(d) for d in done if isinstance(d, BaseException)]
        parsed = [m for _, m in link.frames]
        obs['wire_runs'] += 1
        obs['wire_frames_parsed'] += len(parsed)
        bad = [m for m in parsed if isinstance(m, Undecodable)]
        detail = {'sizes': sizes, 'how': how, 'gaps': gaps, 'obfuscated': obf, 'peer_stopped_reading': stop_reading,
                  'send_errors': errors[:3], 'frames_parsed': len(parsed)}
        if errors:
            # a send that fails is outside this rule (nothing is demanded of the stream then)
            return {'skipped': 'send failed', **detail}
        if bad or link.close_exc is not None:
            viol.append(('wire:stream-does-not-parse-into-frames', dict(detail, undecodable=len(bad),
                                                                        first=repr(bad[0])[:200] if bad else None)))
        else:
            want = Counter(repr(m) for m in msgs)
            got = Counter(repr(m) for m in parsed)
            if want != got:
                viol.append(('wire:frames-differ-from-the-messages-sent',
                             dict(detail, missing=sum((want - got).values()), extra=sum((got - want).values()))))
        await w.stop_clients()
        return detail

    out = run_world(f"{params['seed']}:C01:wire:{params['i']}", main, wall_timeout=120)
    if out.inconclusive:
        res['inconclusive'] = out.inconclusive
        return
    for sig, detail in viol:
        runner.violation(res, sig, **detail)
    for sig, detail in safety_net_violations(out):
        runner.violation(res, 'wire:safety:' + sig, **detail)
    for k, v in obs.items():
        runner.add_obs(res, k, v)
    if obs['wire_frames_parsed']:
        res['csigs'].append(f"wire|{obf}|{sorted(sizes)}|{how}|{stop_reading}")
    res['sample'] = {'kind': 'wire', 'result': out.result}
