"""C01 on the wire: concurrent sends on ONE real connection under back-pressure.

The scripted peer stops reading, the real client is asked to send several
messages at once on the same peer connection (send_message from separate tasks
and queue_message), some of them larger than the transport's buffer, then the
peer reads everything and parses the byte stream with the reference framing
(4-byte length, de-obfuscated).  Every frame must be exactly one of the
messages that were sent, each exactly once: the length prefix of a frame equals
the number of bytes that follow it ON THE WIRE too, whatever the interleaving of
the sending tasks.
"""
from __future__ import annotations

import asyncio
import random
from collections import Counter

from . import runner
from .monitors import safety_net_violations
from .parties import Undecodable
from .simloop import settle
from .simnet import ConnPlan
from .world import World, run_world


def run_wire_case(res: dict, params: dict):
    rng = random.Random(f"{params['seed']}:C01:wire:{params['i']}")
    obf = rng.random() < 0.4
    n_msgs = rng.randint(2, 6)
    stop_reading = rng.random() < 0.8
    sizes = [rng.choice([0, 10, 1000, 65530, 65536, 70000, 150000, 400000]) for _ in range(n_msgs)]
    if max(sizes) < 65536:
        sizes[rng.randrange(n_msgs)] = rng.choice([70000, 150000, 400000])
    how = [rng.choice(['send', 'send', 'queue']) for _ in range(n_msgs)]
    gaps = [rng.choice([0, 0, 1, 2, 5]) for _ in range(n_msgs)]
    # the other direction: the scripted peer writes the frames back-to-back (one write), the client has to deliver
    # every message, in order - a frame is exactly its length prefix long when READ from the wire, too
    inbound = random.Random(f"{params['seed']}:C01:wire:dir:{params['i']}").random() < 0.35
    viol: list = []
    obs = {'wire_runs': 0, 'wire_frames_parsed': 0, 'wire_big_messages': 0, 'wire_sends_suspended': 0}

    async def main(w: World):
        from aioslsk.protocol.messages import PeerPlaceInQueueReply, PeerUserInfoReply
        await w.start_server()
        me = await w.add_client('me')
        me.client.settings.network.peer.obfuscate = obf
        bob = await w.add_peer('bob', clear=not obf, obf=obf)
        await settle(0.3)
        w.net.planner = lambda node, host, port, attempt: ConnPlan(latency=rng.uniform(0.001, 0.01), seg='random')
        conn = await me.call(me.client.network.create_peer_connection('bob', 'P'))
        tr = conn._writer.transport
        link = None
        for _ in range(200):
            link = next((l for l in bob.links if l.conn is tr.conn), None)
            if link is not None and link.init is not None:
                break
            await asyncio.sleep(0.005)
        if link is None:
            return {'skipped': 'no link'}
        if stop_reading:
            link.stop_reading()
        msgs = []
        for k, size in enumerate(sizes):
            if size >= 1000:
                m = PeerUserInfoReply.Request(f'user {k}', True, rng.randbytes(size), k, 10 + k, True)
                if size > 65536:
                    obs['wire_big_messages'] += 1
            else:
                m = PeerPlaceInQueueReply.Request('x' * size + f'\\file{k}.mp3', 1000 + k)
            msgs.append(m)
        if inbound:
            from aioslsk.events import MessageReceivedEvent
            received = []
            me.listen(MessageReceivedEvent, lambda ev: received.append(ev.message) if ev.connection is conn else None)
            link.send(*msgs)
            await settle(5.0)
            obs['wire_runs'] += 1
            obs['wire_inbound_runs'] = obs.get('wire_inbound_runs', 0) + 1
            obs['wire_frames_parsed'] += len(received)
            detail = {'sizes': sizes, 'obfuscated': obf, 'direction': 'peer->client', 'delivered': len(received)}
            if [repr(m) for m in received] != [repr(m) for m in msgs]:
                viol.append(('wire:inbound-messages-differ-from-the-frames-written',
                             dict(detail, connection_state=conn.state.name,
                                  first_difference=next((k for k, (a, b) in enumerate(zip(received, msgs)) if repr(a) != repr(b)),
                                                        min(len(received), len(msgs))))))
            await w.stop_clients()
            return detail
        tasks = []
        iters0 = w.loop.iterations

        async def send(m):
            it0 = w.loop.iterations
            await conn.send_message(m)
            if w.loop.iterations != it0:
                obs['wire_sends_suspended'] += 1
        for k, m in enumerate(msgs):
            for _ in range(gaps[k]):
                await asyncio.sleep(0)
            if how[k] == 'queue':
                tasks.append(conn.queue_message(m))
            else:
                tasks.append(w.spawn('me', send(m), name=f'vf-wire-send-{k}'))
        await asyncio.sleep(rng.choice([0.0, 0.05, 0.5, 2.0]))
        if stop_reading:
            link.writer.transport.resume_reading()
        done = await asyncio.gather(*tasks, return_exceptions=True)
        await settle(3.0)
        errors = [repr(d) for d in done if isinstance(d, BaseException)]
        parsed = [m for _, m in link.frames]
        obs['wire_runs'] += 1
        obs['wire_frames_parsed'] += len(parsed)
        bad = [m for m in parsed if isinstance(m, Undecodable)]
        detail = {'sizes': sizes, 'how': how, 'gaps': gaps, 'obfuscated': obf, 'peer_stopped_reading': stop_reading,
                  'send_errors': errors[:3], 'frames_parsed': len(parsed)}
        if errors:
            # a send that fails is outside this rule (nothing is demanded of the stream then)
            return {'skipped': 'send failed', **detail}
        if bad or link.close_exc is not None:
            viol.append(('wire:stream-does-not-parse-into-frames', dict(detail, undecodable=len(bad),
                                                                        first=repr(bad[0])[:200] if bad else None)))
        else:
            want = Counter(repr(m) for m in msgs)
            got = Counter(repr(m) for m in parsed)
            if want != got:
                viol.append(('wire:frames-differ-from-the-messages-sent',
                             dict(detail, missing=sum((want - got).values()), extra=sum((got - want).values()))))
        await w.stop_clients()
        return detail

    out = run_world(f"{params['seed']}:C01:wire:{params['i']}", main, wall_timeout=120)
    if out.inconclusive:
        res['inconclusive'] = out.inconclusive
        return
    for sig, detail in viol:
        runner.violation(res, sig, **detail)
    for sig, detail in safety_net_violations(out):
        runner.violation(res, 'wire:safety:' + sig, **detail)
    for k, v in obs.items():
        runner.add_obs(res, k, v)
    if obs['wire_frames_parsed']:
        res['csigs'].append(f"wire|{obf}|{sorted(sizes)}|{how}|{stop_reading}")
    res['sample'] = {'kind': 'wire', 'result': out.result}


# ---------------------------------------------------------------------------------------------------------------
# inbound frames around the obfuscation switch

SWITCH_MODES = ('obf-D', 'obf-D', 'obf-F', 'obf-P', 'plain-D', 'plain-P', 'obf-D', 'plain-F')


class _StubNetwork:
    """What a connection needs of its network: the two callbacks. Records what is delivered."""

    def __init__(self):
        self.received: list = []
        self.states: list = []

    async def on_message_received(self, message, connection):
        self.received.append(message)

    async def on_state_changed(self, state, connection, close_reason=None):
        self.states.append((state.name, getattr(close_reason, 'name', None)))


def run_switch_case(res: dict, params: dict):
    """A real ``PeerConnection`` as the listening connection creates it (incoming, obfuscated or not) is fed the
    byte stream of a remote client through a real ``StreamReader``: the init frame (obfuscated on the obfuscated
    port), then -- after the library's own steps for an accepted connection (type from PeerInit,
    ``set_connection_state``: 'D' / 'F' connections stop being obfuscated) -- the frames of that connection type,
    several back to back in one segment or cut anywhere. The real reader loop has to deliver every frame exactly
    once, equal to what was sent, in order, and the connection stays CONNECTED. The stream is produced by the
    reference codec / reference obfuscation, not by the code under test."""
    from . import refcodec as rc
    from .c01gen import gen_key
    from .props import c01
    seed, i = params['seed'], params['i']
    rng = random.Random(f"{seed}:C01:switch:{i}")
    mode = SWITCH_MODES[i % len(SWITCH_MODES)]
    obf, typ = mode.startswith('obf'), mode[-1]
    switches = obf and typ in ('D', 'F')
    cut = rng.choice(['all-at-once', 'init-then-rest', 'init-then-rest', 'random', 'random', 'per-frame', 'tiny'])
    env = c01._env()
    if env.broken:
        res['inconclusive'] = env.broken
        return
    from aioslsk.protocol import messages as M, primitives as P
    from aioslsk.network import connection as C
    lay = env.lay

    # -- what the remote client sends --------------------------------------------------------------------------
    init_spec = lay.by_name['PeerInit.Request']
    init_tree = {'username': rng.choice(['parent', 'u', 'usér 丠', 'x' * 130]), 'typ': typ, 'ticket': rng.choice([0, 1, 2 ** 32 - 1, 77])}
    init_plain = rc.encode_message(init_spec, init_tree, lay)
    init_wire = rc.obf_encode(init_plain, gen_key(rng)) if obf else init_plain
    init_obj = c01._build_message(lay, M, P, init_spec, init_tree)
    sent_objs, frames, names = [], [], []
    raw_after = b''
    ticket = offset = None
    if typ == 'F':
        ticket, offset = rng.choice([0, 1, 2 ** 32 - 1, rng.getrandbits(32)]), rng.choice([0, 1, 2 ** 40, 2 ** 64 - 1, rng.getrandbits(48)])
        raw_after = rng.randbytes(rng.choice([1, 7, 8, 64, 1000]))
        frames = [ticket.to_bytes(4, 'little'), offset.to_bytes(8, 'little'), raw_after]
    else:
        family = 'distributed' if typ == 'D' else 'peer'
        specs = [s for s in lay.messages if s['family'] == family]
        n = rng.choice([1, 2, 3, 3, 4, 6, 9])
        for k in range(n):
            spec = rng.choice(specs)
            tree = env.gen.gen_message(spec, seed, 20_000_003 + 50 * i + k)['tree']
            plain = rc.encode_message(spec, tree, lay)
            frames.append(rc.obf_encode(plain, gen_key(rng)) if (obf and typ == 'P') else plain)
            sent_objs.append(c01._build_message(lay, M, P, spec, tree))
            names.append(spec['name'])
    rest = b''.join(frames)
    if cut == 'all-at-once':
        segments = [init_wire + rest]
    elif cut == 'init-then-rest':
        segments = [init_wire, rest]
    elif cut == 'per-frame':
        segments = [init_wire] + [f for f in frames if f]
    else:
        whole = init_wire + rest
        hi = 7 if cut == 'tiny' and len(whole) < 3000 else max(8, len(whole) // rng.choice([2, 3, 5, 9]))
        segments, pos = [], 0
        while pos < len(whole):
            step = rng.randint(1, hi)
            segments.append(whole[pos:pos + step])
            pos += step
    viol: list = []
    obs = {'switch_runs': 0, 'switch_obf_to_plain_runs': 0, 'switch_frames_sent': 0, 'switch_frames_delivered': 0}
    base = 'wire:inbound:frames-after-obfuscation-switch' if switches else 'wire:inbound:frames-after-init'

    async def main(w: World):
        stub = _StubNetwork()
        conn = C.PeerConnection('10.0.0.9', 4321, stub, obfuscated=obf, incoming=True, read_timeout=60)
        conn.state = C.ConnectionState.CONNECTED
        reader = conn._reader = asyncio.StreamReader()

        async def feed():
            for seg in segments:
                reader.feed_data(seg)
                await asyncio.sleep(rng.choice([0, 0, 0.001, 0.02, 0.3]))
        feeder = w.spawn('remote', feed(), name='vf-switch-feed')
        detail = {'mode': mode, 'cut': cut, 'segments': len(segments), 'segment_sizes': [len(s) for s in segments][:12],
                  'classes': names, 'frame_sizes': [len(f) for f in frames][:12], 'init': init_tree}
        # the library's own steps for an accepted connection (Network.on_peer_accepted / _finalize_peer_connection)
        try:
            got_init = await asyncio.wait_for(conn.receive_message_object(), 30)
        except Exception as exc:  # noqa
            viol.append((base + ':init-not-read', dict(detail, error=repr(exc)[:300])))
            return detail
        if type(got_init) is not type(init_obj) or got_init != init_obj:
            viol.append((base + ':init-not-read', dict(detail, got=repr(got_init)[:300])))
            return detail
        conn.username, conn.connection_type = got_init.username, got_init.typ
        delivered_n = 0
        problems: dict = {}
        if typ == 'F':
            conn.set_connection_state(C.PeerConnectionState.NEGOTIATING_TRANSFER)
            try:
                got_ticket = await asyncio.wait_for(conn.receive_transfer_ticket(), 30)
                got_offset = await asyncio.wait_for(conn.receive_transfer_offset(), 30)
                got_raw = b''
                while len(got_raw) < len(raw_after):
                    chunk = await asyncio.wait_for(conn.receive_data(len(raw_after) - len(got_raw)), 30)
                    if not chunk:
                        break
                    got_raw += chunk
            except asyncio.TimeoutError:
                problems['lost'] = 'ticket / offset / data not delivered within 30 virtual seconds'
            except Exception as exc:  # noqa
                problems['disconnected'] = repr(exc)[:300]
            else:
                delivered_n = 3
                if (got_ticket, got_offset, got_raw) != (ticket, offset, raw_after):
                    problems['garbled'] = f'ticket {got_ticket} (sent {ticket}), offset {got_offset} (sent {offset}), ' \
                                          f'{len(got_raw)} data bytes equal={got_raw == raw_after}'
        else:
            conn.set_connection_state(C.PeerConnectionState.ESTABLISHED)      # starts the real reader loop
            await feeder
            await settle(5.0)
            received = list(stub.received)
            delivered_n = len(received)
            for k, (a, b) in enumerate(zip(received, sent_objs)):
                if type(a) is not type(b) or a != b:
                    problems['garbled'] = f'frame {k} ({names[k]}) delivered as {repr(a)[:300]}'
                    break
            if len(received) > len(sent_objs):
                problems['garbled'] = f'{len(received)} messages delivered for {len(sent_objs)} frames'
            if len(received) < len(sent_objs):
                problems['lost'] = f'{len(received)} of {len(sent_objs)} frames delivered'
        await feeder
        if conn.state != C.ConnectionState.CONNECTED:
            problems['disconnected'] = f'connection is {conn.state.name}, state changes {stub.states}'
        if switches and conn.obfuscated:
            problems['garbled'] = problems.get('garbled') or 'connection still obfuscated after the switch'
        obs['switch_runs'] += 1
        obs['switch_obf_to_plain_runs'] += 1 if switches else 0
        obs['switch_frames_sent'] += len(frames)
        obs['switch_frames_delivered'] += delivered_n
        detail.update(delivered=delivered_n, obfuscated_after=conn.obfuscated, connection_state=conn.state.name)
        for what, text in problems.items():
            viol.append((f'{base}:{what}', dict(detail, problem=text)))
        conn.stop_reader_task()
        await conn.disconnect(C.CloseReason.REQUESTED)
        return detail

    out = run_world(f"{seed}:C01:switch:{i}", main, wall_timeout=120)
    if out.inconclusive:
        res['inconclusive'] = out.inconclusive
        return
    for sig, detail in viol:
        runner.violation(res, sig, **detail)
    for sig, detail in safety_net_violations(out):
        runner.violation(res, 'wire:safety:' + sig, **detail)
    for k, v in obs.items():
        runner.add_obs(res, k, v)
    if obs['switch_frames_delivered']:
        res['csigs'].append(f"switch|{mode}|{cut}|{len(segments)}|{names}")
    res['sample'] = {'kind': 'switch', 'result': out.result}
