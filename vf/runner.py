"""Check runner: sharding, verdicts, evidence, known findings, replay (DESIGN §3, §6).

A property module ``vf.props.cXX`` provides

    ID, LEVEL, RULE, ASSUMPTIONS, MIN_OBS (dict counter -> minimum for a
    conclusive run, per tier: {'quick': {...}, 'thorough': {...}} or flat)
    cases(tier, seed) -> list[dict]      JSON-able parameters, deterministic
    run_case(params)  -> dict            see ``new_result``
    optional: finish(agg, tier, seed) -> None   (extra whole-run rules / coverage keys)
    optional: WHAT_FAILS: dict sig-prefix -> text
"""
from __future__ import annotations

import argparse
import hashlib
import importlib
import json
import os
import subprocess
import sys
import tempfile
import time
import traceback
from typing import Any, Optional

VERIF = os.path.dirname(os.path.dirname(os.path.abspath(__file__)))
# VERIF_EVIDENCE_DIR: only used by tools/seeded_confirm.py, so that runs against a patched scratch tree do not
# overwrite the evidence of /repo
EVIDENCE_DIR = os.environ.get('VERIF_EVIDENCE_DIR') or os.path.join(VERIF, 'evidence')
REPLAY_DIR = os.path.join(EVIDENCE_DIR, 'replays')
KNOWN_FILE = os.path.join(VERIF, 'known_findings.json')


def new_result(case: int) -> dict:
    return {
        'case': case,
        'violations': [],      # [{'sig': str, 'detail': any}]
        'csigs': [],           # signatures of distinct non-trivial (sub)cases
        'obs': {},             # counters of what the monitors observed
        'sample': None,        # a written-out case (parameters + abbreviated trace)
        'inconclusive': None,  # reason (watchdog, harness error) or None
        'cover': {},           # coverage tables: key -> list of values seen
    }


def add_obs(res: dict, key: str, n: int = 1):
    res['obs'][key] = res['obs'].get(key, 0) + n


def add_cover(res: dict, key: str, value):
    lst = res['cover'].setdefault(key, [])
    if value not in lst:
        lst.append(value)


def violation(res: dict, sig: str, **detail):
    res['violations'].append({'sig': sig, 'detail': detail})


def _h(s: str) -> str:
    return hashlib.blake2b(s.encode('utf-8', 'replace'), digest_size=8).hexdigest()


def load_module(prop: str):
    return importlib.import_module(f'vf.props.{prop.lower()}')


def load_known() -> list[dict]:
    try:
        with open(KNOWN_FILE) as fh:
            return json.load(fh)
    except FileNotFoundError:
        return []


# ---------------------------------------------------------------------------
# shard side

def run_shard(prop: str, tier: str, seed: int, shard: int, nshards: int, out_path: str):
    mod = load_module(prop)
    cases = mod.cases(tier, seed)
    agg = {
        'evaluations': 0, 'csigs': {}, 'obs': {}, 'cover': {}, 'violations': {}, 'samples': [],
        'inconclusive': [], 'wall': 0.0,
    }
    t0 = time.time()
    deadline = float(os.environ.get('VERIF_SHARD_BUDGET', '0') or 0)
    for idx in range(shard, len(cases), nshards):
        params = cases[idx]
        params.setdefault('case', idx)
        try:
            res = mod.run_case(params)
        except BaseException as exc:  # noqa  (harness failure: never a violation)
            if isinstance(exc, KeyboardInterrupt) and type(exc).__name__ not in ('WallClockWatchdog', 'VirtualBudgetExceeded'):
                raise
            res = new_result(idx)
            res['inconclusive'] = 'harness exception: ' + ''.join(
                traceback.format_exception(type(exc), exc, exc.__traceback__))[-1500:]
        merge_result(agg, res, params)
        if deadline and time.time() - t0 > deadline:
            agg['inconclusive'].append({'case': idx, 'reason': 'shard budget exhausted', 'fatal': True})
            break
    agg['wall'] = time.time() - t0
    with open(out_path, 'w') as fh:
        json.dump(agg, fh)


def merge_result(agg: dict, res: dict, params: dict):
    agg['evaluations'] += res.get('evaluations', 1)
    for cs in res.get('csigs') or []:
        h = _h(cs)
        if h not in agg['csigs']:
            agg['csigs'][h] = 1
    for k, v in (res.get('obs') or {}).items():
        agg['obs'][k] = agg['obs'].get(k, 0) + v
    for k, vals in (res.get('cover') or {}).items():
        lst = agg['cover'].setdefault(k, [])
        for v in vals:
            if v not in lst and len(lst) < 400:
                lst.append(v)
    for v in res.get('violations') or []:
        ent = agg['violations'].get(v['sig'])
        if ent is None:
            agg['violations'][v['sig']] = {'count': 1, 'params': params, 'detail': v.get('detail'),
                                           'case': res.get('case')}
        else:
            ent['count'] += 1
    if res.get('sample') is not None and len(agg['samples']) < 3:
        agg['samples'].append(res['sample'])
    if res.get('inconclusive'):
        agg['inconclusive'].append({'case': res.get('case'), 'reason': str(res['inconclusive'])[:600]})


# ---------------------------------------------------------------------------
# parent side

#: a module's MIN_OBS values are what a typical run observes at the very least;
#: the verdict turns inconclusive below half of that (seed-to-seed variation
#: must never flip a conclusive run)
MIN_OBS_SCALE = 0.5


def _min_obs(mod, tier: str) -> dict:
    mo = getattr(mod, 'MIN_OBS', {}) or {}
    if 'quick' in mo or 'thorough' in mo:
        mo = mo.get(tier, {})
    grow = float(getattr(mod, 'QUICK_SCALE', 1.0)) if tier == 'quick' else 1.0
    fixed = set(getattr(mod, 'QUICK_FIXED', ()))
    return {k: int(v * MIN_OBS_SCALE * (1.0 if k in fixed else grow)) for k, v in mo.items()}


def run_check(prop: str, tier: str, seed: int, jobs: int) -> int:
    t0 = time.time()
    mod = load_module(prop)
    cases = mod.cases(tier, seed)
    ncases = len(cases)
    nshards = max(1, min(jobs, ncases))
    shard_timeout = float(getattr(mod, 'SHARD_TIMEOUT', {}).get(tier, 900 if tier == 'quick' else 5400))
    tmpdir = tempfile.mkdtemp(prefix=f'vf-{prop}-')
    procs = []
    env = dict(os.environ)
    # a shard stops taking new cases at 80 % of the time it is given and writes what it has (violations included);
    # the rest of its cases count as inconclusive - a shard that has to be killed would lose everything
    env.setdefault('VERIF_SHARD_BUDGET', str(int(shard_timeout * 0.8)))
    for i in range(nshards):
        out = os.path.join(tmpdir, f'shard{i}.json')
        cmd = [sys.executable, '-m', 'vf.runner', prop, '--tier', tier, '--seed', str(seed),
               '--shard', f'{i}/{nshards}', '--out', out]
        log = open(os.path.join(tmpdir, f'shard{i}.log'), 'w')
        procs.append((i, out, log, subprocess.Popen(cmd, cwd=VERIF, env=env, stdout=log, stderr=subprocess.STDOUT)))

    total = {'evaluations': 0, 'csigs': {}, 'obs': {}, 'cover': {}, 'violations': {}, 'samples': [],
             'inconclusive': [], 'shard_failures': []}
    deadline = time.time() + shard_timeout
    for i, out, log, proc in procs:
        try:
            rc = proc.wait(timeout=max(1.0, deadline - time.time()))
        except subprocess.TimeoutExpired:
            proc.kill()
            proc.wait()
            rc = 'timeout'
        log.close()
        if rc != 0 or not os.path.exists(out):
            tail = ''
            try:
                tail = open(log.name).read()[-800:]
            except Exception:  # noqa
                pass
            total['shard_failures'].append({'shard': i, 'rc': rc, 'tail': tail})
            continue
        with open(out) as fh:
            agg = json.load(fh)
        total['evaluations'] += agg['evaluations']
        total['csigs'].update(agg['csigs'])
        for k, v in agg['obs'].items():
            total['obs'][k] = total['obs'].get(k, 0) + v
        for k, vals in agg['cover'].items():
            lst = total['cover'].setdefault(k, [])
            for v in vals:
                if v not in lst and len(lst) < 400:
                    lst.append(v)
        for sig, ent in agg['violations'].items():
            cur = total['violations'].get(sig)
            if cur is None:
                total['violations'][sig] = ent
            else:
                cur['count'] += ent['count']
                if (ent.get('case') or 0) < (cur.get('case') or 0):
                    ent['count'] = cur['count']
                    total['violations'][sig] = ent
        for s in agg['samples']:
            if len(total['samples']) < 4:
                total['samples'].append(s)
        total['inconclusive'].extend(agg['inconclusive'])
    try:
        import shutil
        shutil.rmtree(tmpdir, ignore_errors=True)
    except Exception:  # noqa
        pass

    if hasattr(mod, 'finish'):
        try:
            mod.finish(total, tier, seed)
        except Exception:  # noqa
            total['shard_failures'].append({'shard': 'finish', 'rc': 'exception', 'tail': traceback.format_exc()[-800:]})

    # -- classify violations against the known-findings file -------------------
    known = [k for k in load_known() if k.get('property') == prop]
    known_sigs = {k['signature']: k for k in known if k.get('status') == 'known'}
    new_violations, seen_known = {}, {}
    for sig, ent in sorted(total['violations'].items()):
        if sig in known_sigs:
            seen_known[sig] = ent
        else:
            new_violations[sig] = ent

    # -- verdict -----------------------------------------------------------------------
    reasons = []
    if total['shard_failures']:
        reasons.append(f"{len(total['shard_failures'])} shard(s) failed: " +
                       '; '.join(f"#{f['shard']} rc={f['rc']}" for f in total['shard_failures'][:4]))
    for k, minimum in _min_obs(mod, tier).items():
        if total['obs'].get(k, 0) < minimum:
            reasons.append(f"monitor counter {k}={total['obs'].get(k, 0)} < {minimum}")
    ninc = len(total['inconclusive'])
    if any(i.get('fatal') for i in total['inconclusive']):
        reasons.append('a shard ran out of its wall-clock budget')
    if ninc > max(2, 0.05 * max(1, total['evaluations'])):
        reasons.append(f"{ninc} inconclusive cases of {total['evaluations']}: " +
                       str(total['inconclusive'][0]['reason'])[:300])
    distinct = len(total['csigs'])
    if distinct < 2 and not new_violations:
        reasons.append(f'only {distinct} distinct non-trivial cases')

    os.makedirs(REPLAY_DIR, exist_ok=True)
    lines = []
    for sig, ent in new_violations.items():
        path = os.path.join(REPLAY_DIR, f'{prop}-{_h(sig)}.json')
        with open(path, 'w') as fh:
            json.dump({'property': prop, 'signature': sig, 'tier': tier, 'seed': seed,
                       'params': ent['params'], 'detail': ent['detail'], 'count': ent['count']},
                      fh, indent=1, default=str)
        lines.append(f'VIOLATION property={prop} replay={path}')
        lines.append(f'  signature: {sig}  (x{ent["count"]})')
    for sig, ent in seen_known.items():
        lines.append(f"KNOWN-FINDING: property={prop} {known_sigs[sig]['what_fails']} [{sig}] (x{ent['count']})")

    wall = time.time() - t0
    evidence = {
        'property_id': prop,
        'tier': tier,
        'seed': seed,
        'level': mod.LEVEL,
        'coverage': {
            'evaluations': total['evaluations'],
            'distinct_nontrivial': distinct,
            'rule': mod.RULE,
            'samples': total['samples'] or [{'note': 'no sample recorded'}],
            'monitor_observations': dict(sorted(total['obs'].items())),
            'coverage_tables': {k: (sorted(v, key=str) if len(v) <= 60 else
                                    {'count': len(v), 'first': sorted(v, key=str)[:60]})
                                for k, v in sorted(total['cover'].items())},
            'inconclusive_cases': ninc,
            'known_findings_seen': sorted(seen_known),
            'violation_signatures': sorted(new_violations),
            'shards': nshards,
            'exhaustive': bool(getattr(mod, 'EXHAUSTIVE', {}).get(tier, False)) if isinstance(getattr(mod, 'EXHAUSTIVE', None), dict) else False,
        },
        'assumptions': list(getattr(mod, 'ASSUMPTIONS', [])),
        'wall_s': round(wall, 2),
        'violations': len(new_violations),
        'verdict': 'violated' if new_violations else ('inconclusive' if reasons else 'held'),
    }
    if reasons:
        evidence['coverage']['inconclusive_reasons'] = reasons
    os.makedirs(EVIDENCE_DIR, exist_ok=True)
    with open(os.path.join(EVIDENCE_DIR, f'{prop}.json'), 'w') as fh:
        json.dump(evidence, fh, indent=1, default=str)
    try:
        _validate_evidence(evidence)
    except Exception as exc:  # noqa
        if evidence['verdict'] == 'held':
            raise
        # e.g. every shard died (evaluations == 0): the run is inconclusive / violated anyway; say so instead of
        # ending in a traceback
        print(f'NOTE evidence file does not validate ({type(exc).__name__}: {str(exc).splitlines()[0][:120]})')

    for ln in lines:
        print(ln)
    print(f"{prop} tier={tier} seed={seed}: evaluations={total['evaluations']} distinct_nontrivial={distinct} "
          f"violations={len(new_violations)} known={len(seen_known)} inconclusive_cases={ninc} wall={wall:.1f}s")
    print('  observed: ' + ', '.join(f'{k}={v}' for k, v in sorted(total['obs'].items())))
    if new_violations:
        return 1
    if reasons:
        print(f"INCONCLUSIVE property={prop} reason={' | '.join(reasons)}")
        for f in total['shard_failures'][:3]:
            print('  shard failure tail:', f['tail'][-400:].replace('\n', '\n    '))
        return 2
    return 0


def _validate_evidence(evidence: dict):
    schema_path = '/root/.vp/EVIDENCE.schema.json'
    try:
        import jsonschema  # type: ignore
        with open(schema_path) as fh:
            schema = json.load(fh)
        jsonschema.validate(evidence, schema)
    except ImportError:
        pass
    except FileNotFoundError:
        pass


def run_replay(prop: str, path: str) -> int:
    mod = load_module(prop)
    with open(path) as fh:
        rep = json.load(fh)
    params = rep['params']
    res = mod.run_case(params)
    print(json.dumps({'params': params, 'violations': res['violations'], 'obs': res['obs'],
                      'inconclusive': res['inconclusive']}, indent=1, default=str)[:20000])
    want = rep.get('signature')
    got = [v['sig'] for v in res['violations']]
    if want in got:
        print(f'VIOLATION property={prop} replay={path}')
        return 1
    if got:
        print(f'replay produced other violations: {got}')
        return 1
    print('replay did not reproduce the violation (see DESIGN §2.5 on residual nondeterminism)')
    return 0


def main(argv=None) -> int:
    ap = argparse.ArgumentParser()
    ap.add_argument('prop')
    ap.add_argument('--tier', default=os.environ.get('VERIF_TIER', 'quick'), choices=['quick', 'thorough'])
    ap.add_argument('--seed', type=int, default=int(os.environ.get('VERIF_SEED', '0') or 0))
    ap.add_argument('--jobs', type=int, default=int(os.environ.get('VERIF_JOBS', '0') or 0) or (os.cpu_count() or 4))
    ap.add_argument('--shard')
    ap.add_argument('--out')
    ap.add_argument('--replay')
    ap.add_argument('--case', type=int, help='run one generated case in-process and dump its result')
    args = ap.parse_args(argv)
    prop = args.prop.upper()
    if args.shard:
        i, n = args.shard.split('/')
        run_shard(prop, args.tier, args.seed, int(i), int(n), args.out)
        return 0
    if args.replay:
        return run_replay(prop, args.replay)
    if args.case is not None:
        mod = load_module(prop)
        params = mod.cases(args.tier, args.seed)[args.case]
        params.setdefault('case', args.case)
        res = mod.run_case(params)
        print(json.dumps({'params': params, 'result': res}, indent=1, default=str)[:40000])
        return 1 if res['violations'] else 0
    return run_check(prop, args.tier, args.seed, args.jobs)


if __name__ == '__main__':
    sys.exit(main())
