"""In-memory TCP with a fault plan (DESIGN §2.2).

``aioslsk.network.connection`` looks up ``asyncio.open_connection`` and
``asyncio.start_server`` through its module global ``asyncio``; ``install()``
rebinds that one name to a proxy module which forwards everything except those
two functions to the SimNet of the running loop.
"""
from __future__ import annotations

import asyncio
import collections
import contextvars
import random
import types
from dataclasses import dataclass, field
from typing import Any, Callable, Optional

NODE: contextvars.ContextVar[str] = contextvars.ContextVar('vf_node', default='harness')

HIGH_WATER = 64 * 1024
LOW_WATER = 16 * 1024
WINDOW = 256 * 1024


@dataclass
class ConnPlan:
    connect: str = 'ok'            # ok | refuse | hang | reset (RST right after establishment)
    latency: float = 0.005         # connect latency
    seg: str = 'random'            # whole | bytes1 | random | fixed:<n>
    seg_lat: tuple = (0.0005, 0.004)   # per segment latency range, per direction FIFO
    cut_dir: Optional[str] = None  # 'a2b' (dialer -> acceptor) | 'b2a'
    cut_after: int = 0             # payload bytes delivered in that direction before the cut
    cut_mode: str = 'rst'          # rst | eof | blackhole
    note: str = ''
    yield_steps: int = 0           # extra zero-time loop steps before the connect completes
    gate: Any = None               # asyncio.Event the connect waits for (rendezvous with another path)
    on_connected: Any = None       # callback() when the connect is about to return


class SimListener:
    def __init__(self, net: 'SimNet', cb, host, port, node: str):
        self.net, self.cb, self.host, self.port, self.node = net, cb, host, port, node
        self.ctx = contextvars.copy_context()
        self._serving = True
        self.accepted = 0

    # asyncio.Server surface used by aioslsk
    def is_serving(self) -> bool:
        return self._serving

    def close(self):
        if self._serving:
            self._serving = False
            if self.net.listeners.get(self.port) is self:
                del self.net.listeners[self.port]
            self.net.log('listen_close', node=self.node, port=self.port)

    async def wait_closed(self):
        return None

    @property
    def sockets(self):
        return []


class SimConn:
    """One simulated TCP connection (a = dialer side, b = acceptor side)."""

    def __init__(self, net: 'SimNet', cid: int, src: str, dst: str, host: str, port: int, plan: ConnPlan):
        self.net, self.id, self.src, self.dst, self.host, self.port, self.plan = net, cid, src, dst, host, port, plan
        self.a: 'SimTransport' = None  # type: ignore
        self.b: 'SimTransport' = None  # type: ignore
        self.opened = net.loop.time()
        self.delivered = {'a2b': 0, 'b2a': 0}
        self.written = {'a2b': 0, 'b2a': 0}
        self.wlog: list[tuple[float, str, bytes]] = []   # at write()
        self.dlog: list[tuple[float, str, bytes]] = []   # at delivery
        self.cut_done = False
        self.tags: dict[str, Any] = {}

    def stream(self, direction: str, delivered: bool = True) -> bytes:
        log = self.dlog if delivered else self.wlog
        return b''.join(d for _, dr, d in log if dr == direction)

    def __repr__(self):
        return f"<SimConn #{self.id} {self.src}->{self.dst}:{self.port}>"


class SimTransport(asyncio.Transport):

    def __init__(self, net: 'SimNet', conn: SimConn, side: str, owner: str, sockname, peername):
        super().__init__(extra={'sockname': sockname, 'peername': peername})
        self.net, self.conn, self.side, self.owner = net, conn, side, owner
        self.dir = 'a2b' if side == 'a' else 'b2a'       # direction of OUR writes
        self.peer: 'SimTransport' = None  # type: ignore
        self.protocol: Optional[asyncio.Protocol] = None
        self.reader: Optional[asyncio.StreamReader] = None
        self.writer: Optional[asyncio.StreamWriter] = None
        self._closing = False
        self._lost = False
        self._rx_eof = False
        self._out = bytearray()
        self._tx_last = 0.0
        self._wpaused = False
        self._rpaused = False
        self._rxq: list[bytes] = []
        self._rx_pending = 0
        # in-flight items towards US, strictly FIFO: (when, kind, payload)
        self._inflight: collections.deque = collections.deque()
        self._inflight_handle = None
        self._blackhole = False
        self._broken_exc: Optional[BaseException] = None
        self.closed_at: Optional[float] = None

    # -- wiring ------------------------------------------------------------
    def make_streams(self):
        loop = self.net.loop
        reader = asyncio.StreamReader(limit=2 ** 16, loop=loop)
        protocol = asyncio.StreamReaderProtocol(reader, loop=loop)
        self.protocol = protocol
        protocol.connection_made(self)
        writer = asyncio.StreamWriter(self, protocol, reader, loop)
        self.reader, self.writer = reader, writer
        return reader, writer

    # -- Transport API -------------------------------------------------------
    def is_closing(self) -> bool:
        return self._closing

    def get_write_buffer_size(self) -> int:
        return len(self._out)

    def get_write_buffer_limits(self):
        return (LOW_WATER, HIGH_WATER)

    def set_write_buffer_limits(self, high=None, low=None):
        pass

    def can_write_eof(self) -> bool:
        return False

    def pause_reading(self):
        self._rpaused = True

    def resume_reading(self):
        if not self._rpaused:
            return
        self._rpaused = False
        self.net.loop.call_soon(self._drain_rxq)

    def is_reading(self) -> bool:
        return not self._rpaused and not self._closing

    def write(self, data):
        if self._lost or self._closing:
            return
        data = bytes(data)
        if not data:
            return
        now = self.net.loop.time()
        self.conn.wlog.append((now, self.dir, data))
        self.conn.written[self.dir] += len(data)
        self.net.bytes_written += len(data)
        if self.net.on_write is not None:
            self.net.on_write(self, data)
        if self._broken_exc is not None or self.peer._lost:
            # peer is gone: the kernel accepts the bytes, an RST comes back
            exc = self._broken_exc or ConnectionResetError(104, 'Connection reset by peer')
            self.net.loop.call_at(now + self.net.rst_latency, self._conn_lost, exc)
            return
        self._out.extend(data)
        self._pump()

    def writelines(self, list_of_data):
        self.write(b''.join(list_of_data))

    def close(self):
        if self._closing:
            return
        self._closing = True
        self.net.log('close', conn=self.conn.id, side=self.side, owner=self.owner)
        # incoming data is no longer read after close()
        self._rxq.clear()
        if not self._out or self._blackhole or self.peer._lost:
            self._finish_close()
        # else: _pump() finishes the close once the buffer is flushed

    def abort(self):
        if self._lost:
            return
        self._closing = True
        self._out.clear()
        now = self.net.loop.time()
        if not self.peer._lost and not self._blackhole:
            self.net.loop.call_at(
                now + self.net.rst_latency, self.peer._conn_lost,
                ConnectionResetError(104, 'Connection reset by peer'))
        self.net.loop.call_soon(self._conn_lost, None)

    # -- internals -----------------------------------------------------------
    def _finish_close(self):
        now = self.net.loop.time()
        if not self._blackhole and not self.peer._lost:
            t = max(self._tx_last, now) + self.net.fin_latency
            self._tx_last = t
            self.peer._enqueue(t, 'eof', None)
        self.net.loop.call_soon(self._conn_lost, None)

    def _seg_size(self, avail: int) -> int:
        seg = self.conn.plan.seg
        if seg == 'whole':
            return avail
        if seg == 'bytes1':
            return 1
        if seg.startswith('fixed:'):
            return max(1, min(avail, int(seg[6:])))
        rng = self.net.rng
        r = rng.random()
        if r < 0.15:
            return 1
        if r < 0.45:
            return avail
        return rng.randint(1, avail)

    def _pump(self):
        peer = self.peer
        loop = self.net.loop
        lo, hi = self.conn.plan.seg_lat
        while self._out and not self._blackhole and not self._lost:
            room = self.net.window - peer._rx_pending
            if room <= 0:
                break
            n = self._seg_size(min(room, len(self._out)))
            chunk = bytes(self._out[:n])
            del self._out[:n]
            peer._rx_pending += n
            lat = lo if hi <= lo else self.net.rng.uniform(lo, hi)
            t = max(self._tx_last, loop.time()) + lat
            self._tx_last = t
            peer._enqueue(t, 'data', chunk)
        if self._blackhole:
            # bytes vanish silently
            self._out.clear()
        size = len(self._out)
        if self.protocol is not None and not self._lost:
            if not self._wpaused and size > HIGH_WATER:
                self._wpaused = True
                self.protocol.pause_writing()
            elif self._wpaused and size <= LOW_WATER:
                self._wpaused = False
                self.protocol.resume_writing()
        if self._closing and not self._lost and not self._out and not getattr(self, '_close_finished', False):
            self._close_finished = True
            self._finish_close()

    def _enqueue(self, when: float, kind: str, payload):
        """TCP never reorders: one timer for the head of the queue; equal
        timestamps keep their order (a heap of timers would not)."""
        self._inflight.append((when, kind, payload))
        if self._inflight_handle is None:
            self._inflight_handle = self.net.loop.call_at(when, self._inflight_due)

    def _inflight_due(self):
        self._inflight_handle = None
        now = self.net.loop.time()
        while self._inflight and self._inflight[0][0] <= now:
            _, kind, payload = self._inflight.popleft()
            if kind == 'data':
                self._deliver(payload)
            else:
                self._peer_eof()
        if self._inflight:
            self._inflight_handle = self.net.loop.call_at(self._inflight[0][0], self._inflight_due)

    def _deliver(self, chunk: bytes):
        if self._lost or self._closing or self._rx_eof or self.conn.cut_done:
            self._rx_pending -= len(chunk)
            return
        if self._rpaused or self._rxq:
            self._rxq.append(chunk)
            return
        self._hand(chunk)

    def _drain_rxq(self):
        while self._rxq and not self._rpaused and not self._lost and not self._closing:
            self._hand(self._rxq.pop(0))

    def _hand(self, chunk: bytes):
        conn = self.conn
        d = self.peer.dir            # direction of the bytes we receive
        self._rx_pending -= len(chunk)
        plan = conn.plan
        if plan.cut_dir == d and not conn.cut_done:
            left = plan.cut_after - conn.delivered[d]
            if left <= len(chunk):
                chunk = chunk[:max(0, left)]
                if chunk:
                    self._record_and_feed(d, chunk)
                conn.cut_done = True
                self.net._apply_cut(conn, d)
                return
        self._record_and_feed(d, chunk)
        if not self.peer._lost:
            self.peer._pump()

    def _record_and_feed(self, d: str, chunk: bytes):
        conn = self.conn
        conn.delivered[d] += len(chunk)
        conn.dlog.append((self.net.loop.time(), d, chunk))
        self.net.bytes_delivered += len(chunk)
        if self.net.on_deliver is not None:
            self.net.on_deliver(self, chunk)
        self.protocol.data_received(chunk)  # type: ignore[union-attr]

    def _peer_eof(self):
        if self._lost or self._closing or self._rx_eof:
            return
        if self._rxq:
            # data still queued in front of the FIN
            self.net.loop.call_later(0.001, self._peer_eof)
            return
        self._rx_eof = True
        self.net.log('eof', conn=self.conn.id, side=self.side, owner=self.owner)
        keep = self.protocol.eof_received()  # type: ignore[union-attr]
        if not keep:
            self.close()

    def _conn_lost(self, exc):
        if self._lost:
            return
        self._lost = True
        self._closing = True
        self._out.clear()
        self._rxq.clear()
        self.closed_at = self.net.loop.time()
        self.net.log('lost', conn=self.conn.id, side=self.side, owner=self.owner,
                     exc=type(exc).__name__ if exc else None)
        try:
            self.protocol.connection_lost(exc)  # type: ignore[union-attr]
        finally:
            if not self.peer._lost:
                # window may have been blocked on us
                self.peer._pump()

    def __repr__(self):
        return f"<SimTransport conn={self.conn.id}{self.side} owner={self.owner} closing={self._closing} lost={self._lost}>"


class SimNet:

    def __init__(self, loop, rng: random.Random):
        self.loop = loop
        self.rng = rng
        self.listeners: dict[int, SimListener] = {}
        self.conns: list[SimConn] = []
        self.connect_log: list[dict] = []
        self.events: list[dict] = []
        self.bind_fail: set[int] = set()
        self.planner: Callable[[str, str, int, int], ConnPlan] = self.default_planner
        self.on_write: Optional[Callable] = None
        self.on_deliver: Optional[Callable] = None
        self.window = WINDOW
        self.rst_latency = 0.002
        self.rto = 900.0
        self.fin_latency = 0.002
        self.bytes_written = 0
        self.bytes_delivered = 0
        self._cid = 0
        self._attempt = 0
        self.ips: dict[str, str] = {}     # node -> ip
        self.log_enabled = True
        loop.simnet = self

    # -- logging -------------------------------------------------------------
    def log(self, kind: str, **kw):
        if self.log_enabled:
            kw['k'] = kind
            kw['t'] = round(self.loop.time() - 1000.0, 6)
            self.events.append(kw)

    def default_planner(self, node: str, host: str, port: int, attempt: int) -> ConnPlan:
        return ConnPlan(latency=self.rng.uniform(0.001, 0.03))

    def ip_of(self, node: str) -> str:
        if node not in self.ips:
            self.ips[node] = f'10.0.0.{len(self.ips) + 2}'
        return self.ips[node]

    # -- asyncio surface -------------------------------------------------------
    async def start_server(self, client_connected_cb, host=None, port=None, **kw):
        node = NODE.get()
        if port in self.bind_fail or port in self.listeners:
            self.log('bind_fail', node=node, port=port)
            raise OSError(98, f'Address already in use: {port}')
        lst = SimListener(self, client_connected_cb, host, port, node)
        self.listeners[port] = lst
        self.log('listen', node=node, port=port)
        return lst

    async def open_connection(self, host=None, port=None, **kw):
        node = NODE.get()
        self._attempt += 1
        attempt = self._attempt
        plan = self.planner(node, host, port, attempt)
        entry = {'t': round(self.loop.time() - 1000.0, 6), 'node': node, 'host': host, 'port': port,
                 'attempt': attempt, 'plan': plan.connect, 'outcome': 'pending'}
        self.connect_log.append(entry)
        try:
            if plan.connect == 'hang':
                await self.loop.create_future()
            await asyncio.sleep(plan.latency)
            if plan.gate is not None:
                await plan.gate.wait()
            for _ in range(plan.yield_steps):
                await asyncio.sleep(0)
        except asyncio.CancelledError:
            entry['outcome'] = 'cancelled'
            raise
        lst = self.listeners.get(port)
        if plan.connect == 'refuse' or lst is None or not lst._serving:
            entry['outcome'] = 'refused'
            raise ConnectionRefusedError(111, f"Connect call failed ({host!r}, {port})")
        conn = self._make_conn(node, lst, host, port, plan)
        entry['outcome'] = 'connected'
        entry['conn'] = conn.id
        if plan.on_connected is not None:
            plan.on_connected()
        if plan.connect == 'reset':
            # established, then reset before the dialer gets to write: its first write / drain fails
            conn.cut_done = True
            conn.a._conn_lost(ConnectionResetError(104, 'Connection reset by peer'))
            self.loop.call_later(self.rst_latency, conn.b._conn_lost, ConnectionResetError(104, 'Connection reset by peer'))
        return conn.a.reader, conn.a.writer

    def _make_conn(self, node: str, lst: SimListener, host, port, plan: ConnPlan) -> SimConn:
        self._cid += 1
        conn = SimConn(self, self._cid, node, lst.node, host, port, plan)
        eport = 50000 + self._cid
        src_ip = self.ip_of(node)
        a = SimTransport(self, conn, 'a', node, (src_ip, eport), (host, port))
        b = SimTransport(self, conn, 'b', lst.node, (self.ip_of(lst.node), port), (src_ip, eport))
        a.peer, b.peer = b, a
        conn.a, conn.b = a, b
        self.conns.append(conn)
        lst.accepted += 1
        self.log('open', conn=conn.id, src=node, dst=lst.node, port=port)
        a.make_streams()
        # acceptor side runs in the listener owner's context
        lst.ctx.copy().run(self._accept, lst, b)
        return conn

    def _accept(self, lst: SimListener, b: SimTransport):
        reader, writer = b.make_streams()
        res = lst.cb(reader, writer)
        if asyncio.iscoroutine(res):
            task = self.loop.create_task(res, name=f'sim-accept-{b.conn.id}')

            def done(t: asyncio.Task):
                if t.cancelled():
                    b.close()
                    return
                exc = t.exception()
                if exc is not None:
                    self.loop.call_exception_handler({
                        'message': 'Unhandled exception in client_connected_cb',
                        'exception': exc, 'transport': b, 'task': t})
                    b.close()
            task.add_done_callback(done)

    # -- faults ------------------------------------------------------------------
    def _apply_cut(self, conn: SimConn, d: str, mode: Optional[str] = None):
        mode = mode or conn.plan.cut_mode
        conn.cut_done = True
        self.log('cut', conn=conn.id, dir=d, mode=mode, delivered=dict(conn.delivered))
        a, b = conn.a, conn.b
        if mode == 'rst':
            for tr in (a, b):
                tr._out.clear()
                self.loop.call_soon(tr._conn_lost, ConnectionResetError(104, 'Connection reset by peer'))
        elif mode in ('blackhole', 'timeout'):
            for tr in (a, b):
                tr._blackhole = True
                tr._out.clear()
            if mode == 'timeout':
                # silent loss; the kernel gives up retransmitting after rto seconds
                for tr in (a, b):
                    self.loop.call_later(self.rto, tr._conn_lost, TimeoutError(110, 'Connection timed out'))
        elif mode == 'eof':
            # the receiver of direction d sees an orderly FIN exactly at the
            # counted byte, the sender of that direction sees an RST
            sender, receiver = (a, b) if d == 'a2b' else (b, a)
            sender._out.clear()
            receiver._rxq.clear()
            self.loop.call_soon(sender._conn_lost, ConnectionResetError(104, 'Connection reset by peer'))
            self.loop.call_soon(receiver._peer_eof)
        else:  # pragma: no cover
            raise ValueError(mode)

    def cut_now(self, conn: SimConn, mode: str = 'rst', d: str = 'a2b'):
        self._apply_cut(conn, d, mode)

    # -- queries ---------------------------------------------------------------------
    def open_transports(self, owner: Optional[str] = None) -> list[SimTransport]:
        out = []
        for c in self.conns:
            for tr in (c.a, c.b):
                if not tr._lost and (owner is None or tr.owner == owner):
                    out.append(tr)
        return out

    def listeners_of(self, owner: str) -> list[SimListener]:
        return [l for l in self.listeners.values() if l.node == owner and l._serving]


# ---------------------------------------------------------------------------
_proxy = None


def _current_net() -> SimNet:
    loop = asyncio.get_running_loop()
    net = getattr(loop, 'simnet', None)
    if net is None:
        raise RuntimeError('no SimNet attached to the running loop')
    return net


async def _open_connection(host=None, port=None, **kw):
    return await _current_net().open_connection(host, port, **kw)


async def _start_server(cb, host=None, port=None, **kw):
    return await _current_net().start_server(cb, host, port, **kw)


def install():
    """Rebind ``asyncio`` inside aioslsk.network.connection to the proxy."""
    global _proxy
    import aioslsk.network.connection as conn_mod
    if _proxy is None:
        _proxy = types.ModuleType('asyncio_simnet_proxy')
        _proxy.__dict__.update({k: v for k, v in asyncio.__dict__.items() if not k.startswith('__')})
        _proxy.open_connection = _open_connection
        _proxy.start_server = _start_server
    conn_mod.asyncio = _proxy  # type: ignore[attr-defined]
