"""Scripted downloaders for scenarios around one real uploading client
(C05 slots/priority, C06 nothing-after-abort, C08 entitlement)."""
from __future__ import annotations

import asyncio
import os
import random
from typing import Any, Callable, Optional

from aioslsk.protocol.messages import (
    PeerPlaceInQueueReply,
    PeerTransferQueue,
    PeerTransferQueueFailed,
    PeerTransferReply,
    PeerTransferRequest,
    PeerUploadFailed,
)

from .parties import PeerLink, SimPeer
from .world import World


class Downloader:
    """Plays the downloading side against the real uploader, honestly unless told otherwise.

    behaviour knobs (per file or default):
      reply:      'allow' | 'reject' | 'silent'          answer to PeerTransferRequest
      reply_lat:  seconds before answering
      hold:       seconds to keep the file connection open before reading (slot stays occupied)
      read:       'all' | 'vanish' (abort after k bytes) | 'never-close'
    """

    def __init__(self, w: World, peer: SimPeer, uploader_name: str, uploader_port: int, rng: random.Random):
        self.w, self.peer, self.up_name, self.up_port, self.rng = w, peer, uploader_name, uploader_port, rng
        self.default = {'reply': 'allow', 'reply_lat': 0.0, 'hold': 0.0, 'read': 'all', 'offset': 0}
        self.per_file: dict[str, dict] = {}
        self.link: Optional[PeerLink] = None
        self.requests: list[tuple[float, Any]] = []          # PeerTransferRequest received
        self.queue_failed: list[tuple[float, Any]] = []
        self.upload_failed: list[tuple[float, Any]] = []
        self.place_replies: list[tuple[float, Any]] = []
        self.tickets: dict[int, str] = {}                    # ticket -> filename (allowed)
        self.sizes: dict[int, Optional[int]] = {}            # ticket -> announced file size
        self.received: dict[str, bytearray] = {}
        self.file_links: list[tuple[float, PeerLink, Optional[str]]] = []
        self.done_files: list[tuple[float, str, int]] = []
        self.online = True
        peer.on_frame = self._on_frame
        peer.on_link = self._on_link

    def beh(self, filename: str) -> dict:
        b = dict(self.default)
        b.update(self.per_file.get(filename, {}))
        return b

    async def connect(self) -> PeerLink:
        if self.link is None or self.link.closed or self.link.writer.is_closing():
            self.link = await self.peer.dial(self.up_port, 'P', host=self.w.net.ip_of(self.up_name))
        return self.link

    async def queue(self, filename: str):
        link = await self.connect()
        link.send(PeerTransferQueue.Request(filename))

    async def request_upload(self, filename: str, ticket: int):
        """PeerTransferRequest with direction upload (0): 'please upload this to me'."""
        link = await self.connect()
        link.send(PeerTransferRequest.Request(0, ticket, filename))

    def _on_frame(self, link: PeerLink, msg):
        now = self.w.now
        if isinstance(msg, PeerTransferRequest.Request) and msg.direction == 1:
            self.requests.append((now, msg))
            b = self.beh(msg.filename)
            if b['reply'] == 'silent' or not self.online:
                return
            self.w.spawn(self.peer.name, self._reply(link, msg, b), name=f'peer-{self.peer.name}-reply')
        elif isinstance(msg, PeerTransferQueueFailed.Request):
            self.queue_failed.append((now, msg))
        elif isinstance(msg, PeerUploadFailed.Request):
            self.upload_failed.append((now, msg))
        elif isinstance(msg, PeerPlaceInQueueReply.Request):
            self.place_replies.append((now, msg))

    async def _reply(self, link: PeerLink, msg, b: dict):
        if b['reply_lat']:
            await asyncio.sleep(b['reply_lat'])
        if b['reply'] == 'reject':
            link.send(PeerTransferReply.Request(msg.ticket, False, reason='Cancelled'))
            return
        self.tickets[msg.ticket] = msg.filename
        self.sizes[msg.ticket] = msg.filesize
        link.send(PeerTransferReply.Request(msg.ticket, True))

    async def _on_link(self, link: PeerLink):
        if link.typ != 'F':
            return
        tick = await link.read_exactly(4)
        if tick is None:
            self.file_links.append((self.w.now, link, None))
            return
        ticket = int.from_bytes(tick, 'little')
        filename = self.tickets.get(ticket)
        self.file_links.append((self.w.now, link, filename))
        link.tags['filename'] = filename
        if filename is None:
            link.close()
            return
        b = self.beh(filename)
        link.send_raw(int(b['offset']).to_bytes(8, 'little'))
        buf = self.received.setdefault(filename, bytearray())
        if b['hold']:
            link.stop_reading()
            await asyncio.sleep(b['hold'])
            link.writer.transport.resume_reading()
        if b['read'] == 'vanish':
            k = self.rng.randint(0, 2000)
            while len(buf) < k:
                data = await link.read_some(1024)
                if data is None:
                    break
                buf.extend(data)
            link.abort()
            return
        size = b.get('size', self.sizes.get(ticket))
        got = 0
        while not (size is not None and got >= size - int(b['offset'])):
            data = await link.read_some(65536)
            if data is None:
                break
            buf.extend(data)
            got += len(data)
        if b['read'] == 'never-close':
            return
        self.done_files.append((self.w.now, filename, len(buf)))
        link.close()


def make_share(w: World, n_files: int, rng: random.Random, size_range=(200, 3000)) -> tuple[str, dict[str, bytes]]:
    share = os.path.join(w.tmp, 'upshare')
    os.makedirs(share, exist_ok=True)
    files = {}
    for k in range(n_files):
        name = f'track{k:02d}.mp3'
        data = random.Random(f'{rng.random()}').randbytes(rng.randint(*size_range))
        with open(os.path.join(share, name), 'wb') as fh:
            fh.write(data)
        files[name] = data
    return share, files


def remote_paths(client) -> dict[str, str]:
    """file name -> remote path, from the real index."""
    out = {}
    for d in client.shares.shared_directories:
        for item in d.items:
            out[item.filename] = item.get_remote_path()
    return out


class Uploader:
    """Plays the uploading side against the real downloading client (honest, optionally slow)."""

    def __init__(self, w: World, peer: SimPeer, client_name: str, client_port: int, rng: random.Random,
                 files: dict[str, bytes]):
        self.w, self.peer, self.client_name, self.client_port, self.rng, self.files = w, peer, client_name, client_port, rng, files
        self.offer_lat = 0.05          # delay between the queue request and our PeerTransferRequest
        self.chunk = 2048
        self.chunk_gap = 0.05          # seconds between chunks (slow sender keeps the transfer in flight)
        self.queue_requests: list[tuple[float, str]] = []
        self.replies: list[tuple[float, Any]] = []
        self.ticket = 5000
        self.active = True
        self.reset_first = 0           # the first k file connections are reset right after the offset (0 bytes sent)
        self.retry_offer_lat = None    # offer latency of later attempts (None: same as offer_lat)
        self.attempts: dict[str, int] = {}
        peer.on_frame = self._on_frame

    def _on_frame(self, link: PeerLink, msg):
        if isinstance(msg, PeerTransferQueue.Request):
            self.queue_requests.append((self.w.now, msg.filename))
            if self.active and msg.filename in self.files:
                self.w.spawn(self.peer.name, self._serve(link, msg.filename), name=f'peer-{self.peer.name}-serve')
        elif isinstance(msg, PeerTransferReply.Request):
            self.replies.append((self.w.now, msg))

    async def _serve(self, link: PeerLink, filename: str):
        n_attempt = self.attempts.get(filename, 0)
        self.attempts[filename] = n_attempt + 1
        await asyncio.sleep(self.offer_lat if n_attempt == 0 or self.retry_offer_lat is None else self.retry_offer_lat)
        self.ticket += 1
        ticket = self.ticket
        data = self.files[filename]
        if link is None or link.closed or link.writer.is_closing():
            try:
                link = await self.peer.dial(self.client_port, 'P', host=self.w.net.ip_of(self.client_name))
            except (ConnectionError, OSError):
                return
        if getattr(self, 'before_offer', None):
            self.before_offer()
        link.send(PeerTransferRequest.Request(1, ticket, filename, filesize=len(data)))
        for _ in range(600):
            await asyncio.sleep(0.05)
            rep = [m for _, m in self.replies if m.ticket == ticket]
            if rep:
                break
        else:
            return
        if not rep[0].allowed:
            return
        try:
            f = await self.peer.dial(self.client_port, 'F', host=self.w.net.ip_of(self.client_name))
        except (ConnectionError, OSError):
            return
        f.send_raw(ticket.to_bytes(4, 'little'))
        off = await f.read_exactly(8)
        if off is None:
            return
        pos = int.from_bytes(off, 'little')
        if n_attempt < self.reset_first:
            f.abort()                  # connection reset before the first byte of the file
            return
        while pos < len(data):
            if f.writer.is_closing() or f.writer.transport._lost:
                return
            f.send_raw(data[pos:pos + self.chunk])
            pos += self.chunk
            await asyncio.sleep(self.chunk_gap)
        await f.read_some()
        f.close()
