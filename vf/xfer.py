"""Two-client transfer scenarios shared by C03 (passive), C04, C17, C20.

Everything here is harness: it builds worlds, classifies simulated connections
by what the dialer wrote first, and records per-file-connection accounting
(ticket / offset / payload) from the taps.
"""
from __future__ import annotations

import asyncio
import os
import random
from typing import Any, Callable, Optional

from aioslsk.protocol import obfuscation

from . import runner
from .monitors import ConnMonitor, TransferMonitor, safety_net_violations
from .simloop import settle
from .simnet import ConnPlan, SimConn, SimTransport
from .world import World, run_world


def make_source(seed: Any, size: int) -> bytes:
    """Position-dependent pseudo-random content."""
    return random.Random(f'src:{seed}:{size}').randbytes(size)


class FileConn:
    """Accounting of one file (F) connection."""

    def __init__(self, conn: SimConn, init: str, dialer: str):
        self.conn, self.init, self.dialer = conn, init, dialer
        self.uploader_side: Optional[str] = None     # 'a' or 'b'
        self.prefix = {'a2b': 0, 'b2a': 0}            # non-payload bytes per direction (init frame, ticket, offset)
        self.ticket: Optional[int] = None
        self.offset: Optional[int] = None
        self.offset_local_size: Optional[int] = None  # size of the local file when the offset was written
        self.index = 0

    @property
    def payload_dir(self) -> Optional[str]:
        if self.uploader_side is None:
            return None
        return 'a2b' if self.uploader_side == 'a' else 'b2a'

    def payload(self, delivered: bool = True) -> bytes:
        d = self.payload_dir
        if d is None:
            return b''
        return self.conn.stream(d, delivered=delivered)[self.prefix[d]:]


class Classifier:
    """Tags every SimConn with what it is, from the first bytes its dialer wrote."""

    def __init__(self, world: World):
        self.world = world
        self.file_conns: list[FileConn] = []
        self.by_conn: dict[int, FileConn] = {}
        self.on_file_conn: Optional[Callable[[FileConn], None]] = None
        self.on_offset: Optional[Callable[[FileConn], None]] = None
        self._seen_first: set[int] = set()
        self.pierce_types: dict[int, str] = {}       # ticket -> typ, from ConnectToPeer requests at the server
        world.net.on_write = self._on_write
        self.local_size_of: Optional[Callable[[FileConn], Optional[int]]] = None

    def _obf_port(self, port: int) -> bool:
        for h in self.world.clients.values():
            if h.obf_port and h.obf_port == port:
                return True
        for p in self.world.peers.values():
            if p.obf_port and p.obf_port == port:
                return True
        return False

    def _on_write(self, tr: SimTransport, data: bytes):
        conn = tr.conn
        if conn.port == self.world.server.port:
            conn.tags.setdefault('typ', 'S')
            return
        if tr.side == 'a' and conn.id not in self._seen_first:
            self._seen_first.add(conn.id)
            self._classify(conn, data)
        fc = self.by_conn.get(conn.id)
        if fc is not None:
            self._account(fc, tr, data)

    def _classify(self, conn: SimConn, data: bytes):
        raw = data
        if self._obf_port(conn.port):
            conn.tags['obfuscated'] = True
            try:
                raw = obfuscation.decode(data)
            except Exception:  # noqa
                raw = data
        conn.tags['init_len'] = len(data)
        try:
            code = raw[4]
            if code == 1:
                n = int.from_bytes(raw[5:9], 'little')
                user = raw[9:9 + n].decode('utf-8', 'replace')
                p = 9 + n
                m = int.from_bytes(raw[p:p + 4], 'little')
                typ = raw[p + 4:p + 4 + m].decode('utf-8', 'replace')
                conn.tags.update(init='peerinit', typ=typ, user=user)
            elif code == 0:
                ticket = int.from_bytes(raw[5:9], 'little')
                typ = self._pierce_type(ticket, conn)
                conn.tags.update(init='pierce', typ=typ, ticket=ticket)
            else:
                conn.tags.update(init='other', typ='?')
        except Exception:  # noqa
            conn.tags.update(init='garbage', typ='?')
        if conn.tags.get('typ') == 'F':
            fc = FileConn(conn, conn.tags['init'], conn.src)
            fc.index = len(self.file_conns)
            fc.prefix['a2b'] = len(data)      # the init frame
            # direct (PeerInit F): the dialer is the uploader; pierce: the dialer is the downloader
            fc.uploader_side = 'a' if conn.tags['init'] == 'peerinit' else 'b'
            self.file_conns.append(fc)
            self.by_conn[conn.id] = fc
            fc._first = True
            if self.on_file_conn is not None:
                self.on_file_conn(fc)

    def _pierce_type(self, ticket: int, conn: Optional[SimConn] = None) -> str:
        """A pierce-firewall connection dialed by X to Y answers Y's
        ConnectToPeer.Request(ticket, username=X); tickets are per-client
        counters, so the pair (requester, target) is part of the key."""
        from aioslsk.protocol.messages import ConnectToPeer
        for _, user, m in reversed(self.world.server.frames):
            if isinstance(m, ConnectToPeer.Request) and m.ticket == ticket:
                if conn is None or (user == conn.dst and m.username == conn.src):
                    return m.typ
        return self.pierce_types.get(ticket, '?')

    def _account(self, fc: FileConn, tr: SimTransport, data: bytes):
        if getattr(fc, '_first', False) and tr.side == 'a':
            fc._first = False      # the init frame itself
            return
        up = fc.uploader_side
        if tr.side == up:
            # uploader -> downloader: ticket (4 bytes) then payload
            if fc.ticket is None and len(data) >= 4:
                fc.ticket = int.from_bytes(data[:4], 'little')
                fc.prefix[tr.dir] += 4
        else:
            # downloader -> uploader: offset (8 bytes)
            if fc.offset is None and len(data) >= 8:
                fc.offset = int.from_bytes(data[:8], 'little')
                fc.prefix[tr.dir] += 8
                if self.local_size_of is not None:
                    fc.offset_local_size = self.local_size_of(fc)
                if self.on_offset is not None:
                    self.on_offset(fc)


class Pair:
    """An uploader client, a downloader client, shared files."""

    def __init__(self, w: World):
        self.w = w
        self.up = None
        self.dn = None
        self.sources: dict[str, bytes] = {}       # remote path -> content
        self.local_names: dict[str, str] = {}
        self.cls: Optional[Classifier] = None
        self.share_dir = ''


async def setup_pair(w: World, files: dict[str, bytes], *, up_kw: Optional[dict] = None,
                     dn_kw: Optional[dict] = None, up_name='up', dn_name='dn', scan: bool = True,
                     transfer_cache_up=None, transfer_cache_dn=None) -> Pair:
    pair = Pair(w)
    if w.server is None:
        await w.start_server()
    pair.cls = Classifier(w)
    share = os.path.join(w.tmp, 'upshare')
    os.makedirs(share, exist_ok=True)
    pair.share_dir = share
    for name, data in files.items():
        path = os.path.join(share, name)
        os.makedirs(os.path.dirname(path), exist_ok=True)
        with open(path, 'wb') as fh:
            fh.write(data)
    up_settings = w.make_settings(up_name, shared=[share], **(up_kw or {}))
    pair.up = await w.add_client(up_name, up_settings, scan=scan, transfer_cache=transfer_cache_up)
    dn_settings = w.make_settings(dn_name, **(dn_kw or {}))
    pair.dn = await w.add_client(dn_name, dn_settings, transfer_cache=transfer_cache_dn)
    for item in pair.up.client.shares.shared_directories[0].items:
        rel = os.path.join(item.subdir, item.filename) if item.subdir else item.filename
        pair.sources[item.get_remote_path()] = files[rel]
        pair.local_names[item.get_remote_path()] = rel
    await settle(0.3)
    return pair


def state_name(transfer) -> str:
    return transfer.state.VALUE.name


async def wait_until(pred: Callable[[], bool], timeout: float, step: float = 0.5) -> bool:
    """Virtual-time polling (the verdicts that use it are bounded-progress rules)."""
    loop = asyncio.get_running_loop()
    end = loop.time() + timeout
    while loop.time() < end:
        if pred():
            return True
        await asyncio.sleep(step)
    return pred()


# ---------------------------------------------------------------------------
# C20 end-to-end

def run_limited_transfers(res: dict, params: dict, check_bound):
    rng = random.Random(f"{params['seed']}:C20:T:{params['i']}")
    which = rng.choice(['upload', 'download', 'both'])
    n_files = rng.randint(1, 3)
    sizes = [rng.randint(20, 120) * 1024 + rng.choice([0, 1, 77]) for _ in range(n_files)]
    up_limit = rng.choice([1, 2, 4, 16, 64]) if which in ('upload', 'both') else 0
    dn_limit = rng.choice([1, 2, 4, 16, 64]) if which in ('download', 'both') else 0
    change = rng.choice([None, None, 'raise', 'lower', 'unlimited'])
    # keep the virtual horizon reasonable: at 1 KiB/s 100 KiB take 100 s (fine: virtual)
    from aioslsk.settings import NetworkLimitSettings, NetworkSettings  # noqa
    tm = TransferMonitor()
    events: dict = {'up_writes': [], 'dn_reads': [], 'changes': []}

    async def main(w: World):
        await w.start_server()
        files = {f'f{k}.bin': make_source((params['seed'], params['i'], k), sizes[k]) for k in range(n_files)}
        pair = await setup_pair(w, files)
        up, dn = pair.up, pair.dn
        upc, dnc = up.client, dn.client
        upc.settings.transfers.limits.upload_slots = n_files
        if up_limit:
            upc.network.set_upload_speed_limit(up_limit)
        if dn_limit:
            dnc.network.set_download_speed_limit(dn_limit)
        # the file connection may have to be made indirectly (the uploader's direct connects are refused, the
        # downloader pierces): every way a connection comes about has to put it under the limit in force
        prng = random.Random(f"{params['seed']}:C20:T:path:{params['i']}")
        if prng.random() < 0.4:
            from .simnet import ConnPlan as _CP

            def planner(node, host, port, attempt):
                plan = _CP(latency=prng.uniform(0.001, 0.02))
                if node == 'up' and port in (dn.port, dn.obf_port):
                    plan.connect = 'refuse'
                return plan
            w.net.planner = planner
            runner.add_obs(res, 'e2e_runs_with_indirect_file_connections')
        t_start = w.loop.time()
        events['changes'].append(('up', 0, t_start, up_limit * 1024))
        events['changes'].append(('dn', 0, t_start, dn_limit * 1024))
        seq = [0]
        keep: list = []     # keeps limiter objects alive so that id() stays unique

        # observation points: payload bytes written by the uploader on file
        # connections (tap), bytes handed to the downloader by receive_data (hook)
        def on_write(tr, data):
            pair.cls._on_write(tr, data)
        w.net.on_write = on_write
        import aioslsk.network.connection as cm
        orig_receive_data = cm.PeerConnection.receive_data
        orig_send_data = cm.PeerConnection.send_data

        # which limiter object served the calling task last, and when that call started: a call that is in
        # flight when the limit changes is served by the limiter it started on
        import aioslsk.network.rate_limiter as rl
        last_grant: dict = {}
        orig_take = {}

        def wrap_take(cls):
            orig = orig_take[cls] = cls.take_tokens

            async def take_tokens(self):
                seq0 = seq[0]
                n = await orig(self)
                last_grant[asyncio.current_task()] = (self, seq0)
                return n
            cls.take_tokens = take_tokens
        for cls in (rl.LimitedRateLimiter, rl.UnlimitedRateLimiter):
            wrap_take(cls)

        def granted_by(conn_limiter):
            lim, seq0 = last_grant.get(asyncio.current_task(), (conn_limiter, seq[0]))
            return lim, seq0

        async def receive_data(self, n_bytes):
            lim, seq0 = granted_by(self.download_rate_limiter)
            data = await orig_receive_data(self, n_bytes)
            if data and self.network is dnc.network:
                seq[0] += 1
                keep.append(lim)
                events['dn_reads'].append((seq[0], w.loop.time(), len(data), id(lim), lim.limit_bps, seq0))
            return data

        async def send_data(self, data):
            if self.network is upc.network:
                lim, seq0 = granted_by(self.upload_rate_limiter)
                seq[0] += 1
                keep.append(lim)
                events['up_writes'].append((seq[0], w.loop.time(), len(data), id(lim), lim.limit_bps, seq0))
            return await orig_send_data(self, data)

        cm.PeerConnection.receive_data = receive_data
        cm.PeerConnection.send_data = send_data
        try:
            transfers = []
            for rp in pair.sources:
                transfers.append(await dn.call(dnc.transfers.download('up', rp)))

            async def changer():
                if change is None:
                    return
                await asyncio.sleep(rng.choice([0.5, 2.0, 5.0]))
                for side, cur, client in (('up', up_limit, upc), ('dn', dn_limit, dnc)):
                    if not cur:
                        continue
                    new = {'raise': cur * 4, 'lower': max(1, cur // 2), 'unlimited': 0}[change]
                    seq[0] += 1
                    if side == 'up':
                        client.network.set_upload_speed_limit(new)
                    else:
                        client.network.set_download_speed_limit(new)
                    events['changes'].append((side, seq[0], w.loop.time(), new * 1024))
            ch = w.spawn('harness', changer())
            ok = await wait_until(lambda: all(state_name(t) == 'COMPLETE' for t in transfers), 7200.0, step=1.0)
            await ch
            await settle(1.0)
            intact = all(
                t.local_path and os.path.exists(t.local_path) and
                open(t.local_path, 'rb').read() == pair.sources[t.remote_path] for t in transfers) if ok else False
            result = {'completed': ok, 'intact': intact, 'virtual_s': round(w.now, 2),
                      'states': [state_name(t) for t in transfers]}
        finally:
            cm.PeerConnection.receive_data = orig_receive_data
            cm.PeerConnection.send_data = orig_send_data
            for cls, orig in orig_take.items():
                cls.take_tokens = orig
        await w.stop_clients()
        return result

    out = run_world(f"{params['seed']}:C20:T:{params['i']}", main, wall_timeout=120, monitors=[tm])
    tm.deactivate()
    if out.inconclusive:
        res['inconclusive'] = out.inconclusive
        return
    r = out.result
    for side, key in (('up', 'up_writes'), ('dn', 'dn_reads')):
        grants = events[key]
        changes = [(s, t, l) for sd, s, t, l in events['changes'] if sd == side]
        # a chunk moved without any limiter although a limit was configured when its call started
        for g in grants:
            conf = [c for c in changes if c[0] <= g[5]] if len(g) > 5 else []
            if conf and conf[-1][2] > 0 and g[4] == 0 and (len(changes) == 1 or g[5] > changes[-1][0]):
                runner.violation(res, f"unlimited-limiter-used-while-a-limit-is-configured:{'upload' if side == 'up' else 'download'}",
                                 configured_bps=conf[-1][2], t=round(g[1] - 1000.0, 4), chunk=g[2])
                break
        label = 'e2e-upload' if side == 'up' else 'e2e-download'
        check_bound(res, grants, changes, label, inflight_bytes=128 * n_files)
        runner.add_obs(res, 'grants_judged', sum(1 for g in grants if g[4] > 0))
        runner.add_obs(res, 'e2e_chunks', len(grants))
    if not r['completed']:
        runner.violation(res, 'stall:e2e-transfer-not-complete', **r, up_limit=up_limit, dn_limit=dn_limit, sizes=sizes)
    elif not r['intact']:
        runner.violation(res, 'e2e-transfer-corrupt', **r)
    for sig, detail in safety_net_violations(out):
        runner.violation(res, 'safety:' + sig, **detail)
    tm.report(res)
    if sum(1 for g in events['up_writes'] + events['dn_reads'] if g[4] > 0) >= 50:
        res['csigs'].append(f"T|{which}|{up_limit}|{dn_limit}|{n_files}|{change}")
    res['sample'] = {'kind': 'transfer', 'limits_kbps': [up_limit, dn_limit], 'sizes': sizes, 'change': change, **r,
                     'chunks': [len(events['up_writes']), len(events['dn_reads'])]}
