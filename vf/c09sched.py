"""C09 workload B: interleavings of 2-3 downloads of equally named files."""
from __future__ import annotations

import asyncio
import os
import random

from . import runner
from .monitors import TransferMonitor, safety_net_violations
from .simloop import settle
from .simnet import ConnPlan
from .uploads import Uploader
from .world import World, run_world
from .xfer import state_name, wait_until


def run_schedule(params: dict) -> dict:
    res = runner.new_result(params['case'])
    seed = params['seed']
    rng = random.Random(f"{seed}:C09:sched:{params['i']}")
    n = rng.choice([2, 2, 3])
    exec_delay = rng.choice([0.0, 0.01, 0.03])
    same_instant = rng.random() < 0.6
    pre_existing = rng.random() < 0.3
    chains = rng.choice(['default', 'default', 'keepdir'])
    # history variant: the first download's file connection is reset before the first byte (it goes INCOMPLETE with
    # an empty local file and keeps its path), the next equally named download starts meanwhile, then the first
    # one is retried
    hrng = random.Random(f"{seed}:C09:sched:hist:{params['i']}")
    history = hrng.random() < 0.3
    tm = TransferMonitor()
    viol: list = []
    obs = {'schedule_runs': 0, 'open_intervals': 0, 'path_choices': 0, 'complete_compares': 0, 'overlap_checks': 0}
    trace: list = []

    async def main(w: World):
        from aioslsk.naming import DefaultNamingStrategy, KeepDirectoryStrategy, NumberDuplicateStrategy
        import aioslsk.transfer.manager as tmod
        await w.start_server()
        dn = await w.add_client('dn')
        if chains == 'keepdir':
            dn.client.shares.naming_strategies = [DefaultNamingStrategy(), KeepDirectoryStrategy(), NumberDuplicateStrategy()]
        dl_dir = dn.client.shares.get_download_directory()
        if pre_existing:
            os.makedirs(os.path.join(dl_dir, 'album') if chains == 'keepdir' else dl_dir, exist_ok=True)
            with open(os.path.join(dl_dir, 'album', 'same.mp3') if chains == 'keepdir' else os.path.join(dl_dir, 'same.mp3'), 'wb') as fh:
                fh.write(b'already here')
        contents = {}
        ups = []
        for k in range(n):
            peer = await w.add_peer(f'u{k}')
            data = random.Random(f'{seed}:{params["i"]}:{k}').randbytes(rng.choice([3000, 9000, 20000]))
            path = f'@@share{k}\\album\\same.mp3'
            contents[f'u{k}'] = (path, data)
            up = Uploader(w, peer, 'dn', dn.port, rng, {path: data})
            up.offer_lat = 0.0 if same_instant else rng.choice([0.0, 0.01, 0.05, 0.2])
            up.chunk_gap = rng.choice([0.0, 0.01, 0.05])
            if history and k == 0:
                up.reset_first = hrng.choice([1, 1, 2])
                up.retry_offer_lat = hrng.choice([0.5, 1.0, 2.0])
            ups.append(up)
        lat = rng.choice([0.0, 0.005]) if same_instant else None
        w.net.planner = lambda node, host, port, attempt: ConnPlan(
            latency=lat if lat is not None else rng.uniform(0.001, 0.05),
            seg_lat=(0.0, 0.0) if same_instant else (0.0005, 0.004))

        # monitor: open/close intervals of files opened for writing by the transfer manager
        open_now: dict[str, list] = {}
        orig_open = tmod.aiofiles.open

        class Tracked:
            def __init__(self, cm, path, mode):
                self.cm, self.path, self.mode = cm, path, mode

            async def __aenter__(self):
                h = await self.cm.__aenter__()
                if 'a' in self.mode or 'w' in self.mode:
                    rp = os.path.realpath(self.path)
                    obs['open_intervals'] += 1
                    others = open_now.setdefault(rp, [])
                    if others:
                        viol.append(('two-downloads-write-one-file', {'t': round(w.now, 4), 'open_already': len(others)}))
                    others.append(self)
                    trace.append((round(w.now, 4), 'open', os.path.basename(rp)))
                return h

            async def __aexit__(self, *exc):
                rp = os.path.realpath(self.path)
                if self in open_now.get(rp, []):
                    open_now[rp].remove(self)
                    trace.append((round(w.now, 4), 'close', os.path.basename(rp)))
                return await self.cm.__aexit__(*exc)

        def tracked_open(path, mode='r', *a, **kw):
            return Tracked(orig_open(path, mode, *a, **kw), path, mode)

        import types
        proxy = types.ModuleType('aiofiles_proxy')
        proxy.__dict__.update({k: v for k, v in tmod.aiofiles.__dict__.items() if not k.startswith('__')})
        proxy.open = tracked_open
        saved = tmod.aiofiles
        tmod.aiofiles = proxy
        try:
            transfers = []
            for k in range(n):
                path, _ = contents[f'u{k}']
                if history and k == 1:
                    await asyncio.sleep(hrng.choice([0.2, 0.4, 0.8]))       # the first download has failed by now
                transfers.append(await dn.call(dn.client.transfers.download(f'u{k}', path)))
            if history:
                runner.add_obs(res, 'schedule_histories_with_a_reset_before_the_first_byte')

            def on_edge(transfer, old, new):
                if not transfer.is_download():
                    return
                trace.append((round(w.now, 4), transfer.username, old[:4], new[:4], os.path.basename(transfer.local_path or '-')))
                if new in ('DOWNLOADING',):
                    obs['path_choices'] += 1
                    obs['overlap_checks'] += 1
                    active = [t for t in transfers if t is not transfer and t.local_path and
                              state_name(t) in ('INITIALIZING', 'DOWNLOADING') and
                              os.path.realpath(t.local_path) == os.path.realpath(transfer.local_path)]
                    if active:
                        viol.append(('same-local-path-for-two-active-downloads',
                                     {'t': round(w.now, 4), 'path': os.path.basename(transfer.local_path), 'n': len(active) + 1}))
                if new == 'COMPLETE':
                    obs['complete_compares'] += 1
                    _, data = contents[transfer.username]
                    got = open(transfer.local_path, 'rb').read() if transfer.local_path and os.path.exists(transfer.local_path) else None
                    if got != data:
                        viol.append(('complete-file-is-not-its-source',
                                     {'t': round(w.now, 4), 'len': None if got is None else len(got), 'want': len(data)}))
            tm.edge_hooks.append(on_edge)
            await wait_until(lambda: all(state_name(t) in ('COMPLETE', 'FAILED') for t in transfers), 400.0, step=0.5)
            await settle(1.0)
            obs['schedule_runs'] += 1
            final = {'states': [state_name(t) for t in transfers],
                     'paths': [os.path.relpath(t.local_path, dl_dir) if t.local_path else None for t in transfers]}
            paths = [p for p in final['paths'] if p]
            if len(set(paths)) != len(paths):
                viol.append(('two-downloads-share-a-local-path-at-the-end', {'paths': final['paths']}))
            if pre_existing:
                pe = os.path.join(dl_dir, 'album', 'same.mp3') if chains == 'keepdir' else os.path.join(dl_dir, 'same.mp3')
                if open(pe, 'rb').read() != b'already here':
                    viol.append(('pre-existing-file-clobbered', {}))
        finally:
            tmod.aiofiles = saved
            tm.edge_hooks.clear()
        await w.stop_clients()
        return final

    out = run_world(f'{seed}:C09:sched:{params["i"]}', main, wall_timeout=120, exec_delay=exec_delay, monitors=[tm])
    tm.deactivate()
    if out.inconclusive:
        res['inconclusive'] = out.inconclusive
        return res
    seen = set()
    for sig, detail in viol:
        if sig in seen:
            continue
        seen.add(sig)
        runner.violation(res, 'schedule:' + sig, **detail, trace=trace[:40])
    for sig, detail in safety_net_violations(out):
        runner.violation(res, 'safety:' + sig, **detail)
    for k, v in obs.items():
        runner.add_obs(res, k, v)
    order = [e[1:4] for e in trace if len(e) >= 4 and e[3] in ('DOWN', 'COMP')][:12] + [e[1] for e in trace if e[1] in ('open', 'close')][:8]
    if obs['path_choices'] >= 2:
        res['csigs'].append(f"sched|{n}|{chains}|{pre_existing}|{same_instant}|{exec_delay}|{history}|{order}")
    res['sample'] = {'kind': 'schedule', 'n': n, 'chains': chains, 'pre_existing': pre_existing,
                     'same_instant': same_instant, 'exec_delay': exec_delay, 'final': out.result, 'trace': trace[:30]}
    return res
