"""Runtime-monitoring framework for aioslsk (see /verif/DESIGN.md)."""
import os
import sys

# third-party helpers (icontract, jsonschema) live in the git-ignored .deps;
# appended (not prepended) so that they never shadow the repository's own
# dependencies in /venv.
_deps = os.path.join(os.path.dirname(os.path.dirname(os.path.abspath(__file__))), '.deps')
if os.path.isdir(_deps) and _deps not in sys.path:
    sys.path.append(_deps)
