"""Scenarios shared by C10 (connection life cycle / registry) and C11 (peer
connection establishment): one real logged-in client against a scripted peer."""
from __future__ import annotations

import asyncio
import random
from typing import Any, Optional

from . import runner
from .monitors import ConnMonitor, safety_net_violations
from .simloop import settle, yields
from .simnet import ConnPlan
from .world import World, run_world

class _Hang(Exception):
    pass


DIRECT = ['fast', 'slow', 'refused', 'hang', 'init-fail', 'no-address']
INDIRECT = ['pierce-fast', 'pierce-slow', 'cannot', 'nothing', 'server-down', 'server-reconnecting']

_creator_hook = False
_registry_checks = [0]
_creators: dict = {}


def install_creator_hook():
    """Remember which task created each PeerConnection (registry rule of C10)."""
    global _creator_hook
    if _creator_hook:
        return
    import aioslsk.network.connection as cm
    orig = cm.PeerConnection.__init__

    def __init__(self, *a, **kw):
        orig(self, *a, **kw)
        try:
            _creators[id(self)] = (self, asyncio.current_task())
        except RuntimeError:
            _creators[id(self)] = (self, None)
    cm.PeerConnection.__init__ = __init__
    _creator_hook = True


def registry_check(w: World, handle, viol: list, label: str, cm=None) -> int:
    """At a quiescent moment: registry == connections that are open or being
    opened by a still-running attempt (ground truth: SimNet endpoints)."""
    net = handle.client.network
    _registry_checks[0] += 1
    registered = list(net.peer_connections)
    open_trs = [tr for tr in w.net.open_transports(owner=handle.name) if tr.conn.port != w.server.port]
    reg_trs = {}
    for c in registered:
        wr = c._writer
        if wr is not None:
            reg_trs[id(wr.transport)] = c
    n = 0
    for tr in open_trs:
        n += 1
        if id(tr) not in reg_trs:
            # an endpoint that is open although no registered connection owns it
            if tr._closing:
                continue            # close() in progress (FIN not yet confirmed): not a leak
            viol.append((f'registry:leaked-open-endpoint:{label}',
                         {'conn': tr.conn.id, 'side': tr.side, 'port': tr.conn.port, 'tags': dict(tr.conn.tags)}))
    for c in registered:
        n += 1
        st = c.state.name
        wr = c._writer
        alive = wr is not None and not wr.transport._lost
        if st == 'CONNECTED' and alive:
            continue
        ent = _creators.get(id(c))
        task = ent[1] if ent else None
        if st in ('UNINITIALIZED', 'CONNECTING', 'CONNECTED', 'CLOSING') and task is not None and not task.done():
            continue            # still being opened / closed by a running task
        viol.append((f'registry:stale-entry:{st}:{label}',
                     {'incoming': c.incoming, 'typ': c.connection_type, 'transport_alive': alive,
                      'creator_task_done': None if task is None else task.done()}))
    if cm is not None:
        # the other direction: a peer connection that was reported CONNECTING / CONNECTED and not yet closing
        # is open or being opened - it has to be in the registry
        reg_ids = {id(c) for c in registered}
        for cid, stream in cm.streams.items():
            conn = cm.conns.get(cid)
            if conn is None or not cm.kind(conn).startswith('peer') or getattr(conn, 'network', None) is not net:
                continue
            last = stream[-1][1]
            n += 1
            if last in ('CONNECTING', 'CONNECTED') and cid not in reg_ids:
                viol.append((f'registry:missing-entry:{last}:{label}',
                             {'incoming': conn.incoming, 'typ': conn.connection_type, 'states': [s_[1] for s_ in stream]}))
    return n


# ---------------------------------------------------------------------------
# C11: connecting to a peer

def c11_params(rng: random.Random, cell: Optional[dict] = None) -> dict:
    p = {
        'mode': rng.choice(['race', 'fallback']),
        'direct': rng.choice(DIRECT),
        'indirect': rng.choice(INDIRECT),
        'ports': rng.choice(['clear', 'obf', 'both']),
        'prefer_obf': rng.random() < 0.5,
        'typ': rng.choice(['P', 'F', 'D']),
        'cancel': rng.choice([None, None, None, 'steps', 'time']),
    }
    if cell:
        p.update(cell)
    p['d_lat'] = {'fast': rng.uniform(0.001, 0.05), 'slow': rng.uniform(3.0, 9.5)}.get(p['direct'], rng.uniform(0.001, 0.05))
    p['i_lat'] = {'pierce-fast': rng.uniform(0.001, 0.08), 'pierce-slow': rng.uniform(20.0, 55.0),
                  'cannot': rng.choice([0.01, 5.0, 30.0])}.get(p['indirect'], 0.01)
    # place the two outcomes within one loop step of each other now and then
    if p['direct'] == 'fast' and p['indirect'] == 'pierce-fast' and rng.random() < 0.3:
        p['i_lat'] = p['d_lat']
    p['cancel_k'] = rng.randint(0, 14)
    p['cancel_t'] = rng.choice([0.001, 0.01, 0.05, 1.0, 5.0, 9.99, 10.0, 10.01, 30.0, 59.9, 60.0, 60.1])
    # the scripted server leaves the optional obfuscated-port fields out of its answers when there is no such port
    xr = random.Random(repr(sorted((k, str(v)) for k, v in p.items())))
    p['omit_obf_fields'] = xr.random() < 0.4
    # which ports the client itself listens on (a peer can pierce through either) and, for a piercing peer, how long
    # after connecting it sends its PeerPierceFirewall message (anything within the 60 s the request waits is fine)
    p['my_listen'] = xr.choice(['both', 'both', 'both', 'both', 'obf-only', 'clear-only'])
    p['pierce_init_delay'] = xr.choice([0.0, 0.0, 0.0, 2.0, 6.0, 20.0, 45.0]) if p['indirect'] == 'pierce-fast' else 0.0
    # the peer pierces twice with the same ticket (two connections, same instant or a few ms apart)
    p['dup_pierce'] = xr.choice([None, None, None, None, 0.0, 0.0, 0.002]) if p['indirect'] in ('pierce-fast', 'pierce-slow') else None
    p['also_pierce'] = None
    # how far into the reconnect attempt the request is made
    p['reconnect_phase'] = xr.choice([0.0, 0.0, 0.5, 3.0]) if p['indirect'] == 'server-reconnecting' else 0.0
    for k in ('dup_pierce', 'my_listen', 'pierce_init_delay', 'omit_obf_fields', 'also_pierce'):
        if cell and k in cell:
            p[k] = cell[k]
    return p


def run_c11_case(res: dict, params: dict, seed: Any, judge_c10: bool = False, judge_c11: bool = True):
    install_creator_hook()
    cm = ConnMonitor()
    viol: list = []
    obs = {'requests': 0, 'usable_checks': 0, 'residue_checks': 0, 'registry_items': 0}
    p = params

    async def main(w: World):
        from aioslsk.exceptions import PeerConnectionError
        from aioslsk.network.connection import ConnectionState, PeerConnectionState
        from aioslsk.network.network import PeerConnectMode
        from aioslsk.protocol.messages import (
            CannotConnect, ConnectToPeer, DistributedPing, GetPeerAddress, PeerUserInfoRequest)
        from aioslsk.settings import PeerSettings
        await w.start_server()
        w.server.omit_obfuscated_fields = bool(p.get('omit_obf_fields'))
        my_listen = p.get('my_listen', 'both')
        if my_listen == 'both':
            st = w.make_settings('me')
            # the watchdog that reconnects to the server is armed when the server connection comes up
            st.network.server.reconnect.auto = p['indirect'] == 'server-reconnecting'
            me = await w.add_client('me', st)
        else:
            from aioslsk.settings import ListeningSettings, NetworkSettings, ServerSettings, UpnpSettings
            cport, oport = w.alloc_ports()
            net_settings = NetworkSettings(
                server=ServerSettings(hostname='srv', port=w.server.port),
                listening=ListeningSettings(error_mode='any', port=cport if my_listen == 'clear-only' else 0,
                                            obfuscated_port=oport if my_listen == 'obf-only' else 0),
                upnp=UpnpSettings(enabled=False))
            net_settings.server.reconnect.auto = p['indirect'] == 'server-reconnecting'
            me = await w.add_client('me', w.make_settings('me', port=cport, obf_port=oport, network=net_settings))
        me.client.settings.network.peer.connect_mode = PeerConnectMode.RACE if p['mode'] == 'race' else PeerConnectMode.FALLBACK
        me.client.settings.network.peer.obfuscate = p['prefer_obf']
        bob = await w.add_peer('bob', clear=p['ports'] in ('clear', 'both'), obf=p['ports'] in ('obf', 'both'))
        await settle(0.5)
        net = me.client.network
        bob_ports = {x for x in (bob.port, bob.obf_port) if x}
        state = {'ctp': None, 'pierce_accepting': asyncio.Event(), 'direct_connected': asyncio.Event(),
                 'server_lost': False}
        if p.get('rendezvous'):
            # rendezvous of the two paths at a known phase, then a swept number of loop steps
            orig_accepted = net.on_peer_accepted

            async def on_peer_accepted(connection):
                state['pierce_accepting'].set()
                return await orig_accepted(connection)
            net.on_peer_accepted = on_peer_accepted

        def planner(node, host, port, attempt):
            plan = ConnPlan(latency=0.005, seg='random')
            if node == 'me' and port == w.server.port and state['server_lost']:
                plan.connect = 'hang'       # the server is unreachable: every reconnect attempt runs into its timeout
                return plan
            if p.get('same_instant'):
                plan = ConnPlan(latency=0.0, seg='whole', seg_lat=(0.0, 0.0))
                if node == 'me' and port in bob_ports:
                    plan.latency = 0.0 if p['direct'] == 'fast' else p['d_lat']
                    plan.yield_steps = p.get('d_yields', 0)
                    if p.get('rendezvous') == 'direct-waits-for-pierce-accept':
                        plan.gate = state['pierce_accepting']
                    plan.on_connected = state['direct_connected'].set
                return plan
            if node == 'me' and port in bob_ports:
                d = p['direct']
                plan.latency = p['d_lat']
                if d == 'refused':
                    plan.connect = 'refuse'
                elif d == 'hang':
                    plan.connect = 'hang'
                elif d == 'init-fail':
                    plan.connect = 'reset'
            return plan
        w.net.planner = planner

        if p['direct'] == 'no-address':
            w.server.address_answer = lambda session, username: GetPeerAddress.Response(username, '0.0.0.0', 0, 0, 0)

        # indirect behaviour: what bob does with the relayed ConnectToPeer
        async def on_ctp(msg):
            state['ctp'] = msg
            ind = p['indirect']
            if ind in ('pierce-fast', 'pierce-slow'):
                if p.get('same_instant'):
                    if p.get('rendezvous') == 'pierce-waits-for-direct-connect':
                        await state['direct_connected'].wait()
                    await yields(p.get('i_yields', 0))
                else:
                    await asyncio.sleep(p['i_lat'])
                w.pending_pierce[('bob', msg.ticket)] = (msg.typ, msg.username)
                if p.get('pierce_init_delay'):
                    from aioslsk.protocol.messages import PeerPierceFirewall
                    use_obf = bool(msg.obfuscated_port) and not msg.port
                    try:
                        link = await bob.dial(msg.obfuscated_port if use_obf else msg.port, msg.typ, host=msg.ip,
                                              obfuscated=use_obf, init=None, ticket=msg.ticket, remote_user=msg.username)
                    except (ConnectionError, OSError):
                        bob.cannot_report(msg)
                        return
                    await asyncio.sleep(p['pierce_init_delay'])
                    typ_, link.typ = link.typ, None      # the init message is encoded as for a connection of unknown type
                    link.send(PeerPierceFirewall.Request(msg.ticket))
                    link.typ = typ_
                    obs['late_pierce_messages'] = obs.get('late_pierce_messages', 0) + 1
                elif p.get('dup_pierce') is not None:
                    obs['duplicate_pierces'] = obs.get('duplicate_pierces', 0) + 1
                    await asyncio.gather(bob.pierce(msg), bob.pierce(msg, delay=p['dup_pierce']))
                else:
                    await bob.pierce(msg)
            elif ind == 'cannot':
                if p.get('same_instant'):
                    await yields(p.get('i_yields', 0))
                else:
                    await asyncio.sleep(p['i_lat'])
                bob.cannot_report(msg)
                if p.get('also_pierce') is not None:
                    # a contradictory peer: it reports cannot-connect and pierces all the same, k loop steps later
                    await yields(p['also_pierce'])
                    w.pending_pierce[('bob', msg.ticket)] = (msg.typ, msg.username)
                    obs['cannot_connect_and_pierce'] = obs.get('cannot_connect_and_pierce', 0) + 1
                    await bob.pierce(msg)
            # nothing: silence
        bob.on_connect_to_peer = on_ctp
        if p['indirect'] == 'server-down':
            # the ConnectToPeer request cannot be sent: the server link dies right before the request
            s = w.server.session_of('me')
            s.close('rst')
            await yields(3)
        elif p['indirect'] == 'server-reconnecting':
            # the server link is lost and the client is in the middle of an attempt to get it back: the server
            # connection exists but is not open, so whatever the request sends to the server fails at once
            state['server_lost'] = True
            w.server.session_of('me').close('rst')
            for _ in range(4000):
                if net.server_connection.state == ConnectionState.CONNECTING:
                    break
                await asyncio.sleep(0.01)
            else:
                w.harness_error('c11 server-reconnecting', 'the client never started a reconnect attempt')
            await asyncio.sleep(p.get('reconnect_phase', 0.0))
            obs['requests_while_server_reconnecting'] = obs.get('requests_while_server_reconnecting', 0) + (
                net.server_connection.state == ConnectionState.CONNECTING)

        obs['requests'] += 1
        t_call = w.now
        task = w.spawn('me', net.create_peer_connection('bob', p['typ']), name='vf-c11-request')
        cancelled = False
        t_cancel = None
        if p['cancel'] == 'steps':
            await yields(p['cancel_k'])
            if not task.done():
                task.cancel()
                cancelled = True
        elif p['cancel'] == 'time':
            await asyncio.wait({task}, timeout=p['cancel_t'])
            if not task.done():
                task.cancel()
                cancelled = True
        if cancelled:
            t_cancel = w.now
        outcome: Any
        conn = None
        try:
            # bounded: direct timeout 10 s + indirect timeout 60 s (+ GetPeerAddress); ten times that
            done, _ = await asyncio.wait({task}, timeout=800.0)
            if not done:
                outcome = 'never-returned'
                task.cancel()
                await asyncio.gather(task, return_exceptions=True)
                raise _Hang()
            conn = task.result()
            outcome = 'connection'
        except _Hang:
            pass
        except PeerConnectionError:
            outcome = 'PeerConnectionError'
        except asyncio.CancelledError:
            outcome = 'cancelled'
        except BaseException as exc:  # noqa
            outcome = f'other:{type(exc).__name__}'
        t_ret = w.now

        if judge_c11 and cancelled and outcome != 'cancelled' and t_ret - t_cancel > 0.5:
            # a cancellation that coincides with a timeout may surface as that timeout, at once; a request that
            # goes on for longer has swallowed the cancellation
            viol.append((f"c11:cancellation-not-honoured:{outcome}:{p['mode']}",
                         {'params': p, 'went_on_for_virtual_s': round(t_ret - t_cancel, 3)}))
        if cancelled:
            obs['cancellations_judged'] = obs.get('cancellations_judged', 0) + 1
        server_up = p['indirect'] not in ('server-down', 'server-reconnecting')
        direct_works = p['direct'] in ('fast', 'slow') and (server_up or False)
        # GetPeerAddress needs the server too
        indirect_works = p['indirect'] in ('pierce-fast', 'pierce-slow') and server_up
        if judge_c11 and outcome == 'never-returned':
            viol.append((f"c11:request-never-returned:direct-{p['direct']}:indirect-{p['indirect']}:{p['mode']}",
                         {'params': p, 'waited_virtual_s': 800}))
        elif judge_c11:
            if outcome.startswith('other:'):
                viol.append((f'c11:wrong-exception:{outcome[6:]}', {'params': p}))
            elif not cancelled and p.get('also_pierce') is not None:
                pass        # a peer that reports cannot-connect and pierces: either outcome is right, residue is judged
            elif not cancelled:
                want = 'connection' if (direct_works or indirect_works) else 'PeerConnectionError'
                if outcome != want:
                    viol.append((f"c11:outcome:{outcome}-but-expected-{want}:direct-{p['direct']}:indirect-{p['indirect']}:{p['mode']}",
                                 {'params': p, 't_call': t_call, 't_ret': t_ret}))

        # "when it returns or raises, exactly the returned connection (if any) remains": judged as soon as
        # the instant of the return has settled (closing sockets may still have their FIN in flight)
        if judge_c11 and outcome in ('connection', 'PeerConnectionError'):
            await settle(0.0)
            await yields(30)
            left = [c for c in net.peer_connections if c is not conn]
            left = [c for c in left if c.state.name not in ('CLOSING', 'CLOSED')]
            # a late pierce that is still being turned away is in AWAITING_INIT: give it its own instant
            if left:
                await settle(0.05)
                left = [c for c in net.peer_connections if c is not conn and c.state.name not in ('CLOSING', 'CLOSED')
                        and c.connection_state.name != 'AWAITING_INIT']
            if left:
                viol.append((f"c11:at-return:other-connection-left:{'in' if left[0].incoming else 'out'}:"
                             f"{left[0].connection_state.name}:{p['mode']}",
                             {'n': len(left), 'params': p, 'returned_incoming': None if conn is None else conn.incoming}))

        # usability of the returned connection
        if conn is not None and judge_c11:
            obs['usable_checks'] += 1
            ok_state = conn.state == ConnectionState.CONNECTED and conn.connection_type == p['typ'] and (
                conn.connection_state == (PeerConnectionState.NEGOTIATING_TRANSFER if p['typ'] == 'F'
                                          else PeerConnectionState.ESTABLISHED))
            if not ok_state:
                viol.append(('c11:returned-connection-not-initialised',
                             {'state': conn.state.name, 'cstate': conn.connection_state.name, 'typ': conn.connection_type,
                              'params': p}))
            else:
                # find bob's end of it
                tr = conn._writer.transport
                link = next((l for l in bob.links if l.conn is tr.conn), None)
                if link is None:
                    viol.append(('c11:returned-connection-has-no-peer-end', {'params': p}))
                else:
                    for _ in range(100):      # let the peer parse the init frame first
                        if link.init is not None or not link.incoming:
                            break
                        await asyncio.sleep(0.01)
                    if p['typ'] == 'F':
                        await conn.send_message((7).to_bytes(4, 'little'))
                        got = await asyncio.wait_for(link.read_exactly(4), 5)
                        link.send_raw((9).to_bytes(4, 'little'))
                        back = await asyncio.wait_for(conn.receive_transfer_ticket(), 5)
                        if got != (7).to_bytes(4, 'little') or back != 9:
                            viol.append(('c11:returned-connection-unusable:F', {'got': repr(got), 'back': back}))
                    else:
                        msg = PeerUserInfoRequest.Request() if p['typ'] == 'P' else DistributedPing.Request()
                        n0 = len(link.frames)
                        m0 = len(me.events)
                        await conn.send_message(msg)
                        link.send(msg)
                        await settle(0.3)
                        got_peer = any(type(m) is type(msg) for _, m in link.frames[n0:])
                        got_me = any(ev.connection is conn and type(ev.message) is type(msg) for _, ev in me.events[m0:])
                        if not (got_peer and got_me):
                            viol.append((f"c11:returned-connection-unusable:{p['typ']}",
                                         {'peer_got': got_peer, 'client_got': got_me, 'params': p}))

        await settle(120.0)
        # residue
        obs['residue_checks'] += 1
        regs = list(net.peer_connections)
        expected_regs = [conn] if (conn is not None and conn.state == ConnectionState.CONNECTED) else []
        extra = [c for c in regs if c not in expected_regs]
        if judge_c11:
            if extra:
                viol.append((f"c11:residue:registered-connection:{extra[0].state.name}:{'cancelled' if cancelled else outcome}",
                             {'n': len(extra), 'params': p}))
            if conn is not None and conn.state == ConnectionState.CONNECTED and conn not in regs:
                viol.append(('c11:residue:returned-connection-not-registered', {'params': p}))
            open_trs = [tr for tr in w.net.open_transports(owner='me') if tr.conn.port != w.server.port]
            want_open = 1 if expected_regs else 0
            if len([t for t in open_trs if not t._closing]) != want_open:
                viol.append((f"c11:residue:open-sockets:{len(open_trs)}-expected-{want_open}:{'cancelled' if cancelled else outcome}",
                             {'params': p, 'conns': [(t.conn.id, dict(t.conn.tags)) for t in open_trs]}))
            if net._expected_connection_futures:
                viol.append((f"c11:residue:expected-connection-waiter:{'cancelled' if cancelled else outcome}:{p['mode']}",
                             {'tickets': len(net._expected_connection_futures), 'params': p}))
            if net._expected_response_futures:
                viol.append((f"c11:residue:cannot-connect-waiter:{'cancelled' if cancelled else outcome}:{p['mode']}",
                             {'n': len(net._expected_response_futures),
                              'classes': [f.message_class.__qualname__ for f in net._expected_response_futures], 'params': p}))
            live = [t.get_name() for t in asyncio.all_tasks() if not t.done() and
                    (t.get_name().startswith('direct-connect-') or t.get_name().startswith('indirect-connect-'))]
            if live:
                viol.append(('c11:residue:live-connect-task', {'tasks': live, 'params': p}))
        obs['registry_items'] += registry_check(w, me, viol if judge_c10 else [], 'after-connect-request', cm=cm)
        me.events.clear()
        await w.stop_clients()
        return {'outcome': outcome, 'cancelled': cancelled, 't': [round(t_call, 3), round(t_ret, 3)],
                'direct_works': direct_works, 'indirect_works': indirect_works}

    from aioslsk.events import MessageReceivedEvent
    w_holder = {}

    def attach(handle):
        pass
    out = run_world(f'{seed}', _with_record(main), wall_timeout=90, monitors=[cm])
    if out.inconclusive:
        res['inconclusive'] = out.inconclusive
        return
    for sig, detail in viol:
        runner.violation(res, sig, **detail)
    if judge_c10:
        for sig, detail in cm.violations:
            runner.violation(res, 'c10:' + sig, **detail)
    for sig, detail in safety_net_violations(out):
        runner.violation(res, 'safety:' + sig, **detail)
    for k, v in obs.items():
        runner.add_obs(res, k, v)
    runner.add_obs(res, 'registry_checks', _registry_checks[0])
    _registry_checks[0] = 0
    for k, v in cm.counters.items():
        runner.add_obs(res, k, v)
    r = out.result
    res['csigs'].append(f"c11|{p['mode']}|{p['direct']}|{p['indirect']}|{p['ports']}|{p['prefer_obf']}|{p['typ']}|"
                        f"{p['cancel']}|{r['outcome']}")
    runner.add_cover(res, 'c11_cells', f"{p['mode']}/{p['direct']}/{p['indirect']}")
    runner.add_cover(res, 'c11_outcomes', r['outcome'])
    res['sample'] = {'params': p, 'result': r,
                     'streams': [[s[1] for s in st] for st in list(cm.streams.values())[:6]]}


def _with_record(main):
    """Wrap a scenario so that the client records MessageReceivedEvents."""
    async def wrapped(w: World):
        from aioslsk.events import MessageReceivedEvent
        orig_add = w.add_client

        async def add_client(name, *a, **kw):
            kw2 = dict(kw)
            start, login = kw2.pop('start', True), kw2.pop('login', True)
            h = await orig_add(name, *a, start=False, login=False, **kw2)
            h.record(MessageReceivedEvent)
            if start:
                await w.call(name, h.client.start())
                if login:
                    await w.call(name, h.client.login())
            return h
        w.add_client = add_client
        return await main(w)
    return wrapped


# ---------------------------------------------------------------------------
# C11: connect-back duty

CB_BEHAVIOURS = ['accept', 'accept-slow', 'refuse', 'hang', 'reset', 'accept-then-close']


def run_connect_back_case(res: dict, rng: random.Random, seed: Any, judge_c10: bool = False):
    install_creator_hook()
    cm = ConnMonitor()
    viol: list = []
    obs = {'connect_back_judged': 0, 'registry_items': 0}
    n_req = rng.randint(1, 3)
    reqs = []
    for k in range(n_req):
        reqs.append({'behaviour': rng.choice(CB_BEHAVIOURS), 'typ': rng.choice(['P', 'F', 'D']),
                     'ports': rng.choice(['clear', 'obf', 'both']), 'ticket': 7000 + k,
                     'gap': rng.choice([0.0, 0.0, 0.01, 1.0])})
    prefer_obf = rng.random() < 0.5
    omit_obf_fields = random.Random(f'{seed}:omit').random() < 0.4
    # history: the peer already has an established peer connection with the client when the request is relayed
    prng = random.Random(f'{seed}:pre')
    for r in reqs:
        r['pre_connected'] = prng.choice([None, None, 'peer-dialed', 'client-dialed'])

    async def main(w: World):
        from aioslsk.protocol.messages import CannotConnect, ConnectToPeer, PeerPierceFirewall
        await w.start_server()
        me = await w.add_client('me')
        me.client.settings.network.peer.obfuscate = prefer_obf
        peers = []
        for k, r in enumerate(reqs):
            peer = await w.add_peer(f'p{k}', clear=r['ports'] in ('clear', 'both'), obf=r['ports'] in ('obf', 'both'))
            r['peer'] = peer
            if r['behaviour'] == 'accept-then-close':
                peer.accept_mode = lambda link: 'close'
            peers.append(peer)
        await settle(0.3)
        port_owner = {}
        for r in reqs:
            for prt in (r['peer'].port, r['peer'].obf_port):
                if prt:
                    port_owner[prt] = r

        def planner(node, host, port, attempt):
            plan = ConnPlan(latency=0.005)
            r = port_owner.get(port)
            if node == 'me' and r is not None:
                b = r['behaviour']
                if b == 'accept-slow':
                    plan.latency = rng.uniform(3.0, 9.5)
                elif b == 'refuse':
                    plan.connect = 'refuse'
                elif b == 'hang':
                    plan.connect = 'hang'
                elif b == 'reset':
                    plan.connect = 'reset'
            return plan
        w.net.planner = planner
        for r in reqs:
            if r['gap']:
                await asyncio.sleep(r['gap'])
            peer = r['peer']
            if r['pre_connected'] == 'peer-dialed':
                try:
                    await peer.dial(me.port, 'P', host=w.net.ip_of('me'))
                    obs['connect_back_with_existing_connection'] = obs.get('connect_back_with_existing_connection', 0) + 1
                except (ConnectionError, OSError):
                    pass
                await settle(0.1)
            elif r['pre_connected'] == 'client-dialed' and r['behaviour'] in ('accept', 'accept-slow'):
                try:
                    await me.call(me.client.network.create_peer_connection(
                        peer.name, 'P', ip=peer.ip, port=peer.obf_port if (prefer_obf and peer.obf_port) or not peer.port else peer.port,
                        obfuscate=bool((prefer_obf and peer.obf_port) or not peer.port)))
                    obs['connect_back_with_existing_connection'] = obs.get('connect_back_with_existing_connection', 0) + 1
                except Exception:  # noqa
                    pass
                await settle(0.1)
            w.pending_pierce[(peer.name, r['ticket'])] = (r['typ'], 'me')
            if omit_obf_fields and not peer.obf_port:
                # the obfuscated-port fields are optional on the wire
                w.server.push('me', ConnectToPeer.Response(peer.name, r['typ'], peer.ip, peer.port, r['ticket'], False))
            else:
                w.server.push('me', ConnectToPeer.Response(
                    peer.name, r['typ'], peer.ip, peer.port, r['ticket'], False,
                    1 if peer.obf_port else 0, peer.obf_port))
        # a quiescent moment while slow connect-backs are still pending
        await asyncio.sleep(1.0)
        obs['registry_items'] += registry_check(w, me, viol if judge_c10 else [], 'during-connect-back', cm=cm)
        await settle(30.0)
        out = []
        for r in reqs:
            peer = r['peer']
            # a pierce message counts when the client wrote it on a connection to that peer (a peer
            # that closes without reading it has still been sent the message)
            pierces = 0
            want = PeerPierceFirewall.Request(r['ticket']).serialize()
            for c in w.net.conns:
                if c.src == 'me' and c.port in (peer.port, peer.obf_port):
                    first = c.stream('a2b', delivered=False)
                    if c.port == peer.obf_port and first:
                        try:
                            from aioslsk.protocol import obfuscation
                            first = obfuscation.decode(first[:4 + 4 + len(want)])
                        except Exception:  # noqa
                            pass
                    if first.startswith(want):
                        pierces += 1
            cannots = sum(1 for _, u, m in w.server.frames
                          if u == 'me' and isinstance(m, CannotConnect.Request) and m.ticket == r['ticket'])
            obs['connect_back_judged'] += 1
            b = r['behaviour']
            out.append((b, r['typ'], pierces, cannots))
            # 'reset'/'accept-then-close': the pierce message may or may not have reached the peer before the
            # connection died; then exactly one of the two reports is still required
            if pierces + cannots != 1:
                if b in ('reset', 'accept-then-close') and pierces + cannots in (0, 2) and pierces <= 1 and cannots <= 1:
                    # pierce written into a dying socket: the peer never read it and the client cannot know -> 0 is
                    # indistinguishable for the client only if its write succeeded; judged below
                    if pierces == 0 and cannots == 0:
                        viol.append((f'c11:connect-back:neither-pierce-nor-cannot-connect:{b}', {'req': _pub(r)}))
                    else:
                        viol.append((f'c11:connect-back:both-pierce-and-cannot-connect:{b}', {'req': _pub(r)}))
                else:
                    viol.append((f'c11:connect-back:pierce-{pierces}-cannot-{cannots}:{b}', {'req': _pub(r)}))
        obs['registry_items'] += registry_check(w, me, viol if judge_c10 else [], 'after-connect-back', cm=cm)
        await w.stop_clients()
        return out

    out = run_world(f'{seed}', main, wall_timeout=90, monitors=[cm])
    if out.inconclusive:
        res['inconclusive'] = out.inconclusive
        return
    for sig, detail in viol:
        runner.violation(res, sig, **detail)
    if judge_c10:
        for sig, detail in cm.violations:
            runner.violation(res, 'c10:' + sig, **detail)
    for sig, detail in safety_net_violations(out):
        runner.violation(res, 'safety:' + sig, **detail)
    for k, v in obs.items():
        runner.add_obs(res, k, v)
    runner.add_obs(res, 'registry_checks', _registry_checks[0])
    _registry_checks[0] = 0
    for k, v in cm.counters.items():
        runner.add_obs(res, k, v)
    res['csigs'].append(f"cb|{[(r['behaviour'], r['typ'], r['ports']) for r in reqs]}|{prefer_obf}|{out.result}")
    for r in reqs:
        runner.add_cover(res, 'connect_back_behaviours', r['behaviour'])
    res['sample'] = {'kind': 'connect-back', 'requests': [_pub(r) for r in reqs], 'result': out.result}


def _pub(r: dict) -> dict:
    return {k: v for k, v in r.items() if k != 'peer'}


# ---------------------------------------------------------------------------
# C10: endings of established / half-established connections

IN_INITS = ['good', 'eof-before-init', 'rst-before-init', 'silent', 'garbage', 'unknown-code', 'partial-then-eof',
            'unknown-pierce-ticket', 'good-then-immediate-eof']
ENDINGS = ['local-1', 'local-2', 'local-3', 'remote-eof', 'remote-rst', 'read-timeout', 'write-timeout',
           'local-and-remote', 'stop-client', 'disconnect-while-connecting', 'write-timeout-queued',
           'cancel-during-disconnect', 'cancel-during-disconnect', 'cancel-while-connecting']


def run_c10_endings_case(res: dict, rng: random.Random, seed: Any):
    install_creator_hook()
    cm = ConnMonitor()
    viol: list = []
    obs = {'endings_judged': 0, 'registry_items': 0, 'send_after_closed_checks': 0, 'conns_judged': 0}
    n_conns = rng.randint(1, 3)
    specs = []
    for _ in range(n_conns):
        direction = rng.choice(['in', 'in', 'out'])
        ending_ = rng.choice(ENDINGS)
        if ending_ in ('disconnect-while-connecting', 'cancel-while-connecting'):
            direction = 'out'
        specs.append({
            'direction': direction,
            'obf': rng.random() < 0.4,
            'typ': rng.choice(['P', 'P', 'D', 'F']),
            'init': rng.choice(IN_INITS) if direction == 'in' else 'good',
            'ending': ending_,
            'gap': rng.choice([0.0, 0.01, 0.5]),
            # when the task running disconnect() is cancelled: after k loop steps or d seconds
            'cancel_after': rng.choice([['y', k] for k in range(0, 11)] + [['t', 0.02], ['t', 0.07], ['t', 0.2]]),
            # disconnect-while-connecting: when, relative to the 3 s the connect takes (just before it completes:
            # a listener still handling the CLOSING notification then sees the connect complete)
            'disconnect_at': rng.choice([1.0, 2.97, 2.999, 3.0]),
        })
    # an application listener for connection state changes that suspends (listeners are public API): none,
    # k loop steps, or a sleep
    app_listener = rng.choice([None, None, ['y', 1], ['y', 3], ['t', 0.05]])
    # the last act: Network.disconnect() while another task opens a connection (None: plain stop)
    overlap = rng.choice([None, None, {'what': rng.choice(['request', 'request', 'dial-in']), 'typ': rng.choice(['P', 'D', 'F']),
                                       'after': rng.choice([['y', k] for k in range(0, 8)] + [['t', 0.001], ['t', 0.01]])}])

    async def main(w: World):
        from aioslsk.exceptions import ConnectionWriteError, PeerConnectionError
        from aioslsk.network.connection import CloseReason, ConnectionState
        from aioslsk.network.network import PeerConnectMode
        from aioslsk.protocol.messages import PeerPierceFirewall, PeerUserInfoRequest
        await w.start_server()
        me = await w.add_client('me')
        me.client.settings.network.peer.connect_mode = PeerConnectMode.FALLBACK
        net = me.client.network
        if app_listener is not None:
            from aioslsk.events import ConnectionStateChangedEvent

            async def slow_listener(event):
                if app_listener[0] == 'y':
                    for _ in range(app_listener[1]):
                        await asyncio.sleep(0)
                else:
                    await asyncio.sleep(app_listener[1])
            me.client.events.register(ConnectionStateChangedEvent, slow_listener)
        bobs = []
        for k, sp in enumerate(specs):
            bob = await w.add_peer(f'b{k}')
            bobs.append(bob)
        await settle(0.3)
        results = []
        slow_ports: set = set()

        def planner(node, host, port, attempt):
            if node == 'me' and port in slow_ports:
                return ConnPlan(latency=3.0)
            return ConnPlan(latency=rng.uniform(0.001, 0.03))
        w.net.planner = planner
        for k, sp in enumerate(specs):
            bob = bobs[k]
            if sp['gap']:
                await asyncio.sleep(sp['gap'])
            conn = None
            link = None
            before = set(id(c) for c in cm.conns.values())
            if sp['direction'] == 'out' and sp['ending'] == 'disconnect-while-connecting':
                # the connect takes 3 s; at 1 s the registered CONNECTING connection is disconnected locally
                # (what Network.disconnect() does to every registered connection), then the connect completes
                me.client.settings.network.peer.obfuscate = sp['obf']
                slow_ports.update({bob.port, bob.obf_port})
                task = w.spawn('me', net.create_peer_connection(bob.name, sp['typ']), name='vf-c10-slow-connect')
                # the address lookup takes some ms before the connect starts: aim relative to the connect itself
                n_log = len(w.net.connect_log)
                t_conn = None
                for _ in range(400):
                    started = [e for e in w.net.connect_log[n_log:] if e['node'] == 'me' and e['port'] in slow_ports]
                    if started:
                        t_conn = started[0]['t'] + 1000.0       # the instant the TCP connect started
                        break
                    await asyncio.sleep(0.001)
                if t_conn is None:
                    t_conn = w.loop.time()
                await asyncio.sleep(max(0.0, t_conn + sp['disconnect_at'] - 0.0015 - w.loop.time()))
                pending = [c for c in net.peer_connections if c.username == bob.name and c.state.name == 'CONNECTING']
                n_calls = rng.choice([1, 2])
                for c in pending:
                    await asyncio.gather(*[me.call(c.disconnect(CloseReason.REQUESTED)) for _ in range(n_calls)])
                obs['endings_judged'] += 1 if pending else 0
                await asyncio.gather(task, return_exceptions=True)
                await settle(3.0)
                conn = None
            elif sp['direction'] == 'out' and sp['ending'] == 'cancel-while-connecting':
                # address given: the connect starts at once; the request is cancelled after k loop steps / d seconds
                # (with a suspending application listener: while CONNECTING / CONNECTED is being notified)
                me.client.settings.network.peer.obfuscate = sp['obf']
                task = w.spawn('me', net.create_peer_connection(
                    bob.name, sp['typ'], ip=w.net.ip_of(bob.name), port=bob.obf_port if sp['obf'] else bob.port,
                    obfuscate=sp['obf']), name='vf-c10-cancelled-connect')
                how, amount = sp['cancel_after']
                if how == 'y':
                    for _ in range(amount):
                        await asyncio.sleep(0)
                else:
                    await asyncio.sleep(amount)
                task.cancel()
                await asyncio.gather(task, return_exceptions=True)
                obs['endings_judged'] += 1
                await settle(1.0)
                conn = None
            elif sp['direction'] == 'out':
                me.client.settings.network.peer.obfuscate = sp['obf']
                try:
                    conn = await me.call(net.create_peer_connection(bob.name, sp['typ']))
                except PeerConnectionError:
                    conn = None
                if conn is not None:
                    tr = conn._writer.transport
                    for _ in range(100):
                        link = next((l for l in bob.links if l.conn is tr.conn), None)
                        if link is not None and link.init is not None:
                            break
                        await asyncio.sleep(0.01)
            else:
                port = me.obf_port if sp['obf'] else me.port
                init = sp['init']
                kw = dict(host=w.net.ip_of('me'), obfuscated=sp['obf'], manual=True)
                if init in ('good', 'good-then-immediate-eof'):
                    link = await bob.dial(port, sp['typ'], **kw)
                    if init == 'good-then-immediate-eof':
                        link.close()
                elif init == 'eof-before-init':
                    link = await bob.dial(port, sp['typ'], init=None, **kw)
                    link.close()
                elif init == 'rst-before-init':
                    link = await bob.dial(port, sp['typ'], init=None, **kw)
                    link.abort()
                elif init == 'silent':
                    link = await bob.dial(port, sp['typ'], init=None, **kw)
                elif init == 'garbage':
                    link = await bob.dial(port, sp['typ'], init=None, **kw)
                    body = rng.randbytes(rng.randint(1, 40))
                    link.send_raw(link.encode(len(body).to_bytes(4, 'little') + body))
                elif init == 'unknown-code':
                    link = await bob.dial(port, sp['typ'], init=None, **kw)
                    link.send_raw(link.encode((5).to_bytes(4, 'little') + b'\x09' + b'abcd'))
                elif init == 'partial-then-eof':
                    link = await bob.dial(port, sp['typ'], init=None, **kw)
                    link.send_raw(b'\x20\x00\x00')
                    await asyncio.sleep(0.01)
                    link.close()
                elif init == 'unknown-pierce-ticket':
                    link = await bob.dial(port, sp['typ'], init='pierce', ticket=999999, **kw)
                await settle(0.2)
                # the client's connection object for this link
                for c in list(net.peer_connections) + [v for v in cm.conns.values()]:
                    wr = getattr(c, '_writer', None)
                    if wr is not None and wr.transport.conn is link.conn:
                        conn = c
                        break
            established = (conn is not None and conn.state == ConnectionState.CONNECTED and
                           sp['init'] in ('good',))
            ending = sp['ending'] if established else 'none'
            if established:
                obs['endings_judged'] += 1
                if sp['typ'] == 'F' and sp['direction'] == 'out':
                    # a file connection has no reader task: whoever asked for it reads from it
                    # (as _initialize_upload does); without a reader nobody can notice a remote close
                    async def file_reader(c=conn):
                        try:
                            await c.receive_transfer_offset()
                        except Exception:  # noqa
                            pass
                    w.spawn('me', file_reader(), name='vf-file-reader')
                    await asyncio.sleep(0)
                if ending.startswith('local-') and ending != 'local-and-remote':
                    n = int(ending[-1])
                    await asyncio.gather(*[me.call(conn.disconnect(CloseReason.REQUESTED)) for _ in range(n)])
                elif ending == 'remote-eof':
                    link.close()
                elif ending == 'remote-rst':
                    link.abort()
                elif ending == 'read-timeout':
                    if sp['typ'] == 'F':
                        link.close()      # file connections have no idle read timeout while negotiating
                    else:
                        await asyncio.sleep(61.0)
                elif ending == 'write-timeout':
                    link.stop_reading()
                    blob = bytes(8192)
                    try:
                        for _ in range(60):
                            await me.call(conn.send_message((len(blob) + 4).to_bytes(4, 'little') + (999).to_bytes(4, 'little') + blob))
                    except ConnectionWriteError:
                        pass
                    await asyncio.sleep(1.0)
                elif ending == 'write-timeout-queued':
                    # queued messages are written by tasks of their own; the one that times out disconnects and
                    # thereby cancels all queued message tasks, itself included
                    link.stop_reading()
                    blob = bytes(8192)
                    qtasks = [conn.queue_message((len(blob) + 4).to_bytes(4, 'little') + (999).to_bytes(4, 'little') + blob)
                              for _ in range(60)]
                    await asyncio.sleep(12.0)
                    # whoever queues a message owns the task and its outcome
                    await asyncio.gather(*qtasks, return_exceptions=True)
                elif ending == 'cancel-during-disconnect':
                    task = w.spawn('me', conn.disconnect(CloseReason.REQUESTED), name='vf-c10-disconnect')
                    how, amount = sp['cancel_after']
                    if how == 'y':
                        for _ in range(amount):
                            await asyncio.sleep(0)
                    else:
                        await asyncio.sleep(amount)
                    task.cancel()
                    await asyncio.gather(task, return_exceptions=True)
                elif ending == 'local-and-remote':
                    link.close()
                    await asyncio.gather(me.call(conn.disconnect(CloseReason.REQUESTED)),
                                         me.call(conn.disconnect(CloseReason.REQUESTED)))
                elif ending == 'stop-client':
                    pass
            results.append((sp['direction'], sp['init'], ending, None if conn is None else conn.state.name))
            if ending not in ('write-timeout', 'write-timeout-queued') and sp['init'] != 'silent':
                await settle(0.5)
                obs['registry_items'] += registry_check(w, me, viol, 'between-endings', cm=cm)
            sp['_conn'] = conn
            sp['_link'] = link
        await settle(70.0)
        obs['registry_items'] += registry_check(w, me, viol, 'after-endings', cm=cm)
        # an incoming connection whose first frame was complete but undecodable has to be turned away, whether or not
        # the remote end keeps its socket open
        for sp in specs:
            if sp['direction'] == 'in' and sp['init'] in ('garbage', 'unknown-code'):
                obs['undecodable_inits_judged'] = obs.get('undecodable_inits_judged', 0) + 1
                c_ = sp.get('_conn')
                still = [c for c in net.peer_connections if c is c_] if c_ is not None else []
                lk = sp.get('_link')
                if still or (lk is not None and not lk.closed and not lk.writer.transport._lost and c_ is not None
                             and c_.state.name not in ('CLOSED', 'CLOSING')):
                    viol.append((f"undecodable-init-not-turned-away:{sp['init']}", {'spec': _pub2(sp), 'state': c_.state.name}))
        # send after CLOSED must not put bytes on the wire and no message may be delivered after CLOSED
        for sp in specs:
            conn = sp.get('_conn')
            if conn is None or conn.state != ConnectionState.CLOSED:
                continue
            link = sp['_link']
            obs['send_after_closed_checks'] += 1
            d = 'b2a' if link.conn.a is link.writer.transport else 'a2b'     # direction client -> peer
            n0 = link.conn.written[d]
            try:
                await me.call(conn.send_message(PeerUserInfoRequest.Request()))
            except Exception:  # noqa  (a refused send is fine)
                pass
            await settle(0.1)
            if link.conn.written[d] != n0:
                viol.append(('send-succeeded-after-closed', {'spec': _pub2(sp)}))
        if overlap is not None:
            # Network.disconnect() closes what is registered when it is called; a connection that another task
            # registers while disconnect() is suspended (a request with a known address, a peer dialling in) is
            # opened as usual and has to be in the registry for as long as it is open
            carol = await w.add_peer('carol')
            await settle(0.2)
            obs['disconnect_overlaps'] = obs.get('disconnect_overlaps', 0) + 1
            dtask = w.spawn('me', net.disconnect(), name='vf-c10-network-disconnect')
            how, amount = overlap['after']
            if how == 'y':
                for _ in range(amount):
                    await asyncio.sleep(0)
            else:
                await asyncio.sleep(amount)
            new_conn = None
            if overlap['what'] == 'request':
                try:
                    new_conn = await me.call(net.create_peer_connection(
                        'carol', overlap['typ'], ip=w.net.ip_of('carol'), port=carol.port))
                except PeerConnectionError:
                    new_conn = None
            else:
                try:
                    await carol.dial(me.port, overlap['typ'], host=w.net.ip_of('me'), manual=True)
                except (ConnectionError, OSError):
                    pass
            await asyncio.gather(dtask, return_exceptions=True)
            await settle(1.0)
            if new_conn is not None and new_conn.state == ConnectionState.CONNECTED:
                obs['opened_during_disconnect'] = obs.get('opened_during_disconnect', 0) + 1
                if new_conn not in net.peer_connections:
                    viol.append(('registry:connection-opened-during-network-disconnect-not-registered',
                                 {'overlap': overlap, 'state': new_conn.state.name}))
            obs['registry_items'] += registry_check(w, me, viol, 'after-network-disconnect', cm=cm)
        await w.stop_clients()
        await settle(6.0)
        return results

    out = run_world(f'{seed}', main, wall_timeout=90, monitors=[cm])
    if out.inconclusive:
        res['inconclusive'] = out.inconclusive
        return
    cm.final_check(all_closed=True)
    obs['conns_judged'] = cm.counters['conns_seen']
    for sig, detail in viol:
        runner.violation(res, sig, **detail)
    for sig, detail in cm.violations:
        runner.violation(res, sig, **detail)
    for sig, detail in safety_net_violations(out):
        runner.violation(res, 'safety:' + sig, **detail)
    for k, v in obs.items():
        runner.add_obs(res, k, v)
    runner.add_obs(res, 'registry_checks', _registry_checks[0])
    _registry_checks[0] = 0
    for k, v in cm.counters.items():
        runner.add_obs(res, k, v)
    res['csigs'].append(f"end|{[(s['direction'], s['obf'], s['typ'], s['init'], s['ending']) for s in specs]}|{out.result}")
    for s in specs:
        runner.add_cover(res, 'c10_inits', f"{s['direction']}:{s['init']}")
        runner.add_cover(res, 'c10_endings', s['ending'])
    runner.add_cover(res, 'c10_app_listener', str(app_listener))
    runner.add_cover(res, 'c10_disconnect_overlap', 'none' if overlap is None else f"{overlap['what']}:{overlap['after']}")
    res['sample'] = {'kind': 'endings', 'specs': [_pub2(s) for s in specs], 'app_listener': app_listener, 'overlap': overlap, 'result': out.result,
                     'streams': [[s[1] for s in st] for st in list(cm.streams.values())[:8]]}


def _pub2(s: dict) -> dict:
    return {k: v for k, v in s.items() if not k.startswith('_')}
