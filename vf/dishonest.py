"""C04, dishonest parties: one real client against a scripted peer."""
from __future__ import annotations

import asyncio
import os
import random

from aioslsk.protocol.messages import (
    PeerTransferQueue,
    PeerTransferReply,
    PeerTransferRequest,
)

from . import runner
from .monitors import TransferMonitor, safety_net_violations
from .simloop import settle
from .world import World, run_world
from .xfer import Classifier, make_source, state_name, wait_until

UP_VARIANTS = ['honest', 'short-close', 'short-abort', 'short-hold', 'long1', 'long-chunk', 'nothing-close',
               'close-before-ticket']
DN_VARIANTS = ['honest', 'offset-size', 'offset-size+1', 'offset-huge', 'offset-mid', 'close-early', 'abort-early',
               'close-before-last', 'never-close']


def run_dishonest(res: dict, params: dict):
    rng = random.Random(f"{params['seed']}:C04:dis:{params['i']}")
    role = rng.choice(['uploader', 'downloader'])
    if role == 'uploader':
        _dishonest_uploader(res, params, rng)
    else:
        _dishonest_downloader(res, params, rng)


# ---------------------------------------------------------------------------

def _dishonest_uploader(res: dict, params: dict, rng: random.Random):
    variant = UP_VARIANTS[params['i'] % len(UP_VARIANTS)] if params['i'] < 2 * len(UP_VARIANTS) else rng.choice(UP_VARIANTS)
    size = rng.choice([1, 127, 128, 129, 8191, 8192, 8193, 20000])
    honest_retry = rng.random() < 0.7
    # the user queues a download that ended FAILED once more (a later attempt on the same local file)
    requeue_failed = random.Random(f"{params['seed']}:C04:dis:rq:{params['i']}").random() < 0.6
    source = make_source(('dis', params['seed'], params['i']), size)
    remote_path = '@@evil\\music\\song.mp3'
    tm = TransferMonitor()
    viol: list = []
    obs = {'complete_checks': 0, 'offset_checks': 0, 'payload_conns': 0, 'dishonest_attempts': 0}
    trace: list = []

    async def main(w: World):
        await w.start_server()
        dn = await w.add_client('dn')
        evil = await w.add_peer('evil')
        state = {'attempt': 0, 'ticket': 1000, 'sent': []}
        tref = {}

        async def serve_file(link_p, attempt_no: int):
            """Offer the upload and play the file connection."""
            ticket = state['ticket'] = state['ticket'] + 1
            v = variant if attempt_no == 0 else ('honest' if honest_retry else variant)
            link_p.send(PeerTransferRequest.Request(1, ticket, remote_path, filesize=size))
            # wait for the reply
            for _ in range(400):
                await asyncio.sleep(0.05)
                replies = [m for _, m in link_p.frames if isinstance(m, PeerTransferReply.Request) and m.ticket == ticket]
                if replies:
                    break
            else:
                trace.append((round(w.now, 3), 'no-reply'))
                return
            if not replies[0].allowed:
                trace.append((round(w.now, 3), 'refused', replies[0].reason))
                return
            try:
                f = await evil.dial(dn.port, 'F', host=w.net.ip_of('dn'))
            except (ConnectionError, OSError):
                trace.append((round(w.now, 3), 'dial-failed'))
                return
            if v == 'close-before-ticket':
                obs['dishonest_attempts'] += 1
                f.close()
                return
            f.send_raw(ticket.to_bytes(4, 'little'))
            off_b = await f.read_exactly(8)
            if off_b is None:
                trace.append((round(w.now, 3), 'no-offset'))
                return
            offset = int.from_bytes(off_b, 'little')
            t = tref.get('t')
            local = os.path.getsize(t.local_path) if t is not None and t.local_path and os.path.exists(t.local_path) else 0
            obs['offset_checks'] += 1
            trace.append((round(w.now, 3), 'offset', offset, 'local', local, v))
            if offset != local:
                viol.append(('resume-offset-mismatch', {'offset_on_wire': offset, 'local_size': local, 'variant': v}))
            if v == 'honest' and offset > size:
                # what an honest uploader does with an offset beyond the file: it gives up
                trace.append((round(w.now, 3), 'offset-beyond-file', offset))
                f.close()
                return
            body = source[offset:]
            if v != 'honest':
                obs['dishonest_attempts'] += 1
            if v == 'honest':
                payload = body
            elif v.startswith('short'):
                payload = body[:-1] if len(body) > 0 else b''
            elif v == 'long1':
                payload = body + b'X'
            elif v == 'long-chunk':
                payload = body + bytes(8192)
            else:
                payload = b''
            state['sent'].append((offset, payload))
            if payload:
                obs['payload_conns'] += 1
                f.send_raw(payload)
            if v in ('short-close', 'nothing-close'):
                await asyncio.sleep(0.05)
                f.close()
            elif v == 'short-abort':
                await asyncio.sleep(0.05)
                f.abort()
            elif v == 'short-hold':
                pass   # keep the connection open, the downloader has to time out
            else:
                # honest / long: wait for the downloader to close
                await f.read_some()
                f.close()

        def on_frame(link, msg):
            if isinstance(msg, PeerTransferQueue.Request):
                n = state['attempt']
                state['attempt'] += 1
                if n >= 4:
                    return     # a persistently dishonest peer eventually stops answering
                trace.append((round(w.now, 3), 'queue-request', n))
                w.spawn('evil', serve_file(link, n), name='evil-serve')
        evil.on_frame = on_frame

        t = await dn.call(dn.client.transfers.download('evil', remote_path))
        tref['t'] = t

        def on_edge(transfer, old, new):
            trace.append((round(w.now, 3), 'D', old, new))
            lp = transfer.local_path
            data = open(lp, 'rb').read() if lp and os.path.exists(lp) else None
            if new == 'COMPLETE':
                obs['complete_checks'] += 1
                if data != source:
                    viol.append(('download-complete-not-intact', {
                        'variant': variant, 'size': size, 'local_len': None if data is None else len(data),
                        'announced': transfer.filesize}))
            if old == 'DOWNLOADING' and new == 'FAILED' and transfer.fail_reason is None:
                viol.append(('download-failed-without-reason', {'variant': variant}))
        tm.edge_hooks.append(on_edge)

        await wait_until(lambda: state_name(t) in ('COMPLETE', 'FAILED') and state['attempt'] >= 1, 1500.0, step=1.0)
        await settle(5.0)
        if requeue_failed and state_name(t) == 'FAILED':
            n_before = state['attempt']
            trace.append((round(w.now, 3), 'user-requeue'))
            lp_before = t.local_path
            size_before = os.path.getsize(lp_before) if lp_before and os.path.exists(lp_before) else None
            try:
                await dn.call(dn.client.transfers.queue(t))
                obs['requeued_after_failed'] = obs.get('requeued_after_failed', 0) + 1
                # the received prefix is kept: a later attempt resumes the same local file
                if size_before and (t.local_path != lp_before or not os.path.exists(lp_before)
                                    or os.path.getsize(lp_before) != size_before):
                    viol.append(('received-prefix-abandoned-on-requeue', {
                        'variant': variant, 'local_path_before': os.path.basename(lp_before), 'bytes_on_disk': size_before,
                        'local_path_after': None if t.local_path is None else os.path.basename(t.local_path)}))
            except Exception as exc:  # noqa  (a refusal is fine)
                trace.append((round(w.now, 3), 'requeue-refused', repr(exc)))
            await wait_until(lambda: state_name(t) in ('COMPLETE', 'FAILED') and state['attempt'] > n_before, 600.0, step=1.0)
            await settle(5.0)
        final = {'state': state_name(t), 'fail_reason': t.fail_reason, 'attempts': state['attempt'],
                 'bytes_transfered': t.bytes_transfered, 'virtual_s': round(w.now, 1)}
        lp = t.local_path
        data = open(lp, 'rb').read() if lp and os.path.exists(lp) else b''
        final['local_len'] = len(data)
        if final['state'] == 'COMPLETE' and data != source:
            viol.append(('download-complete-not-intact', {'variant': variant, 'size': size, 'local_len': len(data)}))
        # honest senders only ever delivered source bytes: with the short variants the local
        # file must stay a prefix of the source (long variants append the peer's extra bytes)
        if not variant.startswith('long') and data != source[:len(data)]:
            viol.append(('local-file-not-a-prefix', {'variant': variant, 'local_len': len(data)}))
        if variant in ('short-close', 'short-abort', 'nothing-close', 'short-hold') and not honest_retry \
                and final['state'] == 'COMPLETE':
            viol.append(('download-complete-but-bytes-missing', {'variant': variant, **final}))
        tm.edge_hooks.clear()      # shutdown is not part of the judged history
        await w.stop_clients()
        return final

    out = run_world(f"{params['seed']}:C04:dis:{params['i']}", main, wall_timeout=120, monitors=[tm])
    tm.deactivate()
    _finish(res, out, viol, obs, trace, f'dis-up|{variant}|{size}|{honest_retry}',
            {'role': 'uploader', 'variant': variant, 'size': size, 'honest_retry': honest_retry})


# ---------------------------------------------------------------------------

def _dishonest_downloader(res: dict, params: dict, rng: random.Random):
    variant = DN_VARIANTS[params['i'] % len(DN_VARIANTS)] if params['i'] < 2 * len(DN_VARIANTS) else rng.choice(DN_VARIANTS)
    size = rng.choice([1, 127, 128, 129, 8191, 8192, 8193, 40000, 400000])
    source = make_source(('disd', params['seed'], params['i']), size)
    tm = TransferMonitor()
    viol: list = []
    obs = {'complete_checks': 0, 'offset_checks': 0, 'payload_conns': 0, 'dishonest_attempts': 0}
    trace: list = []

    async def main(w: World):
        await w.start_server()
        share = os.path.join(w.tmp, 'share')
        os.makedirs(share)
        with open(os.path.join(share, 'file.bin'), 'wb') as fh:
            fh.write(source)
        up = await w.add_client('up', w.make_settings('up', shared=[share]), scan=True)
        evil = await w.add_peer('evil')
        cls = Classifier(w)
        item = next(iter(up.client.shares.shared_directories[0].items))
        remote_path = item.get_remote_path()
        st = {'offset': None, 'received': b'', 'closed_by_evil_at': None, 'fconn': None, 'eof_seen': False}

        async def on_link(link):
            if link.typ != 'F':
                return
            st['fconn'] = link
            tick = await link.read_exactly(4)
            if tick is None:
                return
            if variant == 'offset-size':
                offset = size
            elif variant == 'offset-size+1':
                offset = size + 1
            elif variant == 'offset-huge':
                offset = 2 ** 63
            elif variant == 'offset-mid':
                offset = size // 2
            else:
                offset = 0
            st['offset'] = offset
            if variant != 'honest':
                obs['dishonest_attempts'] += 1
            link.send_raw(offset.to_bytes(8, 'little'))
            expected = max(0, size - offset)
            stop_at = expected
            if variant in ('close-early', 'abort-early'):
                stop_at = rng.randint(0, max(0, expected - 1))
            elif variant == 'close-before-last':
                stop_at = max(0, expected - 1)
            got = b''
            while len(got) < stop_at:
                data = await link.read_some(min(8192, stop_at - len(got)))
                if data is None:
                    st['eof_seen'] = True
                    break
                got += data
            st['received'] = got
            if variant == 'never-close':
                return
            st['closed_by_evil_at'] = w.now
            if variant == 'abort-early':
                link.abort()
            else:
                link.close()
        evil.on_link = on_link

        def on_frame(link, msg):
            if isinstance(msg, PeerTransferRequest.Request):
                trace.append((round(w.now, 3), 'transfer-request', msg.ticket, msg.filesize))
                link.send(PeerTransferReply.Request(msg.ticket, True))
        evil.on_frame = on_frame

        def on_edge(transfer, old, new):
            trace.append((round(w.now, 3), 'U', old, new))
            if new == 'COMPLETE':
                obs['complete_checks'] += 1
                off = st['offset']
                fcs = [fc for fc in cls.file_conns if fc.ticket is not None]
                if off is None or not fcs:
                    viol.append(('upload-complete-without-file-connection', {'variant': variant}))
                    return
                written = fcs[-1].payload(delivered=False)
                want = source[off:] if off <= size else None
                if want is None or written != want:
                    viol.append(('upload-complete-bytes-missing', {
                        'variant': variant, 'offset': off, 'size': size, 'written': len(written),
                        'expected': None if want is None else len(want)}))
                if st['closed_by_evil_at'] is None and not st['eof_seen']:
                    viol.append(('upload-complete-before-peer-closed', {'variant': variant, 'offset': off}))
        tm.edge_hooks.append(on_edge)

        link = await evil.dial(up.port, 'P', host=w.net.ip_of('up'))
        link.send(PeerTransferQueue.Request(remote_path))
        await wait_until(lambda: any(state_name(u) in ('COMPLETE', 'FAILED') for u in up.client.transfers.transfers),
                         400.0, step=0.5)
        await settle(3.0)
        ups = up.client.transfers.transfers
        final = {'states': [state_name(u) for u in ups], 'fail_reasons': [u.fail_reason for u in ups],
                 'offset': st['offset'], 'received': len(st['received']), 'virtual_s': round(w.now, 1)}
        if st['received']:
            obs['payload_conns'] += 1
            off = st['offset'] or 0
            if st['received'] != source[off:off + len(st['received'])]:
                viol.append(('payload-not-source-at-offset', {'variant': variant, 'offset': off}))
        tm.edge_hooks.clear()      # shutdown is not part of the judged history
        await w.stop_clients()
        return final

    out = run_world(f"{params['seed']}:C04:disd:{params['i']}", main, wall_timeout=120, monitors=[tm])
    tm.deactivate()
    _finish(res, out, viol, obs, trace, f'dis-dn|{variant}|{size}',
            {'role': 'downloader', 'variant': variant, 'size': size})


def _finish(res, out, viol, obs, trace, csig, sample):
    if out.inconclusive:
        res['inconclusive'] = out.inconclusive
        return
    for sig, detail in viol:
        runner.violation(res, 'dishonest:' + sig, **detail, trace=trace[-30:])
    for sig, detail in safety_net_violations(out):
        runner.violation(res, 'safety:' + sig, **detail, variant=sample.get('variant'))
    for k, v in obs.items():
        runner.add_obs(res, k, v)
    runner.add_cover(res, 'dishonest_variants', f"{sample['role']}:{sample['variant']}")
    if obs['offset_checks'] or obs['complete_checks'] or obs['dishonest_attempts']:
        res['csigs'].append(csig)
    sample['final'] = out.result
    sample['trace'] = trace[:25]
    res['sample'] = sample
