"""Builds a simulated world: loop, net, server, peers, real clients, monitors."""
from __future__ import annotations

import asyncio
import contextvars
import logging
import os
import random
import shutil
import tempfile
import traceback
from typing import Any, Callable, Optional

from . import simloop, simnet
from .simloop import SimLoop, settle
from .simnet import NODE, ConnPlan, SimNet


class LogCapture(logging.Handler):
    """Captures WARNING+ records of aioslsk loggers (global safety net)."""

    def __init__(self, world: 'World'):
        super().__init__(level=logging.WARNING)
        self.world = world
        self.records: list[dict] = []

    def emit(self, record: logging.LogRecord):
        try:
            msg = record.getMessage()
        except Exception:  # noqa
            msg = str(record.msg)
        exc = None
        if record.exc_info and record.exc_info[1] is not None:
            exc = record.exc_info[1]
        self.records.append({
            't': round(self.world.now, 6), 'level': record.levelname, 'logger': record.name,
            'msg': msg[:300], 'exc_type': type(exc).__name__ if exc is not None else None,
            'exc': repr(exc)[:300] if exc is not None else None,
            'tb': ''.join(traceback.format_exception(type(exc), exc, exc.__traceback__))[-1500:] if exc is not None else None,
        })


class ClientHandle:
    def __init__(self, world: 'World', name: str, client, settings, port: int, obf_port: int):
        self.world, self.name, self.client, self.settings = world, name, client, settings
        self.port, self.obf_port = port, obf_port
        self.events: list[tuple[float, Any]] = []
        self._listeners: list = []    # strong refs (event bus keeps weak ones)

    def listen(self, event_class, fn):
        self._listeners.append(fn)
        self.client.events.register(event_class, fn, priority=0)

    def record(self, *event_classes):
        def rec(event):
            self.events.append((self.world.now, event))
        for cls in event_classes:
            self.listen(cls, rec)

    async def call(self, coro):
        return await self.world.call(self.name, coro)

    def dead_background_tasks(self) -> list:
        """Library background tasks that ended although nobody cancelled them
        (an exception inside a BackgroundTask job silently ends the runner)."""
        from aioslsk.tasks import BackgroundTask
        out = []
        c = self.client
        owners = [c.network, c.distributed_network] + list(c.services)
        for owner in owners:
            for attr, val in vars(owner).items():
                if isinstance(val, BackgroundTask) and val._task is not None and val._task.done():
                    t = val._task
                    exc = None if t.cancelled() else t.exception()
                    out.append({'owner': type(owner).__name__, 'task': val.name,
                                'cancelled': t.cancelled(), 'exception': repr(exc)})
        return out

    def events_of(self, cls) -> list:
        return [(t, e) for t, e in self.events if isinstance(e, cls)]


class World:

    def __init__(self, seed: Any, *, exec_delay: float = 0.0):
        self.seed = seed
        self.rng = random.Random(f'{seed}')
        self.loop = SimLoop()
        asyncio.set_event_loop(self.loop)
        simloop.install_time_shims()
        simnet.install()
        self.net = SimNet(self.loop, random.Random(f'{seed}:net'))
        self.loop.sim_executor.rng = random.Random(f'{seed}:exec')
        self.loop.sim_executor.max_delay = exec_delay
        self.tmp = tempfile.mkdtemp(prefix='vf-world-')
        self.clients: dict[str, ClientHandle] = {}
        self.peers: dict[str, Any] = {}
        self.server = None
        self.errors: list[dict] = []          # harness errors (=> inconclusive, never violation)
        self.pending_pierce: dict[tuple[str, int], tuple[str, str]] = {}
        self._next_port = 40000
        self.log = LogCapture(self)
        self._logger = logging.getLogger('aioslsk')
        self._logger.addHandler(self.log)
        self._old_level = self._logger.level
        self._logger.setLevel(logging.WARNING)
        self._logger.propagate = False
        self.monitors: list = []

    # -- time ----------------------------------------------------------------
    @property
    def now(self) -> float:
        return self.loop.now

    # -- errors ----------------------------------------------------------------
    def harness_error(self, where: str, tb: str):
        self.errors.append({'where': where, 'tb': tb[-2000:], 't': round(self.now, 6)})

    # -- contexts ----------------------------------------------------------------
    def spawn(self, node: str, coro, name: Optional[str] = None) -> asyncio.Task:
        ctx = contextvars.copy_context()
        ctx.run(NODE.set, node)
        return self.loop.create_task(coro, name=name, context=ctx)

    async def call(self, node: str, coro):
        """Run ``coro`` in a task whose context carries ``node`` and await it."""
        return await self.spawn(node, coro, name=f'vf-call-{node}')

    # -- parties ----------------------------------------------------------------
    def alloc_ports(self) -> tuple[int, int]:
        p = self._next_port
        self._next_port += 10
        return p, p + 1

    async def start_server(self, **kw):
        from .parties import SimServer
        self.server = SimServer(self, **kw)
        await self.server.start()
        return self.server

    async def add_peer(self, name: str, *, listen: bool = True, obf: bool = True, clear: bool = True,
                       status: int = 2, register: bool = True):
        from .parties import SimPeer
        port, obf_port = self.alloc_ports()
        peer = SimPeer(self, name, port if clear else 0, obf_port if obf else 0, listen=listen, status=status)
        self.peers[name] = peer
        await peer.start(register=register)
        return peer

    def make_settings(self, name: str, *, port: Optional[int] = None, obf_port: Optional[int] = None,
                      shared: Optional[list] = None, **sections):
        from aioslsk.settings import (
            CredentialsSettings, ListeningSettings, NetworkSettings, ServerSettings, Settings,
            SharedDirectorySettingEntry, SharesSettings, UpnpSettings,
        )
        if port is None:
            port, obf_port_default = self.alloc_ports()
            if obf_port is None:
                obf_port = obf_port_default
        if obf_port is None:
            obf_port = 0
        base = os.path.join(self.tmp, name)
        os.makedirs(os.path.join(base, 'dl'), exist_ok=True)
        network = sections.pop('network', None)
        if network is None:
            network = NetworkSettings(
                server=ServerSettings(hostname='srv', port=self.server.port if self.server else 2416),
                listening=ListeningSettings(port=port, obfuscated_port=obf_port),
                upnp=UpnpSettings(enabled=False))
        shares = sections.pop('shares', None)
        if shares is None:
            dirs = []
            for entry in (shared or []):
                dirs.append(entry if not isinstance(entry, str) else SharedDirectorySettingEntry(path=entry))
            shares = SharesSettings(scan_on_start=False, download=os.path.join(base, 'dl'), directories=dirs)
        return Settings(
            credentials=CredentialsSettings(username=name, password='pw'),
            network=network, shares=shares, **sections)

    async def add_client(self, name: str, settings=None, *, start: bool = True, login: bool = True,
                         transfer_cache=None, shares_cache=None, scan: bool = False) -> ClientHandle:
        from aioslsk.client import SoulSeekClient
        if settings is None:
            settings = self.make_settings(name)
        client = SoulSeekClient(settings, transfer_cache=transfer_cache, shares_cache=shares_cache)
        handle = ClientHandle(
            self, name, client, settings,
            settings.network.listening.port, settings.network.listening.obfuscated_port)
        self.clients[name] = handle
        for mon in self.monitors:
            mon.attach_client(handle)
        if start:
            await self.call(name, client.start())
            if login:
                await self.call(name, client.login())
            if scan:
                await self.call(name, client.shares.scan())
        return handle

    # -- teardown ----------------------------------------------------------------
    async def stop_clients(self):
        for h in list(self.clients.values()):
            try:
                await self.call(h.name, h.client.stop())
            except Exception:  # noqa
                self.harness_error(f'stop {h.name}', traceback.format_exc())

    def close(self):
        self._logger.removeHandler(self.log)
        self._logger.setLevel(self._old_level)
        self._logger.propagate = True
        self.loop.shutdown_sim()
        shutil.rmtree(self.tmp, ignore_errors=True)


class CaseOutcome:
    """What running one scenario produced."""

    def __init__(self):
        self.result: Any = None
        self.inconclusive: Optional[str] = None
        self.harness_errors: list = []
        self.loop_exceptions: list = []
        self.log_records: list = []
        self.virtual: float = 0.0
        self.iterations: int = 0


def run_world(seed: Any, main: Callable[[World], Any], *, wall_timeout: float = 60.0,
              exec_delay: float = 0.0, monitors: Optional[list] = None,
              max_virtual: Optional[float] = 200000.0) -> CaseOutcome:
    """Create a world, run ``main(world)`` to completion, tear everything down."""
    out = CaseOutcome()
    world = World(seed, exec_delay=exec_delay)
    world.loop.max_virtual = max_virtual
    if monitors:
        for m in monitors:
            world.monitors.append(m)
            m.attach_world(world)
    try:
        try:
            out.result = world.loop.run_main(main(world), wall_timeout=wall_timeout)
        except simloop.WallClockWatchdog:
            out.inconclusive = f'wall-clock watchdog ({wall_timeout}s)'
        except simloop.VirtualBudgetExceeded:
            out.inconclusive = f'virtual time budget ({max_virtual}s) exceeded: main coroutine blocked?'
        except simloop.SimDeadlock as exc:
            out.inconclusive = f'sim deadlock: {exc}'
        except Exception:  # harness failure
            world.harness_error('main', traceback.format_exc())
    finally:
        out.harness_errors = world.errors
        out.loop_exceptions = list(world.loop.exceptions)
        out.log_records = world.log.records
        out.virtual = world.now
        out.iterations = world.loop.iterations
        try:
            world.close()
        except BaseException:  # noqa
            pass
    if out.harness_errors and not out.inconclusive:
        out.inconclusive = 'harness error: ' + out.harness_errors[0]['where'] + ': ' + \
            out.harness_errors[0]['tb'].strip().splitlines()[-1]
    return out
