"""C02 — hostile bytes never crash a reader or desynchronise the stream.

Three layers (``params['kind']``):

* ``parser``   direct calls of the four dispatchers and of ``decode_message_data`` on real
               connection objects, in batches, each call under a SIGALRM watchdog;
* ``stream`` / ``semantic``
               a real logged-in client on the simulated world; one stream of frames is written
               to ONE connection (server link, P link plain / obfuscated, D link) under a seeded
               TCP segmentation; good frames carry ids from a "good" id space, hostile frames are
               derived with the reference codec (``vf.refcodec``) and never contain a good id;
* ``accept``   incoming connections whose first frame is hostile, interleaved with well-formed
               PeerInit / PeerPierceFirewall connections;
* ``fresh``    the same question in a FRESH child interpreter per case: the first frame of a message class
               ever parsed is malformed inside field k, then valid frames of that class (direct and stream);
* ``bigframe`` a valid frame over 64 KiB followed back-to-back by small valid frames.

Every frame (good and hostile) is BUILT with the independent reference codec, never with the
code under test.
"""
from __future__ import annotations

import asyncio
import dataclasses
import logging
import random
import re
import signal
import zlib
from typing import Any, Optional

from vf import c01gen
from vf import refcodec as rc
from vf import runner

ID = 'C02'
LEVEL = 'exploration'
QUICK_SCALE = 4      # the quick tier was enlarged by this factor after MIN_OBS['quick'] was measured

GOOD_S = 'good-'                  # marker of good string ids
GOOD_I = 0x600D0000               # marker of good integer ids (upper 16 bits)
_GOOD_I_BYTES = b'\x0d\x60'       # the two upper bytes, little endian
_BAD_TEXT = bytes([0x81, 0x8D, 0x8F, 0x90, 0x9D])      # undefined in cp1252, invalid as UTF-8
MAX_BODY = 64 * 1024
STREAM_CAP = 1400                 # max body size of a hostile frame inside a stream
CALL_WATCHDOG = 10.0              # wall seconds per direct parser call

SIZES = {
    'quick': {'parser_batches': 160, 'batch': 500, 'streams': 1600, 'accept': 160, 'sem_random': 240,
              'fresh_direct': 32, 'fresh_stream': 16, 'bigframe': 96},
    'thorough': {'parser_batches': 8000, 'batch': 500, 'streams': 60000, 'accept': 3000, 'sem_random': 6000,
                 'fresh_direct': 128, 'fresh_stream': 64, 'bigframe': 1200},
}
MIN_OBS = {
    'quick': {'parser_calls': 20000, 'streams': 380, 'frames_sent': 7000, 'hostile_frames': 2500,
              'good_frames_checked': 3000, 'reader_alive_checks': 380, 'accept_cases': 36, 'accept_bad_judged': 80,
              'accept_good_judged': 60, 'semantic_cases': 120, 'collateral_checks': 700,
              # QUICK_FIXED (the runner halves them, it does not multiply them by QUICK_SCALE)
              'fresh_processes': 92, 'fresh_direct_valid_frames_judged': 10000, 'fresh_stream_valid_frames_judged': 4800,
              'fresh_first_parses_rejected': 7000, 'bigframe_cases': 180},
    'thorough': {'parser_calls': 2000000, 'streams': 29000, 'frames_sent': 500000, 'hostile_frames': 200000,
                 'good_frames_checked': 220000, 'reader_alive_checks': 29000, 'accept_cases': 1400,
                 'accept_bad_judged': 3000, 'accept_good_judged': 2400, 'semantic_cases': 3000,
                 'collateral_checks': 48000,
                 'fresh_processes': 370, 'fresh_direct_valid_frames_judged': 40000, 'fresh_stream_valid_frames_judged': 19000,
                 'fresh_first_parses_rejected': 26000, 'bigframe_cases': 2300},
}
QUICK_FIXED = ('fresh_processes', 'fresh_direct_valid_frames_judged', 'fresh_stream_valid_frames_judged',
               'fresh_first_parses_rejected', 'bigframe_cases')
SHARD_TIMEOUT = {'quick': 600, 'thorough': 5400}

RULE = (
    "parser: batches of 500 direct calls over 10 entry points (ServerMessage.deserialize_response, PeerInitialization"
    "Message / PeerMessage / DistributedMessage.deserialize_request, decode_message_data of a ServerConnection, of a P "
    "connection AWAITING_INIT and ESTABLISHED each plain and obfuscated, of an ESTABLISHED D connection) x 24 input "
    "classes drawn from random.Random(f'{seed}:C02:parser:{idx}'): a seeded in-domain value of a random message class "
    "of the family (vf.c01gen) encoded with the reference codec and then left valid / truncated / bit-flipped / given "
    "trailing bytes / a string or array count replaced by 2^32-1, remaining+1 or count-1 / string bytes replaced by "
    "0x81 0x8D 0x8F 0x90 0x9D / its zlib stream corrupted, truncated, given a wrong checksum, replaced by garbage, by "
    "a valid stream of other content or by a 1 MiB bomb; random bodies, known code + random payload, unknown codes, "
    "bodies of 0-3 bytes, frames of another family, lying length prefixes, raw inputs of 0-7 bytes; bodies <= 64 KiB. "
    "stream: one simulated world per stream (client 'me' logged in, SimPeers p1, p2); 5-40 frames written in one "
    "synchronous burst to one connection (kind by idx: server, peer, peer-obf, dist, dist-obf) whose TCP segmentation "
    "is fixed per connection (idx%4==0 bytes1, ==1 whole with header/body in different writes or all frames in one "
    "segment, else random / fixed:n) — only hostile frames with a consistent length prefix. semantic: the same "
    "runner with WELL-FORMED frames from a hand-written menu (inconsistent parallel arrays, repeated configuration "
    "messages, out-of-range enum values, notifications about unknown rooms/users, unsolicited replies) — every menu "
    "entry alone between good frames first (lowest case numbers), then seeded combinations. accept: 4-10 incoming "
    "connections per world at seeded offsets (several in the same instant), first frame hostile (undecodable "
    "according to the reference decoder), stalled (lying length) or well-formed PeerInit (plain / obfuscated port) or "
    "a solicited PeerPierceFirewall. A (sub)case is non-trivial when >= 1 hostile frame is followed by >= 1 good "
    "frame; distinct = (connection kind, multiset of hostile classes, good/bad position pattern, segmentation class), "
    "for parser batches (entry point, input class, outcome), for accept cases the entry sequence. "
    "fresh: parsing state that a class builds up while it is first used makes the verdict depend on the history of the "
    "process, so each fresh case runs in a CHILD INTERPRETER (python -m vf.props.c02) that has parsed nothing: for every "
    "message class with >= 1 field of all four parsers, the first frame of that class ever parsed is malformed inside "
    "on-wire field k (process index p: k = p mod n, variant = cut mid-field / cut at the field's last byte / cut before "
    "the field / a string or array count inside the field := 2^32-1, the last three also reaching nested records; "
    "consistent length prefix, zlib re-compressed), then two valid frames of the same class (seeded in-domain values, "
    "maximal and random presence pattern) are fed — mode direct: through the dispatcher or decode_message_data of the "
    "matching connection object (rotating, obfuscated included) and the returned object is compared field by field "
    "with the value that was encoded; mode stream: one simulated world in the child, every class of the family on the "
    "server / P / D link (plain for even p, obfuscated port for odd p) as one burst malformed, valid, valid, ... and "
    "the valid frames must appear in order among the MessageReceivedEvents of that connection with the right content. "
    "A control child per shard feeds the same valid frames without the malformed ones; what fails there is not judged. "
    "bigframe: 0-2 small good frames, one VALID frame of 65537..400000 bytes (AdminMessage, PeerUserInfoReply with a "
    "picture, zlib PeerDirectoryContentsReply, DistributedSearchRequest; boundary sizes 65537, 65540, 131072/3 forced) "
    "and 1-3 small good frames written back-to-back (one write / one segment, random, fixed:4096, fixed:65536, "
    "fixed:1000) on server, P, D links plain and obfuscated: the usual stream oracle."
)
ASSUMPTIONS = [
    "Statement readings: a frame whose length prefix is consistent and whose body the connection rejects must leave "
    "the connection open and the reader running (closing an ESTABLISHED connection on it is reported); a hostile frame "
    "that DECODES to some message is 'yields a message': whatever its handler then does as protocol semantics — "
    "including closing the connection on request (PeerSearchReply, a refused parent) — is not judged, only that the "
    "reader does not end while the connection stays open and that later good frames arrive once and in order "
    "(good frames after a legitimate close are not judged).",
    "A logged handler error ('error during callback', 'exception notifying listener', 'failed to serialize message') "
    "for a frame the handler cannot digest is counted (handler_errors_logged), not reported; other ERROR records with "
    "an exception and every loop exception-handler entry are reported as safety:*.",
    "Frames whose length prefix lies are used only as FIRST frame of an accepted connection (class stalled-*: the "
    "connection must be closed by the read timeout, judged at 70 virtual s) and in direct parser calls; inside streams "
    "they legitimately desynchronise TCP and are not used.",
    "Good frames are harmless to the handlers by construction (status of unknown users, admin messages, queue "
    "places of unknown transfers, distributed search requests nobody answers, child depth); a good frame that closes "
    "the connection would make the case inconclusive, not a violation.",
    "vf.refcodec / pinned/layout.json describe the wire format (trusted, checked by C01); the reference decoder decides "
    "which first frames are undecodable in accept cases. zlib of the harness interpreter builds the compressed frames.",
    "Observation of a stream: MessageReceivedEvent (listener priority 0, i.e. before the library's handlers), "
    "ConnectionStateChangedEvent via ConnMonitor, the connection's _reader_task object held from before the first "
    "write, the SimNet endpoint of the client. conn.decode_message_data is wrapped PER INSTANCE by a pass-through "
    "recorder used only to name the frame that preceded a reader death / close (classification, not the rule).",
    "Not judged: memory / CPU exhaustion (huge declared lengths are not materialised; a WishlistInterval of 0 makes "
    "the wishlist task spin without advancing time and is therefore excluded from random streams — reported "
    "separately), hostile bytes on F connections, hostile frames while a connection is being closed, "
    "connection life-cycle event order (C10).",
    "fresh family: a child interpreter imports aioslsk afresh; in stream mode the login exchange has parsed "
    "Login.Response and the replies to the client's own requests before the malformed frame of those few classes (that "
    "IS the history of a real client). Classes without fields, WishlistInterval (known finding: a second frame ends "
    "the reader) and PeerSearchReply (closes on purpose) are excluded from stream mode, not from direct mode. The "
    "expected object of a valid frame is the plain tree that was encoded (absent optional fields: the pinned default).",
    "The per-call watchdog of the parser layer is wall clock (10 s for a body <= 64 KiB): a hang cannot be judged "
    "otherwise.",
]
WHAT_FAILS = {
    'parser:': 'a parser entry point raised something other than the documented rejection, returned a non-message, '
               'or did not return',
    'stream:good-frame-lost': 'a valid frame written after a hostile frame was never delivered',
    'stream:good-frame-duplicated': 'a valid frame was delivered more than once',
    'stream:order': 'valid frames were delivered out of order',
    'stream:reader-dead-connection-open': 'the reader task of a connection ended while the connection stayed open',
    'stream:connection-closed-by-hostile-frame': 'an established connection was closed because of a rejected frame',
    'stream:reader-not-at-frame-boundary': 'after all frames were delivered the reader was inside a frame (desync)',
    'stream:reader-did-not-end-at-close': 'after the remote end closed, the connection did not report CLOSING, CLOSED or '
                                          'its reader task kept running',
    'stream:reader-exception-at-close': 'the reader task ended with an exception when the remote end closed',
    'stream:other-connection-affected': 'a hostile stream on one connection broke another connection',
    'accept:bad-first-frame-not-closed': 'an accepted connection with an undecodable first frame stayed open',
    'accept:stalled-first-frame-not-closed': 'an accepted connection with an incomplete first frame outlived the read timeout',
    'accept:good-connection-affected': 'a well-formed incoming connection was not initialised / lost a frame / was closed',
    'accept:listener-down': 'a listening connection stopped accepting',
    'safety:': 'loop exception handler entry or unexpected ERROR record',
    'fresh:valid-frame-after-malformed-first-frame-of-its-class': 'in a process whose first frame of a message class was '
        'malformed, later valid frames of that class are rejected / decode to another object / are not delivered',
    'stream:good-frame-lost:': 'a valid frame written after a hostile frame (or right behind a frame over 64 KiB) was never delivered',
}

FAMILIES = ('server', 'peerinit', 'peer', 'distributed')
COMMON_CLASSES = ('random-body', 'known-code-random-payload', 'unknown-code', 'truncated', 'bit-flip', 'count-lie-max',
                  'count-lie-plus1', 'count-lie-short', 'bad-text', 'short-body', 'zero-length', 'trailing-bytes',
                  'wrong-family', 'valid-random-message')
ZLIB_CLASSES = ('zlib-corrupt', 'zlib-truncated', 'zlib-bad-checksum', 'zlib-garbage', 'zlib-wrong-payload',
                'zlib-count-lie', 'zlib-bomb')
PARSER_ONLY = ('prefix-lie', 'raw-short', 'raw-random')
# message classes never used as template of a hostile frame INSIDE A STREAM (see ASSUMPTIONS)
STREAM_TEMPLATE_EXCLUDE = {'WishlistInterval.Response'}
# additionally excluded (in 4 of 5 streams) for classes that may stay decodable: a decoded PeerSearchReply makes the
# client close the connection on purpose, which ends the judged part of the stream
STREAM_VALID_EXCLUDE = {'PeerSearchReply.Request'}
MAY_STAY_VALID = ('valid-random-message', 'trailing-bytes', 'bit-flip', 'count-lie-short', 'zlib-bomb', 'zlib-wrong-payload')


# --------------------------------------------------------------------------------------------------
# the forge: good and hostile frames from the reference codec

def _track_val(lay: rc.Layout, tname: str, value: Any, subtype: Optional[str], out: bytearray, marks: list):
    if tname == 'string':
        raw = value.encode('utf-8')
        marks.append(('s', len(out), len(raw)))
        out += len(raw).to_bytes(4, 'little') + raw
    elif tname == 'bytearr':
        raw = bytes(value)
        marks.append(('b', len(out), len(raw)))
        out += len(raw).to_bytes(4, 'little') + raw
    elif tname == 'array':
        marks.append(('a', len(out), len(value)))
        out += len(value).to_bytes(4, 'little')
        for item in value:
            _track_val(lay, subtype, item, None, out, marks)
    elif tname in lay.records:
        _track_fields(lay, lay.records[tname]['fields'], value, out, marks)
    else:
        out += rc.enc_value(lay, tname, value)


def _track_fields(lay: rc.Layout, fspecs: list, values: dict, out: bytearray, marks: list):
    """Like rc.enc_fields, but remembers where every string / blob / array count sits."""
    for fs in fspecs:
        if not rc._on_wire(fs, values):
            continue
        _track_val(lay, fs['type'], values.get(fs['name']), fs.get('subtype'), out, marks)


def frame_of(body: bytes) -> bytes:
    return len(body).to_bytes(4, 'little') + body


class Forge:
    def __init__(self):
        self.lay = rc.layout()
        self.gen = c01gen.Generator(self.lay)
        self.specs: dict[str, list] = {f: [] for f in FAMILIES}
        self.server_requests = []
        for m in self.lay.messages:
            if m['family'] == 'server' and m['kind'] != 'Response':
                self.server_requests.append(m)
                continue
            self.specs[m['family']].append(m)
        self.first_bytes = {f: {m['code'] & 0xFF for m in self.specs[f]} for f in FAMILIES}
        self.codes = {f: {m['code'] for m in self.specs[f]} for f in FAMILIES}
        self.width = {'server': 4, 'peer': 4, 'peerinit': 1, 'distributed': 1}

    def spec(self, name: str) -> dict:
        return self.lay.by_name[name]

    def encode(self, name: str, **values) -> bytes:
        """A well-formed frame of message ``name`` (absent optional fields may be omitted)."""
        spec = self.lay.by_name[name]
        full = {fs['name']: values.get(fs['name']) for fs in spec['fields']}
        unknown = set(values) - set(full)
        if unknown:
            raise RuntimeError(f'{name}: unknown fields {unknown}')
        return rc.encode_message(spec, full, self.lay)

    # -- taint: a hostile frame must never carry a good id --------------------------------------
    @staticmethod
    def tainted(body: bytes) -> bool:
        if GOOD_S.encode() in body or _GOOD_I_BYTES in body:
            return True
        # a compressed payload that inflates (even partially) to something carrying a good id
        for off in (1, 4):
            if len(body) > off + 2 and body[off] == 0x78:
                try:
                    plain = zlib.decompressobj().decompress(body[off:], 1 << 21)
                except zlib.error:
                    continue
                if GOOD_S.encode() in plain or _GOOD_I_BYTES in plain:
                    return True
        return False

    # -- templates ---------------------------------------------------------------------------------
    def template(self, rng: random.Random, fam: str, cap: int, want: str = '', exclude=()) -> dict:
        pool = self.specs[fam]
        if want.startswith('zlib'):
            pool = [m for m in pool if m['compressed']]
        for _ in range(200):
            spec = rng.choice(pool)
            if spec['name'] in exclude:
                continue
            tree, _pat, _lab = self.gen.gen_fields(rng, spec['fields'], c01gen.MIX, 0, rng.randrange(64))
            payload, marks = bytearray(), []
            try:
                _track_fields(self.lay, spec['fields'], tree, payload, marks)
            except rc.RefError:
                continue
            if len(payload) > cap:
                continue
            if want == 'marks' and not marks:
                continue
            if want == 'count>0' and not any(m[2] > 0 for m in marks):
                continue
            if want == 'string' and not any(m[0] == 's' and m[2] > 0 for m in marks):
                continue
            if want == 'payload' and not payload:
                continue
            code = spec['code'].to_bytes(rc.INT_TYPES[spec['code_width']][0], 'little')
            return {'spec': spec, 'code': code, 'payload': bytes(payload), 'marks': marks}
        raise RuntimeError(f'no template for {fam}/{want}')

    @staticmethod
    def body_of(t: dict, payload: Optional[bytes] = None) -> bytes:
        payload = t['payload'] if payload is None else payload
        if t['spec']['compressed']:
            payload = zlib.compress(payload)
        return t['code'] + payload

    def classes_for(self, fam: str) -> tuple:
        return COMMON_CLASSES + (ZLIB_CLASSES if fam == 'peer' else ())

    def _unknown_code(self, rng: random.Random, fam: str) -> bytes:
        if self.width[fam] == 4:
            while True:
                c = rng.choice((0, 2, 6, 8, 9, 10, 19, 20, 999, 1002, 0xFFFFFFFF, 0x80000000, 0x7FFFFFFF,
                                rng.randrange(161, 1000), rng.getrandbits(32), rng.getrandbits(16)))
                if c not in self.codes[fam]:
                    return c.to_bytes(4, 'little')
        while True:
            c = rng.randrange(256)
            if c not in self.first_bytes[fam]:
                return bytes([c])

    def _lie(self, rng: random.Random, t: dict, how: str) -> Optional[bytes]:
        marks = [m for m in t['marks'] if how != 'short' or m[2] > 0]
        if not marks:
            return None
        kind, off, n = rng.choice(marks)
        p = bytearray(t['payload'])
        if how == 'max':
            new = 0xFFFFFFFF
        elif how == 'plus1':
            new = len(p) - (off + 4) + 1          # one more than everything that follows
        else:
            new = n - 1
        p[off:off + 4] = new.to_bytes(4, 'little')
        return bytes(p)

    def _hostile_body(self, rng: random.Random, fam: str, cls: str, cap: int, exclude=(), exclude_valid=()) -> Optional[bytes]:
        w = self.width[fam]
        if cls in MAY_STAY_VALID and exclude_valid:
            exclude = set(exclude) | set(exclude_valid)
        if cls == 'random-body':
            return rng.randbytes(rng.choice((4, 5, 8, 12, 16, 40, 100, 200)))
        if cls == 'known-code-random-payload':
            spec = rng.choice(self.specs[fam])
            code = spec['code'].to_bytes(rc.INT_TYPES[spec['code_width']][0], 'little')
            return code + rng.randbytes(rng.choice((0, 1, 3, 4, 7, 16, 80)))
        if cls == 'unknown-code':
            return self._unknown_code(rng, fam) + rng.randbytes(rng.choice((0, 0, 4, 9, 40)))
        if cls == 'short-body':
            if w == 4:
                return rng.randbytes(rng.randint(1, 3))
            return bytes([rng.choice(sorted(self.first_bytes[fam]))]) + rng.randbytes(rng.randint(0, 2))
        if cls == 'zero-length':
            return b''
        if cls == 'wrong-family':
            other = rng.choice([f for f in FAMILIES if f != fam] + ['server-request'])
            if other == 'server-request':
                spec = rng.choice(self.server_requests)
                tree, _p, _l = self.gen.gen_fields(rng, spec['fields'], c01gen.MIX, 0, rng.randrange(16))
                try:
                    return rc.encode_message(spec, tree, self.lay)[4:]
                except rc.RefError:
                    return None
            return self.body_of(self.template(rng, other, cap))
        if cls == 'valid-random-message':
            return self.body_of(self.template(rng, fam, cap, exclude=exclude))
        if cls == 'trailing-bytes':
            return self.body_of(self.template(rng, fam, cap, exclude=exclude)) + rng.randbytes(rng.randint(1, 16))
        if cls == 'truncated':
            body = self.body_of(self.template(rng, fam, cap, 'payload'))
            return body[:rng.randint(w, len(body) - 1)] if len(body) > w else None
        if cls == 'bit-flip':
            body = bytearray(self.body_of(self.template(rng, fam, cap, 'payload', exclude=exclude)))
            for _ in range(rng.randint(1, 3)):
                body[rng.randrange(len(body))] ^= 1 << rng.randrange(8)
            return bytes(body)
        if cls in ('count-lie-max', 'count-lie-plus1', 'count-lie-short'):
            t = self.template(rng, fam, cap, 'count>0' if cls == 'count-lie-short' else 'marks', exclude=exclude)
            p = self._lie(rng, t, cls.split('-')[-1])
            return None if p is None else self.body_of(t, p)
        if cls == 'bad-text':
            t = self.template(rng, fam, cap, 'string')
            kind, off, n = rng.choice([m for m in t['marks'] if m[0] == 's' and m[2] > 0])
            p = bytearray(t['payload'])
            p[off + 4:off + 4 + n] = bytes(rng.choice(_BAD_TEXT) for _ in range(n))
            return self.body_of(t, bytes(p))
        # -- zlib ------------------------------------------------------------------------------------
        t = self.template(rng, 'peer', cap, 'zlib', exclude=exclude)
        z = bytearray(zlib.compress(t['payload']))
        if cls == 'zlib-corrupt':
            if len(z) < 8:
                return None
            z[rng.randrange(2, len(z) - 4)] ^= rng.randrange(1, 256)
        elif cls == 'zlib-truncated':
            z = z[:rng.randint(1, len(z) - 1)]
        elif cls == 'zlib-bad-checksum':
            z[-1] ^= 0x5A
        elif cls == 'zlib-garbage':
            z = bytearray(rng.randbytes(rng.choice((1, 2, 6, 30, 120))))
        elif cls == 'zlib-wrong-payload':
            inner = rng.randbytes(rng.randint(0, 60)) if rng.random() < 0.5 else \
                t['payload'][:rng.randint(0, max(0, len(t['payload']) - 1))]
            z = bytearray(zlib.compress(inner))
        elif cls == 'zlib-count-lie':
            p = self._lie(rng, t, rng.choice(('max', 'plus1')))
            if p is None:
                return None
            z = bytearray(zlib.compress(p))
        elif cls == 'zlib-bomb':
            z = bytearray(zlib.compress(bytes(1 << 20)))
        else:
            raise ValueError(cls)
        return t['code'] + bytes(z)

    def hostile(self, rng: random.Random, fam: str, cls: str, cap: int = STREAM_CAP, exclude=(), exclude_valid=()) -> bytes:
        """A hostile frame of class ``cls`` with a CONSISTENT length prefix, free of good ids."""
        for _ in range(60):
            body = self._hostile_body(rng, fam, cls, cap, exclude, exclude_valid)
            if body is None or len(body) > min(MAX_BODY, cap + 4096) or self.tainted(body):
                continue
            return frame_of(body)
        raise RuntimeError(f'cannot forge {fam}/{cls}')

    def parser_input(self, rng: random.Random, fam: str, cls: str) -> bytes:
        cap = rng.choice((300, 300, 300, 2000, 60000))
        if cls == 'raw-short':
            return rng.randbytes(rng.randint(0, 7))
        if cls == 'raw-random':
            return rng.randbytes(rng.choice((8, 9, 16, 64, 300)))
        if cls == 'prefix-lie':
            body = self.hostile(rng, fam, rng.choice(('valid-random-message', 'truncated', 'random-body')), cap)[4:]
            n = rng.choice((0, 1, len(body) - 1, len(body) + 1, 0xFFFFFFFF, 0x7FFFFFFF)) & 0xFFFFFFFF
            return n.to_bytes(4, 'little') + body
        return self.hostile(rng, fam, cls, cap)

    # -- good frames ---------------------------------------------------------------------------------
    GOOD_KINDS = {
        'server': ('GetUserStatus.Response', 'GetUserStats.Response', 'AdminMessage.Response', 'AddPrivilegedUser.Response'),
        'peer': ('PeerPlaceInQueueReply.Request', 'PeerUploadFailed.Request', 'PeerPlaceInQueueRequest.Request',
                 'PeerDirectoryContentsReply.Request'),
        'distributed': ('DistributedSearchRequest.Request', 'DistributedChildDepth.Request'),
    }

    def good(self, fam: str, n: int, which: int = 0, big: bool = False) -> tuple[str, bytes]:
        """Good frame number ``n`` (0 <= n < 65536) of family ``fam``."""
        name = self.GOOD_KINDS[fam][which % len(self.GOOD_KINDS[fam])]
        sid, iid = f'{GOOD_S}{n}', GOOD_I | n
        if name == 'GetUserStatus.Response':
            v = {'username': sid, 'status': 2, 'privileged': False}
        elif name == 'GetUserStats.Response':
            v = {'username': sid, 'user_stats': {'avg_speed': 1000, 'uploads': 3, 'shared_file_count': 5,
                                                 'shared_folder_count': 2}}
        elif name == 'AdminMessage.Response':
            v = {'message': sid}
        elif name == 'AddPrivilegedUser.Response':
            v = {'username': sid}
        elif name == 'PeerPlaceInQueueReply.Request':
            v = {'filename': sid, 'place': 1}
        elif name in ('PeerUploadFailed.Request', 'PeerPlaceInQueueRequest.Request'):
            v = {'filename': sid}
        elif name == 'PeerDirectoryContentsReply.Request':
            r = random.Random(f'c02-good-dir:{n}')
            files = [{'unknown': 1, 'filename': '%08x.mp3' % r.getrandbits(32), 'filesize': r.getrandbits(24),
                      'extension': 'mp3', 'attributes': [{'key': 0, 'value': 320}, {'key': 1, 'value': r.randrange(600)}]}
                     for _ in range(60 if big else 2)]
            v = {'ticket': iid, 'directory': 'music', 'directories': [{'name': 'music', 'files': files}]}
        elif name == 'DistributedSearchRequest.Request':
            v = {'unknown': 0x31, 'username': 'searcher', 'ticket': iid, 'query': 'zzqq nothing'}
        elif name == 'DistributedChildDepth.Request':
            v = {'depth': iid}
        else:
            raise ValueError(name)
        return name, self.encode(name, **v)


_FORGE: Optional[Forge] = None


def forge() -> Forge:
    global _FORGE
    if _FORGE is None:
        _FORGE = Forge()
    return _FORGE


def good_id(msg) -> Optional[int]:
    """The good id carried by a received message object, if any."""
    try:
        flds = dataclasses.fields(msg)
    except TypeError:
        return None
    for f in flds:
        v = getattr(msg, f.name, None)
        if isinstance(v, str) and v.startswith(GOOD_S):
            m = re.match(r'\d+', v[len(GOOD_S):])
            return int(m.group(0)) if m else -1
        if isinstance(v, int) and not isinstance(v, bool) and (v >> 16) == (GOOD_I >> 16):
            return v & 0xFFFF
    return None


# --------------------------------------------------------------------------------------------------
# layer 1: direct parser calls

class _CallWatchdog(BaseException):
    """SIGALRM inside a direct parser call."""


def _entry_points():
    from aioslsk.network import connection as C
    from aioslsk.protocol import messages as M

    def peer_conn(obf: bool, typ: str, established: bool):
        conn = C.PeerConnection('1.2.3.4', 1234, None, obfuscated=obf, connection_type=typ)   # type: ignore[arg-type]
        if conn.connection_state != C.PeerConnectionState.AWAITING_INIT:
            raise RuntimeError('fresh PeerConnection is not AWAITING_INIT')
        if established:
            conn.connection_state = C.PeerConnectionState.ESTABLISHED
        return conn

    server = C.ServerConnection('server.sim', 2416, None)                                      # type: ignore[arg-type]
    # (name, family, callable, is decode_message_data, obfuscated)
    return [
        ('ServerMessage.deserialize_response', 'server', M.ServerMessage.deserialize_response, False, False),
        ('PeerInitializationMessage.deserialize_request', 'peerinit', M.PeerInitializationMessage.deserialize_request, False, False),
        ('PeerMessage.deserialize_request', 'peer', M.PeerMessage.deserialize_request, False, False),
        ('DistributedMessage.deserialize_request', 'distributed', M.DistributedMessage.deserialize_request, False, False),
        ('decode:server', 'server', server.decode_message_data, True, False),
        ('decode:peer-awaiting-init', 'peerinit', peer_conn(False, 'P', False).decode_message_data, True, False),
        ('decode:peer-awaiting-init-obf', 'peerinit', peer_conn(True, 'P', False).decode_message_data, True, True),
        ('decode:peer-established', 'peer', peer_conn(False, 'P', True).decode_message_data, True, False),
        ('decode:peer-established-obf', 'peer', peer_conn(True, 'P', True).decode_message_data, True, True),
        ('decode:distributed-established', 'distributed', peer_conn(False, 'D', True).decode_message_data, True, False),
    ]


def _hx(data: bytes, limit: int = 300) -> str:
    h = bytes(data).hex()
    return h if len(h) <= 2 * limit else h[:2 * limit] + f'...({len(data)} bytes)'


def _run_parser(res: dict, params: dict):
    from aioslsk.exceptions import MessageDeserializationError
    from aioslsk.protocol.primitives import MessageDataclass
    fg = forge()
    rng = random.Random(f"{params['seed']}:{ID}:parser:{params['idx']}")
    eps = _entry_points()
    n = params['n']
    reported: set = set()

    def report(sig: str, **detail):
        if sig not in reported:
            reported.add(sig)
            runner.violation(res, sig, **detail)

    lib_logger = logging.getLogger('aioslsk')
    null = logging.NullHandler()
    old_prop, old_level = lib_logger.propagate, lib_logger.level
    lib_logger.addHandler(null)
    lib_logger.propagate = False
    lib_logger.setLevel(logging.ERROR)

    def on_alarm(signum, frame):
        raise _CallWatchdog()
    old_handler = signal.signal(signal.SIGALRM, on_alarm)
    sample = []
    try:
        for i in range(n):
            name, fam, fn, is_decode, obf = eps[(i + params['idx']) % len(eps)]
            classes = fg.classes_for(fam) + PARSER_ONLY
            cls = classes[rng.randrange(len(classes))]
            plain = fg.parser_input(rng, fam, cls)
            if obf and not (cls == 'raw-short' and rng.random() < 0.5):
                data = rc.obf_encode(plain, c01gen.gen_key(rng))
            else:
                data = plain
            outcome = None
            signal.setitimer(signal.ITIMER_REAL, CALL_WATCHDOG)
            try:
                try:
                    ret = fn(data)
                finally:
                    signal.setitimer(signal.ITIMER_REAL, 0)
                if isinstance(ret, MessageDataclass):
                    outcome = 'message'
                else:
                    outcome = 'returned-non-message'
                    report(f'parser:{name}:returned-{type(ret).__name__}', input_class=cls, data_hex=_hx(data),
                           plain_hex=_hx(plain), returned=repr(ret)[:200])
            except _CallWatchdog:
                outcome = 'watchdog'
                report(f'parser:{name}:no-return-within-watchdog', input_class=cls, data_hex=_hx(data),
                       plain_hex=_hx(plain), watchdog_s=CALL_WATCHDOG)
            except MessageDeserializationError as exc:
                cause = exc.__cause__
                outcome = 'rejected:' + (type(cause).__name__ if cause is not None else 'no-cause')
                if not is_decode:
                    pass        # a dispatcher may raise any Exception
            except Exception as exc:  # noqa
                outcome = 'raised:' + type(exc).__name__
                if is_decode:
                    report(f'parser:{name}:raised-{type(exc).__name__}', input_class=cls, data_hex=_hx(data),
                           plain_hex=_hx(plain), error=repr(exc)[:300],
                           contract='decode_message_data raises exactly MessageDeserializationError')
            except KeyboardInterrupt:
                raise
            except BaseException as exc:  # noqa
                outcome = 'base-exception:' + type(exc).__name__
                report(f'parser:{name}:raised-{type(exc).__name__}', input_class=cls, data_hex=_hx(data),
                       plain_hex=_hx(plain), error=repr(exc)[:300], contract='only Exception subclasses may escape')
            runner.add_obs(res, 'parser_calls')
            runner.add_cover(res, 'parser_outcomes', f'{name.split(":")[0].split(".")[0]}|{outcome}')
            runner.add_cover(res, 'parser_classes', cls)
            res['csigs'].append(f'parser|{name}|{cls}|{outcome}')
            if len(sample) < 6:
                sample.append({'entry_point': name, 'class': cls, 'data_hex': _hx(data, 60), 'outcome': outcome})
    finally:
        signal.setitimer(signal.ITIMER_REAL, 0)
        signal.signal(signal.SIGALRM, old_handler)
        lib_logger.removeHandler(null)
        lib_logger.propagate = old_prop
        lib_logger.setLevel(old_level)
    res['evaluations'] = n
    res['sample'] = {'kind': 'parser', 'params': params, 'first_calls': sample}


# --------------------------------------------------------------------------------------------------
# layers 2 and 3: one stream of frames on one connection of a real client

CONN_KINDS = ('server', 'peer', 'peer-obf', 'dist', 'dist-obf')
FAMILY_OF = {'server': 'server', 'peer': 'peer', 'peer-obf': 'peer', 'dist': 'distributed', 'dist-obf': 'distributed'}
SEGS = ('whole', 'bytes1', 'random', 'fixed:2', 'fixed:3', 'fixed:5', 'fixed:7', 'fixed:64')
WMODES = ('one-write', 'per-frame', 'split-header', 'random-slices')
HANDLER_ERROR_MSGS = ('error during callback', 'exception notifying listener', 'failed to serialize message')
_BRACKET = re.compile(r'\[[^\]]*\]-?')


def seg_class(seg: str, wmode: str) -> str:
    if seg == 'whole':
        return f'whole/{wmode}'
    if seg.startswith('fixed'):
        return 'fixed'
    return seg


def _pattern(items: list) -> str:
    """Run-length pattern of good / bad positions, e.g. g2b1g3."""
    out, prev, n = [], None, 0
    for it in items:
        c = 'g' if 'g' in it else 'b'
        if c == prev:
            n += 1
        else:
            if prev is not None:
                out.append(f'{prev}{n}')
            prev, n = c, 1
    if prev is not None:
        out.append(f'{prev}{n}')
    return ''.join(out)


def gen_stream_items(rng: random.Random, kind: str, seg: str) -> list[dict]:
    """Random stream: items {'g': n, 'name', 'wire'} (good) or {'b': class, 'wire'} (hostile)."""
    fg = forge()
    fam = FAMILY_OF[kind]
    small = seg == 'bytes1'
    n = rng.randint(5, 18 if small else 40)
    p_bad = rng.choice((0.2, 0.4, 0.6, 0.8))
    classes = list(fg.classes_for(fam))
    if rng.random() < 0.6:
        classes = rng.sample(classes, rng.randint(1, 4))
    marks = ['b' if rng.random() < p_bad else 'g' for _ in range(n)]
    if rng.random() < 0.85:
        marks[-1] = 'g'
    if 'b' not in marks[:-1]:
        marks[rng.randrange(0, n - 1)] = 'b'
    items, gid = [], rng.randrange(0, 60000)
    which0 = rng.randrange(8)
    ex_valid = STREAM_VALID_EXCLUDE if rng.random() < 0.8 else ()
    for m in marks:
        if m == 'g':
            gid = (gid + 1) % 65536
            name, wire = fg.good(fam, gid, which0 + rng.randrange(2) * rng.randrange(4),
                                 big=(not small and rng.random() < 0.3))
            if small and len(wire) > 300:
                name, wire = fg.good(fam, gid, 0)
            items.append({'g': gid, 'name': name, 'wire': wire})
        else:
            cls = rng.choice(classes)
            cap = 160 if small else rng.choice((200, 200, 600, STREAM_CAP))
            items.append({'b': cls, 'wire': fg.hostile(rng, fam, cls, cap, exclude=STREAM_TEMPLATE_EXCLUDE,
                                                       exclude_valid=ex_valid)})
    return items


def _writes(rng: random.Random, wires: list[bytes], wmode: str, header: int) -> list[bytes]:
    if wmode == 'one-write':
        return [b''.join(wires)]
    if wmode == 'per-frame':
        return list(wires)
    if wmode == 'split-header':
        out = []
        for w in wires:
            out.append(w[:header])
            if len(w) > header:
                out.append(w[header:])
        return out
    data = b''.join(wires)
    out, pos = [], 0
    while pos < len(data):
        k = rng.choice((1, 2, 3, 4, 5, 8, 13, 64, 500))
        out.append(data[pos:pos + k])
        pos += k
    return out


def _brief(items: list, upto: Optional[int] = None) -> list:
    out = []
    for i, it in enumerate(items if upto is None else items[:upto + 1]):
        if 'g' in it:
            out.append({'i': i, 'good': it['g'], 'message': it['name'], 'hex': _hx(it['wire'], 48)})
        else:
            out.append({'i': i, 'hostile': it['b'], 'hex': _hx(it['wire'], 160)})
    return out


def _run_stream_world(res: dict, world_seed: str, kind: str, items: list, seg: str, wmode: str, layer: str) -> Optional[dict]:
    """Writes ``items`` to one connection of kind ``kind`` and judges the outcome (see module doc)."""
    from aioslsk.events import MessageReceivedEvent
    from aioslsk.network.connection import ConnectionState, PeerConnectionState
    from vf.monitors import ConnMonitor, safety_net_violations
    from vf.parties import SERVER_PORT
    from vf.simloop import settle
    from vf.simnet import ConnPlan
    from vf.world import World, run_world

    fg = forge()
    fam = FAMILY_OF[kind]
    rng = random.Random(f'{world_seed}:wire')
    cm = ConnMonitor()
    viol: list[tuple[str, dict]] = []
    info: dict = {}
    lat = (0.0002, 0.0015)

    def planner(node, host, port, attempt):
        if kind == 'server' and node == 'me' and port == SERVER_PORT:
            return ConnPlan(latency=0.005, seg=seg, seg_lat=lat)
        if kind != 'server' and node == 'p1':
            return ConnPlan(latency=0.005, seg=seg, seg_lat=lat)
        return ConnPlan(latency=0.005, seg='random', seg_lat=lat)

    def client_conn_of(net, link):
        for c in net.peer_connections:
            if c._writer is not None and c._writer.transport.conn is link.conn:
                return c
        return None

    def label_of(it: Optional[dict]) -> str:
        if it is None:
            return 'after-the-stream'
        return 'good-frame' if 'g' in it else it['b']

    async def main(w: World):
        w.net.planner = planner
        await w.start_server()
        h = await w.add_client('me')
        h.record(MessageReceivedEvent)
        net = h.client.network
        p1 = await w.add_peer('p1')
        p2 = await w.add_peer('p2')
        await settle(1.0)
        ip_me = w.net.ip_of('me')
        session = w.server.session_of('me')
        bystander = await p2.dial(h.port, 'P', host=ip_me)
        link = None
        if kind == 'server':
            conn, writer = net.server_connection, session.writer
        else:
            obf = kind.endswith('-obf')
            link = await p1.dial(h.obf_port if obf else h.port, 'P' if fam == 'peer' else 'D', host=ip_me, obfuscated=obf)
            writer = link.writer
        await settle(0.5)
        if link is not None:
            conn = client_conn_of(net, link)
            if conn is None or conn.connection_state != PeerConnectionState.ESTABLISHED:
                raise RuntimeError(f'setup: no established {kind} connection')
        by_conn = client_conn_of(net, bystander)
        reader_task = conn._reader_task
        if conn.state != ConnectionState.CONNECTED or reader_task is None or reader_task.done() or by_conn is None:
            raise RuntimeError(f'setup: {kind} connection not ready')
        tr = writer.transport
        sc, d = tr.conn, tr.dir
        if sc.delivered[d] != sc.written[d]:
            raise RuntimeError('setup: frames still in flight before the stream')

        outcomes: list[tuple[str, str]] = []
        orig_decode = conn.decode_message_data

        def recording_decode(data):
            try:
                m = orig_decode(data)
            except BaseException as exc:  # noqa — recorded and re-raised unchanged
                outcomes.append(('raise', type(exc).__name__))
                raise
            outcomes.append(('msg', type(m).__qualname__))
            return m
        conn.decode_message_data = recording_decode

        # -- the burst: no await between the writes, nothing can interleave ----------------------------
        wires = []
        for it in items:
            wire = it['wire']
            if kind == 'peer-obf':
                wire = rc.obf_encode(wire, c01gen.gen_key(rng))
            wires.append(wire)
        ev0, log0 = len(h.events), len(w.log.records)
        for chunk in _writes(rng, wires, wmode, 8 if kind == 'peer-obf' else 4):
            if chunk:
                writer.write(chunk)
        total = sum(len(x) for x in wires)
        for _ in range(40 + total // 50):
            await settle(0.25)
            if sc.delivered[d] >= sc.written[d] or tr.peer._closing or tr.peer._lost:
                break
        await settle(1.0)

        # -- observation ----------------------------------------------------------------------------
        evs = [e for _, e in h.events[ev0:] if e.connection is conn]
        ids = [i for i in (good_id(e.message) for e in evs) if i is not None]
        states = [s[1] for s in cm.streams.get(id(conn), [])]
        reasons = [s[2] for s in cm.streams.get(id(conn), [])]
        open_reported = bool(states) and states[-1] == 'CONNECTED' and conn.state == ConnectionState.CONNECTED
        endpoint_open = not tr.peer._closing and not tr.peer._lost
        k = len(outcomes) - 1
        culprit = items[k] if 0 <= k < len(items) else None
        last = outcomes[-1] if outcomes else None
        info.update(delivered=sc.delivered[d], written=sc.written[d], outcomes=len(outcomes), events=len(evs),
                    decoded_hostile=sum(1 for i, o in enumerate(outcomes[:len(items)]) if o[0] == 'msg' and 'b' in items[i]),
                    states=states[-4:])
        detail = {'connection': kind, 'segmentation': seg, 'writes': wmode, 'frames_written': len(items),
                  'frames_processed': len(outcomes), 'last_processed': list(last) if last else None,
                  'states': states, 'close_reasons': reasons[-2:], 'stream': _brief(items, k if culprit is not None else None),
                  'log': [r['msg'][:160] for r in w.log.records[log0:][-4:]]}
        judged_upto = len(items)            # good frames at positions < judged_upto must have been delivered
        root_cause = False
        if not (open_reported and endpoint_open):
            root_cause = True
            judged_upto = max(0, k)
            if culprit is not None and 'g' in culprit:
                raise RuntimeError(f"harness: good frame {culprit['name']} closed the {kind} connection")
            if last is not None and last[0] == 'msg':
                info['closed_after_decoded'] = last[1]         # protocol semantics of a decoded message: not judged
            else:
                viol.append((f'stream:connection-closed-by-hostile-frame:{kind}:{label_of(culprit)}', detail))
        elif reader_task.done():
            root_cause = True
            judged_upto = max(0, k)
            what = f'handling-{last[1]}' if last is not None and last[0] == 'msg' else label_of(culprit)
            exc = None if reader_task.cancelled() else reader_task.exception()
            viol.append((f'stream:reader-dead-connection-open:{kind}:{what}',
                         dict(detail, reader_task={'cancelled': reader_task.cancelled(), 'exception': repr(exc)},
                              connection_state=conn.state.name, layer=layer)))
        else:
            info['alive'] = True

        expected = [it['g'] for it in items[:judged_upto] if 'g' in it]
        info['expected'] = len(expected)
        all_good = {it['g'] for it in items if 'g' in it}
        if any(i not in all_good for i in ids):
            raise RuntimeError(f'harness: good id {[i for i in ids if i not in all_good][:3]} was never written')
        seen = [i for i in ids if i in set(expected)]
        dup = sorted({i for i in seen if seen.count(i) > 1})
        if dup:
            viol.append((f'stream:good-frame-duplicated:{kind}', dict(detail, duplicated_ids=dup[:5], delivered_ids=ids[:60])))
        missing = [i for i in expected if i not in seen]
        if missing:
            pos = next(j for j, it in enumerate(items) if it.get('g') == missing[0])
            before = next((items[j]['b'] for j in range(pos - 1, -1, -1) if 'b' in items[j]), None)
            if before is None:
                before = 'after-frame-over-64KiB' if any(len(it['wire']) > 65540 for it in items[:pos]) else 'none'
            viol.append((f'stream:good-frame-lost:{kind}:{before}',
                         dict(detail, lost_ids=missing[:10], first_lost_position=pos, delivered_ids=ids[:60],
                              stream=_brief(items, pos))))
        elif not dup and seen != expected:
            viol.append((f'stream:order:{kind}', dict(detail, expected_ids=expected[:60], delivered_ids=ids[:60])))

        # -- other connections still work ---------------------------------------------------------------
        col = []
        if not (kind == 'server' and root_cause):
            n0 = len(h.events)
            others = [('bystander-peer', by_conn, bystander.writer, 'peer', 65001)]
            if kind != 'server':
                others.append(('server', net.server_connection, session.writer, 'server', 65002))
            for name, oc, ow, ofam, gid in others:
                ow.write(fg.good(ofam, gid, 0)[1])
            await settle(0.5)
            for name, oc, ow, ofam, gid in others:
                got = [good_id(e.message) for _, e in h.events[n0:] if e.connection is oc]
                col.append(name)
                if got.count(gid) != 1:
                    viol.append((f'stream:other-connection-affected:{name}',
                                 dict(detail, other_connection_state=oc.state.name, delivered_there=got[:5])))
        info['collateral'] = len(col)

        # -- the harness closes its end: the reader was blocked at a frame boundary ----------------------
        if info.get('alive'):
            if kind == 'server':
                session.close('eof')
            else:
                link.close()
            await settle(2.0)
            states = [s[1] for s in cm.streams.get(id(conn), [])]
            reasons = [s[2] for s in cm.streams.get(id(conn), [])]
            end = {'states': states[-3:], 'close_reasons': reasons[-2:], 'reader_done': reader_task.done()}
            if states[-2:] != ['CLOSING', 'CLOSED'] or not reader_task.done():
                viol.append((f'stream:reader-did-not-end-at-close:{kind}', dict(detail, at_close=end)))
            elif reasons[-1] != 'EOF':
                viol.append((f'stream:reader-not-at-frame-boundary:{kind}', dict(detail, at_close=end)))
            elif not reader_task.cancelled() and reader_task.exception() is not None:
                viol.append((f'stream:reader-exception-at-close:{kind}:{type(reader_task.exception()).__name__}',
                             dict(detail, at_close=end, exception=repr(reader_task.exception()))))
            info['closed_ok'] = True
        await w.stop_clients()
        return True

    out = run_world(world_seed, main, wall_timeout=90, monitors=[cm])
    if out.inconclusive:
        res['inconclusive'] = out.inconclusive
        return None
    for sig, detail in viol:
        runner.violation(res, sig, **detail)
    reader_reported = any(s.startswith('stream:reader-dead') for s, _ in viol)
    for sig, detail in safety_net_violations(out, allow_msgs=HANDLER_ERROR_MSGS):
        if reader_reported and 'never retrieved' in str(detail.get('message') or ''):
            continue
        runner.violation(res, 'safety:' + _BRACKET.sub('', sig), **detail)
    herr = [r for r in out.log_records if r['level'] == 'ERROR' and r['exc_type']
            and any(a in r['msg'] for a in HANDLER_ERROR_MSGS)]
    runner.add_obs(res, 'handler_errors_logged', len(herr))
    for r in herr:
        runner.add_cover(res, 'handler_error_types', r['exc_type'])
    nbad = sum(1 for it in items if 'b' in it)
    runner.add_obs(res, 'frames_sent', len(items))
    runner.add_obs(res, 'hostile_frames', nbad)
    runner.add_obs(res, 'hostile_frames_decoded_to_a_message', info.get('decoded_hostile', 0))
    runner.add_obs(res, 'good_frames_checked', info.get('expected', 0))
    runner.add_obs(res, 'collateral_checks', info.get('collateral', 0))
    if info.get('alive'):
        runner.add_obs(res, 'reader_alive_checks')
    if info.get('closed_ok'):
        runner.add_obs(res, 'close_sequences_checked')
    if info.get('closed_after_decoded'):
        runner.add_obs(res, 'closed_by_decoded_message_not_judged')
        runner.add_cover(res, 'closing_messages', info['closed_after_decoded'])
    runner.add_cover(res, 'conn_kinds', kind)
    runner.add_cover(res, 'seg_classes', seg_class(seg, wmode))
    for it in items:
        if 'b' in it:
            runner.add_cover(res, f'{layer}_classes', it['b'])
    first_bad = next((i for i, it in enumerate(items) if 'b' in it), None)
    if first_bad is not None and any('g' in it for it in items[first_bad + 1:]):
        classes = sorted(it['b'] for it in items if 'b' in it)
        multiset = ','.join(f'{c}x{classes.count(c)}' for c in sorted(set(classes)))
        res['csigs'].append(f'{layer}|{kind}|{multiset}|{_pattern(items)}|{seg_class(seg, wmode)}')
    return info


def _stream_plan(seed: int, idx: int) -> tuple[str, str, str]:
    rng = random.Random(f'{seed}:{ID}:stream-plan:{idx}')
    kind = ('server', 'peer', 'peer-obf', 'dist', 'server', 'peer', 'peer-obf', 'dist-obf', 'server', 'peer')[(idx // 4) % 10]
    if idx % 4 == 0:
        seg, wmode = 'bytes1', rng.choice(WMODES)
    elif idx % 4 == 1:
        seg, wmode = 'whole', rng.choice(('split-header', 'split-header', 'one-write', 'per-frame'))
    else:
        seg, wmode = rng.choice(SEGS[2:] + ('random', 'random')), rng.choice(WMODES)
    return kind, seg, wmode


def _items_from_params(raw: list) -> list:
    """Explicit stream (hand-written witness): [{'g': n, 'name': .., 'hex': ..} | {'b': class, 'hex': ..}]."""
    out = []
    for it in raw:
        it = dict(it)
        it['wire'] = bytes.fromhex(it.pop('hex'))
        out.append(it)
    return out


def _run_stream(res: dict, params: dict):
    if 'items' in params:
        kind, seg, wmode = params['conn'], params.get('seg', 'whole'), params.get('wmode', 'per-frame')
        items = _items_from_params(params['items'])
    else:
        kind, seg, wmode = _stream_plan(params['seed'], params['idx'])
        items = gen_stream_items(random.Random(f"{params['seed']}:{ID}:stream:{params['idx']}"), kind, seg)
    info = _run_stream_world(res, f"{ID}:stream:{params.get('seed', 0)}:{params.get('idx', 0)}", kind, items, seg, wmode, 'stream')
    if info is None:
        return
    runner.add_obs(res, 'streams')
    res['sample'] = {'kind': 'stream', 'params': {k: v for k, v in params.items() if k != 'items'}, 'connection': kind,
                     'segmentation': seg, 'writes': wmode, 'stream': _brief(items)[:12], 'observed': info}


# -- layer 3: well-formed frames that are hostile to the handlers --------------------------------------

_STATS = {'avg_speed': 10, 'uploads': 1, 'shared_file_count': 2, 'shared_folder_count': 3}


def semantic_menu() -> dict[str, dict[str, list]]:
    """family -> label -> [(message name, field values)], every frame WELL-FORMED (reference codec)."""
    S: dict[str, list] = {}
    jr = {'room': 'evil-room', 'users': ['evil-a', 'evil-b', 'evil-c'], 'users_status': [1, 2, 2],
          'users_stats': [_STATS] * 3, 'users_slots_free': [1, 1, 1], 'users_countries': ['DE', 'NL', 'US']}
    S['JoinRoom-users-longer-than-status'] = [('JoinRoom.Response', dict(jr, users_status=[1]))]
    S['JoinRoom-users-longer-than-stats'] = [('JoinRoom.Response', dict(jr, users_stats=[]))]
    S['JoinRoom-users-longer-than-countries'] = [('JoinRoom.Response', dict(jr, users_countries=['DE'], users_slots_free=[]))]
    S['JoinRoom-users-shorter'] = [('JoinRoom.Response', dict(jr, users=['evil-a']))]
    S['JoinRoom-bad-status'] = [('JoinRoom.Response', dict(jr, users_status=[1, 99, 2]))]
    S['JoinRoom-owner-without-operators'] = [('JoinRoom.Response', dict(jr, owner='evil-a'))]
    S['JoinRoom-duplicate-users-twice'] = [('JoinRoom.Response', dict(jr, users=['evil-a'] * 3))] * 2
    rl = {'rooms': ['evil-r1', 'evil-r2', 'evil-r3'], 'rooms_user_count': [1, 2, 3], 'rooms_private_owned': [],
          'rooms_private_owned_user_count': [], 'rooms_private': [], 'rooms_private_user_count': [],
          'rooms_private_operated': []}
    S['RoomList-counts-short'] = [('RoomList.Response', dict(rl, rooms_user_count=[1]))]
    S['RoomList-private-counts-short'] = [('RoomList.Response', dict(rl, rooms_private=['evil-p1', 'evil-p2'],
                                                                     rooms_private_owned=['evil-o1']))]
    S['RoomList-operated-unknown-twice'] = [('RoomList.Response', dict(rl, rooms_private_operated=['evil-zz']))] * 2
    S['WishlistInterval-once'] = [('WishlistInterval.Response', {'interval': 600})]
    S['WishlistInterval-repeated'] = [('WishlistInterval.Response', {'interval': 600}),
                                      ('WishlistInterval.Response', {'interval': 700})]
    S['ParentMinSpeed-ParentSpeedRatio-repeated'] = [('ParentMinSpeed.Response', {'speed': 1}), ('ParentSpeedRatio.Response', {'ratio': 50}),
                                                     ('ParentMinSpeed.Response', {'speed': 0}), ('ParentSpeedRatio.Response', {'ratio': 0})]
    S['GetUserStats-self-after-zero-ratio'] = [('ParentMinSpeed.Response', {'speed': 0}), ('ParentSpeedRatio.Response', {'ratio': 0}),
                                               ('GetUserStats.Response', {'username': 'me', 'user_stats': dict(_STATS, avg_speed=5000)})]
    S['config-burst-repeated'] = [(n, {f: v}) for v in (0, 0xFFFFFFFF) for n, f in (
        ('SearchInactivityTimeout.Response', 'timeout'), ('MinParentsInCache.Response', 'amount'),
        ('DistributedAliveInterval.Response', 'interval'), ('ParentInactivityTimeout.Response', 'timeout'),
        ('DistributedDistributeInterval.Response', 'interval'))]
    S['ExcludedSearchPhrases-repeated'] = [('ExcludedSearchPhrases.Response', {'phrases': ['evil', '']}),
                                           ('ExcludedSearchPhrases.Response', {'phrases': []})]
    S['PrivilegedUsers-repeated'] = [('PrivilegedUsers.Response', {'users': ['evil-a', 'evil-a', 'me']}),
                                     ('PrivilegedUsers.Response', {'users': []})]
    S['UserJoinedRoom-bad-status'] = [('UserJoinedRoom.Response', {'room': 'evil-room', 'username': 'evil-a', 'status': 99,
                                                                  'user_stats': _STATS, 'slots_free': 1, 'country_code': 'DE'})]
    S['GetUserStatus-bad-status'] = [('GetUserStatus.Response', {'username': 'evil-a', 'status': 77, 'privileged': True})]
    S['AddUser-bad-status'] = [('AddUser.Response', {'username': 'evil-a', 'exists': True, 'status': 9, 'user_stats': _STATS,
                                                     'country_code': 'DE'})]
    S['AddUser-unsolicited-notexists'] = [('AddUser.Response', {'username': 'evil-nobody', 'exists': False})]
    S['AddUser-self-offline'] = [('AddUser.Response', {'username': 'me', 'exists': True, 'status': 0, 'user_stats': _STATS})]
    S['GetUserStatus-self-offline'] = [('GetUserStatus.Response', {'username': 'me', 'status': 0, 'privileged': False})]
    for name in ('UserLeftRoom', 'RoomTickerRemoved', 'PrivateRoomGrantMembership', 'PrivateRoomRevokeMembership',
                 'PrivateRoomGrantOperator', 'PrivateRoomRevokeOperator'):
        S[f'{name}-unknown-room-and-user'] = [(f'{name}.Response', {'room': 'evil-unknown-room', 'username': 'evil-unknown'})]
    for name in ('LeaveRoom', 'PrivateRoomMembershipGranted', 'PrivateRoomMembershipRevoked', 'PrivateRoomOperatorGranted',
                 'PrivateRoomOperatorRevoked', 'CannotCreateRoom'):
        S[f'{name}-unknown-room'] = [(f'{name}.Response', {'room': 'evil-unknown-room'})]
    S['RoomTickers-unknown-room-duplicate-users'] = [('RoomTickers.Response', {'room': 'evil-unknown-room', 'tickers': [
        {'username': 'evil-a', 'ticker': 'x'}, {'username': 'evil-a', 'ticker': 'y'}]})]
    S['RoomTickerAdded-unknown-room'] = [('RoomTickerAdded.Response', {'room': 'evil-unknown-room', 'username': 'evil-a', 'ticker': ''})]
    S['PrivateRoomMembers-Operators-unknown-room'] = [('PrivateRoomMembers.Response', {'room': 'evil-unknown-room', 'usernames': ['evil-a', 'evil-a']}),
                                                      ('PrivateRoomOperators.Response', {'room': 'evil-unknown-room', 'usernames': ['evil-z']})]
    S['RoomChatMessage-unknown-room'] = [('RoomChatMessage.Response', {'room': 'evil-unknown-room', 'username': 'evil-a', 'message': ''})]
    S['PublicChatMessage-unsolicited'] = [('PublicChatMessage.Response', {'room': 'evil-unknown-room', 'username': 'evil-a', 'message': 'x'})]
    S['PrivateChatMessage-unknown-user'] = [('PrivateChatMessage.Response', {'chat_id': 0xFFFFFFFF, 'timestamp': 0, 'username': 'evil-a',
                                                                           'message': 'x', 'is_direct': True})] * 2
    S['GetPeerAddress-unsolicited'] = [('GetPeerAddress.Response', {'username': 'evil-a', 'ip': '0.0.0.0', 'port': 0}),
                                       ('GetPeerAddress.Response', {'username': 'evil-b', 'ip': '10.99.99.99', 'port': 9,
                                                                    'obfuscated_port_amount': 1, 'obfuscated_port': 10})]
    S['CannotConnect-unknown-ticket'] = [('CannotConnect.Response', {'ticket': 0xFFFFFFFF}), ('CannotConnect.Response', {'ticket': 0})]
    ctp = {'username': 'evil-a', 'typ': 'P', 'ip': '10.99.99.99', 'port': 9, 'ticket': 4242, 'privileged': False,
           'obfuscated_port_amount': 0, 'obfuscated_port': 0}
    S['ConnectToPeer-dead-address'] = [('ConnectToPeer.Response', ctp)]
    S['ConnectToPeer-zero-address'] = [('ConnectToPeer.Response', dict(ctp, ip='0.0.0.0', port=0))]
    S['ConnectToPeer-unknown-type'] = [('ConnectToPeer.Response', dict(ctp, typ='X')), ('ConnectToPeer.Response', dict(ctp, typ=''))]
    S['ConnectToPeer-file-type-dead-address'] = [('ConnectToPeer.Response', dict(ctp, typ='F'))]
    S['ConnectToPeer-same-ticket-twice'] = [('ConnectToPeer.Response', dict(ctp, typ='D'))] * 2
    S['ConnectToPeer-port-out-of-range'] = [('ConnectToPeer.Response', dict(ctp, port=0xFFFFFFFF, obfuscated_port_amount=1,
                                                                           obfuscated_port=0xFFFFFFFF))]
    S['Login-unsolicited-failure'] = [('Login.Response', {'success': False, 'reason': 'INVALIDPASS'})]
    S['Login-unsolicited-success'] = [('Login.Response', {'success': True, 'greeting': 'again', 'ip': '6.6.6.6', 'md5hash': 'x',
                                                          'privileged': True})]
    S['CheckPrivileges-unsolicited'] = [('CheckPrivileges.Response', {'time_left': 0xFFFFFFFF})]
    S['PotentialParents-dead-address'] = [('PotentialParents.Response', {'entries': [
        {'username': 'evil-p', 'ip': '10.99.99.98', 'port': 9}, {'username': 'evil-p', 'ip': '0.0.0.0', 'port': 0}]})]
    S['PotentialParents-repeated-empty'] = [('PotentialParents.Response', {'entries': []})] * 2
    S['ResetDistributed-without-peers'] = [('ResetDistributed.Response', {})] * 2
    S['Kicked'] = [('Kicked.Response', {})]
    S['FileSearch-from-stranger'] = [('FileSearch.Response', {'username': 'evil-a', 'ticket': 1, 'query': ''}),
                                     ('FileSearch.Response', {'username': 'me', 'ticket': 1, 'query': '*'})]
    S['ServerSearchRequest-unknown-distributed-code'] = [('ServerSearchRequest.Response', {
        'distributed_code': 99, 'unknown': 0, 'username': 'evil-a', 'ticket': 2, 'query': '- -'})]
    S['ServerSearchRequest-from-stranger'] = [('ServerSearchRequest.Response', {
        'distributed_code': 3, 'unknown': 0x31, 'username': 'evil-a', 'ticket': 2, 'query': 'evil query'})]
    S['recommendations-unsolicited'] = [
        ('GetRecommendations.Response', {'recommendations': [{'recommendation': '', 'score': -1}], 'unrecommendations': []}),
        ('GetGlobalRecommendations.Response', {'recommendations': [], 'unrecommendations': []}),
        ('GetItemRecommendations.Response', {'item': '', 'recommendations': []}),
        ('GetUserInterests.Response', {'username': 'evil-a', 'interests': ['x', 'x'], 'hated_interests': ['x']}),
        ('GetSimilarUsers.Response', {'users': [{'username': 'evil-a', 'score': 0}, {'username': 'evil-a', 'score': 1}]}),
        ('GetItemSimilarUsers.Response', {'item': 'x', 'usernames': ['evil-a', 'evil-a']})]
    S['unhandled-messages'] = [('Ping.Response', {}), ('SendConnectTicket.Response', {'username': 'evil-a', 'ticket': 1}),
                               ('GetUserPrivileges.Response', {'username': 'evil-a', 'privileged': True}),
                               ('IgnoreUser.Response', {'username': 'evil-a'}), ('GetInterests.Response', {'interests': []}),
                               ('TunneledMessage.Response', {'username': 'evil-a', 'ticket': 1, 'code': 2, 'ip': '1.2.3.4',
                                                             'port': 5, 'message': 'x'})]
    S['AdminMessage-empty-and-TogglePrivateRoomInvites'] = [('AdminMessage.Response', {'message': ''}),
                                                          ('TogglePrivateRoomInvites.Response', {'enabled': True})]

    P: dict[str, list] = {}
    P['PeerTransferReply-unknown-ticket'] = [('PeerTransferReply.Request', {'ticket': 666, 'allowed': False, 'reason': 'Cancelled'}),
                                             ('PeerTransferReply.Request', {'ticket': 666, 'allowed': True, 'filesize': 0}),
                                             ('PeerTransferReply.Request', {'ticket': 666, 'allowed': False})]
    P['PeerPlaceInQueueReply-unknown-transfer'] = [('PeerPlaceInQueueReply.Request', {'filename': 'evil/x.mp3', 'place': 0xFFFFFFFF})]
    P['PeerUploadFailed-unknown-transfer'] = [('PeerUploadFailed.Request', {'filename': 'evil/x.mp3'})] * 2
    P['PeerTransferQueueFailed-unknown-transfer'] = [('PeerTransferQueueFailed.Request', {'filename': 'evil/x.mp3', 'reason': ''})]
    P['PeerTransferRequest-bad-direction'] = [('PeerTransferRequest.Request', {'direction': 7, 'ticket': 1, 'filename': 'evil/x.mp3'})]
    P['PeerTransferRequest-upload-of-unshared-file'] = [('PeerTransferRequest.Request', {'direction': 0, 'ticket': 2, 'filename': 'evil/x.mp3'})] * 2
    P['PeerTransferRequest-download-nobody-asked-for'] = [('PeerTransferRequest.Request', {'direction': 1, 'ticket': 3, 'filename': 'evil/x.mp3',
                                                                                         'filesize': 0xFFFFFFFFFFFFFFFF})]
    P['PeerTransferQueue-unshared-file'] = [('PeerTransferQueue.Request', {'filename': 'evil/x.mp3'}), ('PeerTransferQueue.Request', {'filename': ''})]
    P['PeerPlaceInQueueRequest-unknown-transfer'] = [('PeerPlaceInQueueRequest.Request', {'filename': 'evil/x.mp3'})]
    P['PeerSharesRequest-repeated'] = [('PeerSharesRequest.Request', {}), ('PeerSharesRequest.Request', {'ticket': 5})]
    P['PeerUserInfoRequest-repeated'] = [('PeerUserInfoRequest.Request', {})] * 3
    P['PeerUserInfoReply-bad-permissions'] = [('PeerUserInfoReply.Request', {'description': 'evil', 'has_picture': False, 'upload_slots': 1,
                                                                           'queue_size': 1, 'has_slots_free': True, 'upload_permissions': 99})]
    P['PeerUserInfoReply-unsolicited'] = [('PeerUserInfoReply.Request', {'description': '', 'has_picture': True, 'picture': b'', 'upload_slots': 0,
                                                                       'queue_size': 0, 'has_slots_free': False})]
    P['PeerDirectoryContentsRequest-unknown-directory'] = [('PeerDirectoryContentsRequest.Request', {'ticket': 1, 'directory': 'evil\\nowhere'}),
                                                           ('PeerDirectoryContentsRequest.Request', {'ticket': 1, 'directory': ''})]
    P['PeerDirectoryContentsReply-unsolicited'] = [('PeerDirectoryContentsReply.Request', {'ticket': 99, 'directory': 'evil', 'directories': []})]
    P['PeerSharesReply-unsolicited'] = [('PeerSharesReply.Request', {'directories': [{'name': 'evil', 'files': []}] * 2, 'unknown': 0,
                                                                   'locked_directories': []})]
    P['PeerUploadQueueNotification'] = [('PeerUploadQueueNotification.Request', {})]

    D: dict[str, list] = {}
    D['BranchLevel-zero-from-child'] = [('DistributedBranchLevel.Request', {'level': 0})]
    D['BranchRoot-from-child'] = [('DistributedBranchRoot.Request', {'username': 'evil-root'})]
    D['BranchLevel-and-Root-from-child-repeated'] = [('DistributedBranchLevel.Request', {'level': 3}), ('DistributedBranchRoot.Request', {'username': 'evil-root'}),
                                                     ('DistributedBranchLevel.Request', {'level': 4}), ('DistributedBranchRoot.Request', {'username': 'evil-root2'})]
    D['BranchLevel-max-then-Root'] = [('DistributedBranchLevel.Request', {'level': 0xFFFFFFFF}), ('DistributedBranchRoot.Request', {'username': 'evil-root'})]
    D['BranchRoot-own-name'] = [('DistributedBranchLevel.Request', {'level': 1}), ('DistributedBranchRoot.Request', {'username': 'me'})]
    D['ChildDepth-max'] = [('DistributedChildDepth.Request', {'depth': 0xFFFFFFFF})]
    D['DistributedSearchRequest-from-child'] = [('DistributedSearchRequest.Request', {'unknown': 0, 'username': 'me', 'ticket': 0, 'query': ''})]
    D['DistributedServerSearchRequest'] = [('DistributedServerSearchRequest.Request', {'distributed_code': 3, 'unknown': 0, 'username': 'evil-a', 'ticket': 1, 'query': 'x'}),
                                           ('DistributedServerSearchRequest.Request', {'distributed_code': 77, 'unknown': 0, 'username': 'evil-a', 'ticket': 1, 'query': 'x'})]
    D['DistributedInit-and-Ping'] = [('DistributedInit.Request', {'unknown1': 0, 'unknown2': 0, 'unknown3': 0, 'port': 0}),
                                     ('DistributedPing.Request', {})] * 2
    return {'server': S, 'peer': P, 'distributed': D}


_MENU: Optional[dict] = None


def menu() -> dict:
    global _MENU
    if _MENU is None:
        _MENU = semantic_menu()
    return _MENU


def semantic_items(fam: str, labels: list[str], rng: random.Random) -> list[dict]:
    """good, <entry frames>, good [, <entry frames>, good ...], good."""
    fg = forge()
    gid = rng.randrange(0, 60000)
    items = []

    def good():
        nonlocal gid
        gid = (gid + 1) % 65536
        name, wire = fg.good(fam, gid, rng.randrange(8))
        items.append({'g': gid, 'name': name, 'wire': wire})
    good()
    for lab in labels:
        for name, values in menu()[fam][lab]:
            wire = fg.encode(name, **values)
            if fg.tainted(wire):
                raise RuntimeError(f'menu entry {lab} carries a good id')
            items.append({'b': lab, 'wire': wire, 'message': name})
        good()
    good()
    return items


def _run_semantic(res: dict, params: dict):
    kind = params['conn']
    rng = random.Random(f"{params.get('seed', 0)}:{ID}:semantic:{params.get('idx', 0)}:{params['entries']}")
    items = semantic_items(FAMILY_OF[kind], params['entries'], rng)
    seg, wmode = params.get('seg', 'whole'), params.get('wmode', 'per-frame')
    info = _run_stream_world(res, f"{ID}:semantic:{kind}:{params.get('seed', 0)}:{params.get('idx', 0)}:{params['entries']}",
                             kind, items, seg, wmode, 'semantic')
    if info is None:
        return
    runner.add_obs(res, 'semantic_cases')
    res['sample'] = {'kind': 'semantic', 'params': params, 'stream': [
        ({'good': it['g'], 'message': it['name']} if 'g' in it else {'entry': it['b'], 'message': it['message']})
        for it in items][:14], 'observed': info}


# --------------------------------------------------------------------------------------------------
# accept path: the FIRST frame of an incoming connection

ACCEPT_BAD = ('random-body', 'unknown-code', 'truncated', 'zero-length', 'short-body', 'bad-text', 'count-lie-max',
              'count-lie-plus1', 'wrong-family', 'known-code-random-payload')
ACCEPT_STALL = ('stalled-garbage', 'stalled-partial')


def _ref_undecodable_init(frame: bytes) -> bool:
    fg = forge()
    for spec in fg.specs['peerinit']:
        try:
            rc.decode_message(spec, frame, fg.lay)
            return False
        except Exception:  # noqa — RefError, UnicodeDecodeError: the reference rejects it
            continue
    return True


def gen_accept(rng: random.Random) -> list[dict]:
    fg = forge()
    n = rng.randint(4, 10)
    entries = []
    t = 0.0
    pierces = 0
    for i in range(n):
        if rng.random() < 0.55:
            t += rng.choice((0.0, 0.0, 0.001, 0.01, 0.05))
        roll = rng.random()
        port = rng.choice(('clear', 'obf'))
        if roll < 0.3:
            e = {'what': 'good-init', 'port': port}
        elif roll < 0.4 and pierces < 2:
            pierces += 1
            e = {'what': 'good-pierce', 'port': 'clear', 'peer': f'z{pierces}'}
        elif roll < 0.88:
            cls = rng.choice(ACCEPT_BAD)
            for _ in range(50):
                frame = fg.hostile(rng, 'peerinit', cls, 200)
                if _ref_undecodable_init(frame):
                    break
            else:
                raise RuntimeError(f'no undecodable init of class {cls}')
            e = {'what': 'bad', 'cls': cls, 'port': port, 'hex': frame.hex()}
        else:
            cls = rng.choice(ACCEPT_STALL)
            if cls == 'stalled-partial':
                frame = fg.encode('PeerInit.Request', username='evil-stall', typ='P', ticket=1)
                raw = frame[:rng.randint(4, len(frame) - 1)]
                e = {'what': 'stall', 'cls': cls, 'port': port, 'hex': raw.hex(), 'obfuscate': True}
            else:
                while True:
                    raw = rng.choice((b'GET / HTTP/1.1\r\nHost: x\r\n\r\n', b'SSH-2.0-evil\r\n', rng.randbytes(rng.randint(9, 40))))
                    first = rc.obf_decode(raw[:8]) if port == 'obf' else raw[:4]
                    if int.from_bytes(first[:4], 'little') > len(raw):
                        break
                e = {'what': 'stall', 'cls': cls, 'port': port, 'hex': raw.hex(), 'obfuscate': False}
        e['t'] = round(t, 4)
        entries.append(e)
    if not any(e['what'].startswith('good') for e in entries):
        entries[rng.randrange(n)] = {'what': 'good-init', 'port': rng.choice(('clear', 'obf')), 't': entries[-1]['t']}
    if not any(e['what'] in ('bad', 'stall') for e in entries):
        frame = fg.hostile(rng, 'peerinit', 'unknown-code', 100)
        entries.insert(0, {'what': 'bad', 'cls': 'unknown-code', 'port': 'clear', 'hex': frame.hex(), 't': 0.0})
    return entries


def _run_accept(res: dict, params: dict):
    from aioslsk.events import MessageReceivedEvent
    from aioslsk.network.connection import ConnectionState, PeerConnectionState
    from vf.monitors import safety_net_violations
    from vf.simloop import settle
    from vf.simnet import ConnPlan
    from vf.world import World, run_world

    fg = forge()
    seed_s = f"{params.get('seed', 0)}:{ID}:accept:{params.get('idx', 0)}"
    entries = params['entries'] if 'entries' in params else gen_accept(random.Random(seed_s))
    rng = random.Random(seed_s + ':wire')
    viol: list[tuple[str, dict]] = []
    obs = {'accept_bad_judged': 0, 'accept_good_judged': 0, 'accept_stall_judged': 0, 'accept_connections': 0}
    pub = [{k: (v if k != 'hex' else _hx(bytes.fromhex(v), 80)) for k, v in e.items()} for e in entries]

    async def main(w: World):
        refused_ports: set = set()

        def planner(node, host, port, attempt):
            if node == 'me' and port in refused_ports:
                return ConnPlan(connect='refuse', latency=0.003)
            r = random.Random(f'{seed_s}:plan:{attempt}')
            return ConnPlan(latency=0.003, seg=r.choice(('whole', 'bytes1', 'random', 'random', 'fixed:3')), seg_lat=(0.0002, 0.0015))
        w.net.planner = planner
        await w.start_server()
        h = await w.add_client('me')
        h.record(MessageReceivedEvent)
        net = h.client.network
        peers = {'p1': await w.add_peer('p1'), 'p2': await w.add_peer('p2')}
        for e in entries:
            if e['what'] == 'good-pierce' and e['peer'] not in peers:
                z = peers[e['peer']] = await w.add_peer(e['peer'])
                refused_ports.update(x for x in (z.port, z.obf_port) if x)
        await settle(1.0)
        ip_me = w.net.ip_of('me')

        def client_conn_of(link):
            for c in net.peer_connections:
                if c._writer is not None and c._writer.transport.conn is link.conn:
                    return c
            return None

        gid = [rng.randrange(0, 50000)]

        def next_good() -> tuple[int, bytes]:
            gid[0] += 1
            return gid[0], fg.good('peer', gid[0], rng.randrange(3))[1]

        async def run_entry(i: int, e: dict):
            if e['t']:
                await asyncio.sleep(e['t'])
            obf = e['port'] == 'obf'
            port = h.obf_port if obf else h.port
            peer = peers['p1' if i % 2 == 0 else 'p2']
            if e['what'] == 'good-init':
                link = await peer.dial(port, 'P', host=ip_me, obfuscated=obf)
            elif e['what'] == 'good-pierce':
                z = peers[e['peer']]
                task = w.spawn('me', net.create_peer_connection(z.name, 'P'), name=f'c02-pierce-{i}')
                done, _ = await asyncio.wait({task}, timeout=90.0)
                if not done or task.exception() is not None:
                    e['_failed'] = 'never-returned' if not done else repr(task.exception())
                    if not done:
                        task.cancel()
                    return
                conn = task.result()
                link = next((l for l in z.links if conn._writer is not None and l.conn is conn._writer.transport.conn), None)
                if link is None:
                    e['_failed'] = 'no peer end'
                    return
            else:
                wire = bytes.fromhex(e['hex'])
                if obf and e.get('obfuscate', True):
                    wire = rc.obf_encode(wire, c01gen.gen_key(rng))
                link = await peer.dial(port, 'P', host=ip_me, obfuscated=obf, init=wire)
            e['_link'] = link
            if e['what'].startswith('good'):
                n, wire = next_good()
                e['_ids'] = [n]
                link.send_raw(rc.obf_encode(wire, c01gen.gen_key(rng)) if link.obfuscated else wire)

        tasks = [w.loop.create_task(run_entry(i, e)) for i, e in enumerate(entries)]
        await asyncio.gather(*tasks)
        await settle(1.0)
        obs['accept_connections'] += len(entries)

        def endpoint_closed(link) -> bool:
            tr = link.writer.transport.peer           # the client's end
            return tr._closing or tr._lost

        # -- good connections: initialised, working, still working after the bad ones were handled ----------
        goods = [e for e in entries if e['what'].startswith('good')]
        for e in goods:
            link = e.get('_link')
            obs['accept_good_judged'] += 1
            if link is None:
                viol.append((f"accept:good-connection-affected:{e['what']}:not-established",
                             {'entries': pub, 'entry': {k: v for k, v in e.items() if not k.startswith('_')}, 'error': e.get('_failed')}))
                continue
            conn = client_conn_of(link)
            e['_conn'] = conn
            if conn is None or conn.state != ConnectionState.CONNECTED or conn.connection_state != PeerConnectionState.ESTABLISHED \
                    or endpoint_closed(link) or conn._reader_task is None or conn._reader_task.done():
                viol.append((f"accept:good-connection-affected:{e['what']}:not-initialised-or-closed",
                             {'entries': pub, 'entry': {k: v for k, v in e.items() if not k.startswith('_')},
                              'client_connection': repr(conn), 'endpoint_closed': endpoint_closed(link)}))
                e['_conn'] = None
                continue
            n, wire = next_good()
            e['_ids'].append(n)
            link.send_raw(rc.obf_encode(wire, c01gen.gen_key(rng)) if link.obfuscated else wire)
        await settle(0.5)
        for e in goods:
            conn = e.get('_conn')
            if conn is None:
                continue
            got = [good_id(ev.message) for _, ev in h.events if ev.connection is conn]
            got = [g for g in got if g is not None]
            if got != e['_ids']:
                viol.append((f"accept:good-connection-affected:{e['what']}:frames-{'lost' if len(got) < len(e['_ids']) else 'wrong'}",
                             {'entries': pub, 'entry': {k: v for k, v in e.items() if not k.startswith('_')},
                              'written_ids': e['_ids'], 'delivered_ids': got}))

        # -- bad first frames: that connection is closed ---------------------------------------------------------
        for e in entries:
            if e['what'] == 'bad':
                obs['accept_bad_judged'] += 1
                if not endpoint_closed(e['_link']):
                    conn = client_conn_of(e['_link'])
                    viol.append((f"accept:bad-first-frame-not-closed:{e['cls']}",
                                 {'entries': pub, 'entry': {k: v for k, v in e.items() if not k.startswith('_')},
                                  'client_connection': repr(conn),
                                  'reader_task': None if conn is None or conn._reader_task is None else repr(conn._reader_task)[:200]}))
        if len(w.net.listeners_of('me')) != 2:
            viol.append(('accept:listener-down', {'entries': pub, 'listening_ports': [l.port for l in w.net.listeners_of('me')]}))
        stalls = [e for e in entries if e['what'] == 'stall']
        if stalls:
            await settle(70.0)
            for e in stalls:
                obs['accept_stall_judged'] += 1
                if not endpoint_closed(e['_link']):
                    viol.append((f"accept:stalled-first-frame-not-closed:{e['cls']}",
                                 {'entries': pub, 'entry': {k: v for k, v in e.items() if not k.startswith('_')},
                                  'virtual_seconds_waited': 70}))
        # -- both listeners still accept ---------------------------------------------------------------------------
        n0 = len(h.events)
        fresh = []
        for obf in (False, True):
            try:
                link = await peers['p1'].dial(h.obf_port if obf else h.port, 'P', host=ip_me, obfuscated=obf)
            except (ConnectionError, OSError) as exc:
                viol.append(('accept:listener-down', {'entries': pub, 'port': 'obf' if obf else 'clear', 'error': repr(exc)}))
                continue
            n, wire = next_good()
            link.send_raw(rc.obf_encode(wire, c01gen.gen_key(rng)) if obf else wire)
            fresh.append((obf, n))
        await settle(0.5)
        got = [good_id(ev.message) for _, ev in h.events[n0:]]
        for obf, n in fresh:
            if got.count(n) != 1:
                viol.append(('accept:listener-down', {'entries': pub, 'port': 'obf' if obf else 'clear',
                                                      'what': 'a fresh well-formed connection did not deliver its frame'}))
        await w.stop_clients()
        return True

    out = run_world(seed_s, main, wall_timeout=90)
    if out.inconclusive:
        res['inconclusive'] = out.inconclusive
        return
    for sig, detail in viol:
        runner.violation(res, sig, **detail)
    for sig, detail in safety_net_violations(out, allow_msgs=HANDLER_ERROR_MSGS):
        runner.violation(res, 'safety:' + _BRACKET.sub('', sig), **detail)
    runner.add_obs(res, 'accept_cases')
    for k, v in obs.items():
        runner.add_obs(res, k, v)
    for e in entries:
        runner.add_cover(res, 'accept_entries', f"{e['what']}:{e.get('cls', '-')}:{e['port']}")
    same_instant = sum(1 for a, b in zip(entries, entries[1:]) if a['t'] == b['t'])
    res['csigs'].append('accept|' + '>'.join(f"{e['what']}:{e.get('cls', '-')}:{e['port']}" for e in entries) + f'|{same_instant}')
    res['sample'] = {'kind': 'accept', 'params': {k: v for k, v in params.items() if k != 'entries'}, 'entries': pub}


# --------------------------------------------------------------------------------------------------
# fresh-interpreter family: the FIRST frame of a message class ever parsed in a process is malformed
# inside field k; valid frames of the same class must still decode to the right object / be delivered.
# Shard processes have a long parsing history, so each case runs in a child interpreter.

FRESH_STREAM_EXCLUDE = {'WishlistInterval.Response',      # two valid frames end the server reader (known finding)
                        'PeerSearchReply.Request'}        # a valid frame makes the client close the link on purpose
FRESH_VARIANTS = ('cut-mid-field', 'cut-last-byte-of-field', 'cut-before-field', 'count-lie-in-field')
_RESULT_MARK = 'C02-FRESH-RESULT '
_MISSING = object()
_CONTROL_CACHE: dict = {}


def _encode_bounds(lay: rc.Layout, spec: dict, tree: dict) -> tuple[bytes, list]:
    """Uncompressed payload + per top-level on-wire field (name, start, end, count marks inside)."""
    payload, bounds, marks = bytearray(), [], []
    for fs in spec['fields']:
        if not rc._on_wire(fs, tree):
            continue
        start, m0 = len(payload), len(marks)
        _track_val(lay, fs['type'], tree.get(fs['name']), fs.get('subtype'), payload, marks)
        bounds.append((fs['name'], start, len(payload), marks[m0:]))
    return bytes(payload), bounds


def _frame_of_payload(spec: dict, payload: bytes) -> bytes:
    code = spec['code'].to_bytes(rc.INT_TYPES[spec['code_width']][0], 'little')
    return frame_of(code + (zlib.compress(payload) if spec['compressed'] else payload))


def _fresh_tree(fg: 'Forge', spec: dict, seed: int, j: int, want_max: bool) -> Optional[dict]:
    """Seeded in-domain value of ``spec`` (payload <= 3000 bytes); with want_max the presence pattern that
    puts the most fields on the wire.  Pure function of (seed, class, j)."""
    best = None
    npat = min(32, fg.gen.n_patterns(spec))
    for attempt in range(6):
        sels = range(npat) if want_max else [random.Random(f"{seed}:{ID}:fresh-sel:{spec['name']}:{j}:{attempt}").randrange(64)]
        for sel in sels:
            r = random.Random(f"{seed}:{ID}:fresh:{spec['name']}:{j}:{attempt}:{sel}")
            tree, _p, _l = fg.gen.gen_fields(r, spec['fields'], c01gen.MIX, 0, sel)
            try:
                payload, bounds = _encode_bounds(fg.lay, spec, tree)
            except rc.RefError:
                continue
            if len(payload) > 3000 or Forge.tainted(payload):
                continue
            if best is None or len(bounds) > best[0]:
                best = (len(bounds), tree)
        if best is not None:
            return best[1]
    return None


def _same_value(lay: rc.Layout, tname: str, subtype: Optional[str], got: Any, exp: Any) -> bool:
    if got is _MISSING:
        return False
    if tname == 'array':
        return isinstance(got, (list, tuple)) and len(got) == len(exp) and \
            all(_same_value(lay, subtype, None, g, e) for g, e in zip(got, exp))
    if tname in lay.records:
        return all(_same_value(lay, fs['type'], fs.get('subtype'), getattr(got, fs['name'], _MISSING), exp[fs['name']])
                   for fs in lay.records[tname]['fields'])
    if tname == 'bytearr':
        return isinstance(got, (bytes, bytearray)) and bytes(got) == bytes(exp)
    if tname == 'boolean':
        return isinstance(got, (bool, int)) and bool(got) == bool(exp)
    return type(got) is not bool and got == exp


def _first_difference(lay: rc.Layout, spec: dict, obj: Any, tree: dict) -> Optional[str]:
    """Name of the first field of ``obj`` that differs from the plain tree (None: the right object)."""
    if type(obj).__qualname__ != spec['name']:
        return f'class {type(obj).__qualname__}'
    for fs in spec['fields']:
        exp = tree.get(fs['name'])
        got = getattr(obj, fs['name'], _MISSING)
        if exp is None:
            if got is _MISSING or got != (fs.get('default') if fs.get('has_default') else None):
                return fs['name']
        elif not _same_value(lay, fs['type'], fs.get('subtype'), got, exp):
            return fs['name']
    return None


def _fresh_hostile(fg: 'Forge', spec: dict, tree: dict, p: int) -> Optional[dict]:
    """Frame of ``spec`` malformed inside on-wire field k = p % n (consistent length prefix)."""
    payload, bounds = _encode_bounds(fg.lay, spec, tree)
    if not bounds:
        return None
    k = p % len(bounds)
    variant = FRESH_VARIANTS[(p // len(bounds)) % len(FRESH_VARIANTS)]
    name, start, end, marks = bounds[k]
    if variant == 'count-lie-in-field' and not marks:
        variant = 'cut-mid-field'
    if variant == 'cut-mid-field':
        bad = payload[:start + (end - start) // 2]
    elif variant == 'cut-last-byte-of-field':
        bad = payload[:max(start, end - 1)]
    elif variant == 'cut-before-field':
        bad = payload[:start]
    else:
        _kind, off, _n = marks[(p // 7) % len(marks)]
        b = bytearray(payload)
        b[off:off + 4] = (0xFFFFFFFF).to_bytes(4, 'little')
        bad = bytes(b)
    return {'field': name, 'k': k, 'variant': variant, 'frame': _frame_of_payload(spec, bad)}


def _fresh_plan(fg: 'Forge', fam: str, seed: int, p: int, stream: bool) -> list[dict]:
    """Per class of the family: hostile first frame (field k of this process) and two valid frames."""
    plan = []
    for spec in fg.specs[fam]:
        if stream and spec['name'] in FRESH_STREAM_EXCLUDE:
            continue
        th = _fresh_tree(fg, spec, seed, 0, True)
        v1 = _fresh_tree(fg, spec, seed, 1, True)
        v2 = _fresh_tree(fg, spec, seed, 2, False)
        if th is None or v1 is None or v2 is None:
            continue
        h = _fresh_hostile(fg, spec, th, p)
        if h is None:
            continue                      # a class without fields has no field k
        valid = []
        for tree in (v1, v2):
            payload, _b = _encode_bounds(fg.lay, spec, tree)
            valid.append({'tree': tree, 'frame': _frame_of_payload(spec, payload)})
        plan.append({'spec': spec, 'hostile': h, 'valid': valid})
    return plan


def _fresh_child_direct(payload: dict) -> dict:
    """Runs in a fresh interpreter: nothing of aioslsk.protocol has parsed anything yet."""
    from aioslsk.protocol.primitives import MessageDataclass
    fg = forge()
    seed, p, control = payload['seed'], payload['p'], payload['control']
    logging.getLogger('aioslsk').addHandler(logging.NullHandler())
    logging.getLogger('aioslsk').propagate = False
    eps = {}
    for name, fam, fn, is_decode, obf in _entry_points():
        eps.setdefault(fam, []).append((name, fn, obf))
    out = {'failures': [], 'classes': 0, 'valid_frames': 0, 'first_parses_rejected': 0, 'first_parses_decoded': 0,
           'entry_points': []}
    rng = random.Random(f'{seed}:{ID}:fresh-keys:{p}')
    for fam in FAMILIES:
        choices = eps[fam]
        for ci, item in enumerate(_fresh_plan(fg, fam, seed, p, False)):
            spec = item['spec']
            name, fn, obf = choices[(p + ci) % len(choices)]
            if name not in out['entry_points']:
                out['entry_points'].append(name)

            def feed(frame: bytes):
                return fn(rc.obf_encode(frame, c01gen.gen_key(rng)) if obf else frame)
            out['classes'] += 1
            h = item['hostile']
            first = None
            if not control:
                try:
                    feed(h['frame'])
                    first = 'decoded'
                    out['first_parses_decoded'] += 1
                except Exception as exc:  # noqa — the rejection of the malformed frame is what the property allows
                    first = f'rejected:{type(exc.__cause__ or exc).__name__}'
                    out['first_parses_rejected'] += 1
            for vi, v in enumerate(item['valid']):
                out['valid_frames'] += 1
                fail = None
                try:
                    obj = feed(v['frame'])
                    if not isinstance(obj, MessageDataclass):
                        fail = ('wrong-object', f'returned {type(obj).__name__}')
                    else:
                        diff = _first_difference(fg.lay, spec, obj, v['tree'])
                        if diff is not None:
                            fail = ('wrong-object', f'field {diff} differs: {obj!r}'[:300])
                except Exception as exc:  # noqa — judged: a valid frame must not be rejected
                    cause = exc.__cause__ or exc
                    fail = ('rejected', f'{type(cause).__name__}: {cause}'[:300])
                if fail is not None:
                    out['failures'].append({
                        'family': fam, 'class': spec['name'], 'entry_point': name, 'valid_frame': vi, 'what': fail[0],
                        'error': fail[1], 'first_frame_of_the_class': None if control else {
                            'malformed_in_field': h['field'], 'k': h['k'], 'variant': h['variant'],
                            'hex': _hx(h['frame'], 120), 'outcome': first},
                        'valid_hex': _hx(v['frame'], 160), 'valid_value': rc.tree_to_json(v['tree'], 60)})
    return out


def _fresh_child_stream(payload: dict) -> dict:
    """Fresh interpreter + one simulated world: on the server, a P and a D link, for every class of the
    family: malformed first frame of the class, then two valid frames of the class, all in one burst."""
    from aioslsk.events import MessageReceivedEvent
    from aioslsk.network.connection import ConnectionState
    from vf.simloop import settle
    from vf.simnet import ConnPlan
    from vf.world import World, run_world

    fg = forge()
    seed, p, control = payload['seed'], payload['p'], payload['control']
    obf = bool(payload['obf'])
    rng = random.Random(f'{seed}:{ID}:fresh-stream-keys:{p}')
    out = {'failures': [], 'classes': 0, 'valid_frames': 0, 'delivered': 0, 'links': [], 'aborted': None,
           'first_parses_rejected': 0}

    async def main(w: World):
        w.net.planner = lambda node, host, port, attempt: ConnPlan(
            latency=0.005, seg=('random', 'whole', 'fixed:7')[p % 3], seg_lat=(0.0002, 0.0015))
        await w.start_server()
        h = await w.add_client('me')
        h.record(MessageReceivedEvent)
        net = h.client.network
        p1 = await w.add_peer('p1')
        await settle(1.0)
        ip_me = w.net.ip_of('me')

        def client_conn_of(link):
            for c in net.peer_connections:
                if c._writer is not None and c._writer.transport.conn is link.conn:
                    return c
            return None
        for kind, fam in (('server', 'server'), ('peer-obf' if obf else 'peer', 'peer'), ('dist-obf' if obf else 'dist', 'distributed')):
            if kind == 'server':
                conn, writer = net.server_connection, w.server.session_of('me').writer
            else:
                link = await p1.dial(h.obf_port if obf else h.port, 'P' if fam == 'peer' else 'D', host=ip_me, obfuscated=obf)
                await settle(0.5)
                conn, writer = client_conn_of(link), link.writer
            if conn is None or conn.state != ConnectionState.CONNECTED or conn._reader_task is None:
                raise RuntimeError(f'setup: {kind} connection not ready')
            reader_task = conn._reader_task
            plan = _fresh_plan(fg, fam, seed, p, True)
            rejected: list = []
            orig = conn.decode_message_data

            def recording(data, orig=orig, rejected=rejected):
                try:
                    return orig(data)
                except Exception as exc:  # noqa — recorded for the witness only, re-raised unchanged
                    rejected.append(f'{type(exc.__cause__ or exc).__name__}: {exc.__cause__ or exc}'[:200])
                    raise
            conn.decode_message_data = recording
            wires, expected = [], []
            for item in plan:
                frames = ([] if control else [item['hostile']['frame']]) + [v['frame'] for v in item['valid']]
                for fr in frames:
                    wires.append(rc.obf_encode(fr, c01gen.gen_key(rng)) if kind == 'peer-obf' else fr)
                for vi, v in enumerate(item['valid']):
                    expected.append((item, vi))
            ev0 = len(h.events)
            tr = writer.transport
            sc, d = tr.conn, tr.dir
            writer.write(b''.join(wires))
            for _ in range(400):
                await settle(0.25)
                if sc.delivered[d] >= sc.written[d] or tr.peer._closing or tr.peer._lost:
                    break
            await settle(1.0)
            msgs = [e.message for _, e in h.events[ev0:] if e.connection is conn]
            alive = conn.state == ConnectionState.CONNECTED and not tr.peer._closing and not reader_task.done()
            out['links'].append({'kind': kind, 'classes': len(plan), 'frames_written': len(wires), 'events': len(msgs),
                                 'frames_rejected': len(rejected), 'alive_afterwards': alive})
            out['first_parses_rejected'] += min(len(rejected), len(plan))
            if not alive:
                out['aborted'] = f'{kind} connection closed or reader ended during the burst (not judged here)'
                return
            cursor = 0
            for item, vi in expected:
                spec, v = item['spec'], item['valid'][vi]
                out['valid_frames'] += 1
                found = None
                for j in range(cursor, len(msgs)):
                    if type(msgs[j]).__qualname__ == spec['name'] and _first_difference(fg.lay, spec, msgs[j], v['tree']) is None:
                        found = j
                        break
                if found is None:
                    hst = item['hostile']
                    out['failures'].append({
                        'connection': kind, 'class': spec['name'], 'valid_frame': vi, 'what': 'not-delivered',
                        'first_frame_of_the_class': None if control else {
                            'malformed_in_field': hst['field'], 'k': hst['k'], 'variant': hst['variant'], 'hex': _hx(hst['frame'], 120)},
                        'valid_hex': _hx(v['frame'], 160), 'valid_value': rc.tree_to_json(v['tree'], 60),
                        'rejections_logged': rejected[-3:]})
                else:
                    cursor = found + 1
                    out['delivered'] += 1
            out['classes'] += len(plan)
        await w.stop_clients()

    res = run_world(f'{ID}:fresh-stream:{seed}:{p}', main, wall_timeout=150)
    if res.inconclusive:
        out['aborted'] = 'world: ' + res.inconclusive
    return out


def _spawn_child(payload: dict, timeout: float = 300.0) -> dict:
    import json
    import os
    import subprocess
    import sys
    here = os.path.dirname(os.path.dirname(os.path.dirname(os.path.abspath(__file__))))
    proc = subprocess.run([sys.executable, '-m', 'vf.props.c02'], input=json.dumps(payload), capture_output=True,
                          text=True, timeout=timeout, cwd=here, env=dict(os.environ))
    for line in reversed(proc.stdout.splitlines()):
        if line.startswith(_RESULT_MARK):
            return json.loads(line[len(_RESULT_MARK):])
    raise RuntimeError(f'fresh child failed rc={proc.returncode}: {proc.stderr[-600:]}')


def _run_fresh(res: dict, params: dict):
    mode, seed, p = params['mode'], params['seed'], params['p']
    base = {'mode': mode, 'seed': seed, 'p': p, 'obf': p % 2 if mode == 'stream' else 0}
    ckey = (mode, seed, base['obf'])
    if ckey not in _CONTROL_CACHE:
        # same valid frames, no malformed frame first: what fails here is the harness' (or another property's) business
        _CONTROL_CACHE[ckey] = _spawn_child(dict(base, p=0 if mode == 'direct' else base['obf'], control=True))
    control = _CONTROL_CACHE[ckey]
    test = _spawn_child(dict(base, control=False))
    if test.get('aborted') or control.get('aborted'):
        res['inconclusive'] = f"fresh {mode} child: {test.get('aborted') or control.get('aborted')}"
        return
    bad_in_control = {(f['class'], f['valid_frame']) for f in control['failures']}
    reported: set = set()
    for f in test['failures']:
        if (f['class'], f['valid_frame']) in bad_in_control:
            runner.add_obs(res, 'fresh_failures_also_in_control_not_judged')
            continue
        where = f.get('family') or f.get('connection')
        sig = f"fresh:valid-frame-after-malformed-first-frame-of-its-class:{f['what']}:{where}"
        if sig not in reported:
            reported.add(sig)
            runner.violation(res, sig, witness=f, process_index=p, mode=mode,
                             other_failures=[(g['class'], g['what']) for g in test['failures'] if g is not f][:12])
    runner.add_obs(res, 'fresh_processes')
    runner.add_obs(res, f'fresh_{mode}_classes_judged', test['classes'])
    runner.add_obs(res, f'fresh_{mode}_valid_frames_judged', test['valid_frames'])
    runner.add_obs(res, 'fresh_first_parses_rejected', test.get('first_parses_rejected', 0))
    if mode == 'stream':
        runner.add_obs(res, 'fresh_stream_frames_delivered', test['delivered'])
    for name in test.get('entry_points', []):
        runner.add_cover(res, 'fresh_entry_points', name)
    res['csigs'].append(f'fresh|{mode}|{p}')
    res['sample'] = {'kind': 'fresh', 'params': params, 'child': {k: v for k, v in test.items() if k != 'failures'},
                     'control_failures': len(control['failures'])}


# --------------------------------------------------------------------------------------------------
# frames over 64 KiB followed back-to-back by small frames

def big_good(fam: str, n: int, size: int) -> tuple[str, bytes]:
    """A VALID frame of about ``size`` bytes (> 64 KiB) carrying good id n."""
    fg = forge()
    sid, iid = f'{GOOD_S}{n}', GOOD_I | n
    if fam == 'server':
        return 'AdminMessage.Response', fg.encode('AdminMessage.Response', message=sid + ' ' + 'x' * size)
    if fam == 'distributed':
        return 'DistributedSearchRequest.Request', fg.encode(
            'DistributedSearchRequest.Request', unknown=0x31, username='searcher', ticket=iid, query='q' * size)
    if n % 2 == 0:
        r = random.Random(f'c02-big-picture:{n}')
        return 'PeerUserInfoReply.Request', fg.encode(
            'PeerUserInfoReply.Request', description=sid, has_picture=True, picture=r.randbytes(size), upload_slots=1,
            queue_size=0, has_slots_free=True)
    r = random.Random(f'c02-big-dir:{n}')
    files: list = []
    want = max(size, 65541)
    while True:                       # zlib: grow the directory until the COMPRESSED frame is big enough
        for _ in range(max(64, (want - 20 * len(files)) // 20)):
            files.append({'unknown': 1, 'filename': '%032x.flac' % r.getrandbits(128), 'filesize': r.getrandbits(30),
                          'extension': '', 'attributes': []})
        wire = fg.encode('PeerDirectoryContentsReply.Request', ticket=iid, directory='music',
                         directories=[{'name': 'music', 'files': files}])
        if len(wire) >= want:
            return 'PeerDirectoryContentsReply.Request', wire
        want += want - len(wire)


def _run_bigframe(res: dict, params: dict):
    rng = random.Random(f"{params['seed']}:{ID}:bigframe:{params['idx']}")
    idx = params['idx']
    kind = ('peer', 'peer-obf', 'server', 'peer', 'peer-obf', 'dist', 'peer', 'dist-obf')[idx % 8]
    fam = FAMILY_OF[kind]
    fg = forge()
    size = rng.choice((65537, 65540, 66000, 70000, 100000, 131072, 131073, 200000, 400000)) if idx % 3 else rng.randint(65537, 400000)
    seg, wmode = (('whole', 'one-write'), ('random', 'one-write'), ('fixed:4096', 'one-write'), ('fixed:65536', 'per-frame'),
                  ('whole', 'per-frame'), ('fixed:1000', 'one-write'))[(idx // 8) % 6]
    gid = rng.randrange(0, 60000)
    items = []
    for _ in range(rng.randint(0, 2)):
        gid += 1
        name, wire = fg.good(fam, gid, rng.randrange(8))
        items.append({'g': gid, 'name': name, 'wire': wire})
    gid += 1
    name, wire = big_good(fam, gid, size)
    if len(wire) <= 65536 + 4:
        res['inconclusive'] = f'harness: big frame is only {len(wire)} bytes'
        return
    items.append({'g': gid, 'name': name, 'wire': wire})
    follow = rng.randint(1, 3)
    for _ in range(follow):
        gid += 1
        name, wire = fg.good(fam, gid, rng.randrange(8))
        items.append({'g': gid, 'name': name, 'wire': wire})
    info = _run_stream_world(res, f"{ID}:bigframe:{params['seed']}:{idx}", kind, items, seg, wmode, 'bigframe')
    if info is None:
        return
    runner.add_obs(res, 'bigframe_cases')
    runner.add_obs(res, 'bigframe_bytes', len(items[-follow - 1]['wire']))
    res['csigs'].append(f"bigframe|{kind}|{items[-follow - 1]['name']}|{len(items) - follow - 1}+1+{follow}|{seg_class(seg, wmode)}")
    res['sample'] = {'kind': 'bigframe', 'params': params, 'connection': kind, 'segmentation': seg, 'writes': wmode,
                     'stream': [{'good': it['g'], 'message': it['name'], 'bytes': len(it['wire'])} for it in items], 'observed': info}


# --------------------------------------------------------------------------------------------------

def cases(tier: str, seed: int) -> list[dict]:
    sz = SIZES[tier]
    out: list[dict] = []
    # every menu entry alone (minimal witnesses get the lowest case numbers)
    for fam, kinds in (('server', ('server',)), ('peer', ('peer', 'peer-obf')), ('distributed', ('dist', 'dist-obf'))):
        for i, lab in enumerate(menu()[fam]):
            for kind in kinds:
                out.append({'kind': 'semantic', 'mode': 'sys', 'conn': kind, 'entries': [lab], 'seg': 'whole', 'wmode': 'per-frame'})
    for p in range(sz['fresh_direct']):
        out.append({'kind': 'fresh', 'mode': 'direct', 'seed': seed, 'p': p})
    for p in range(sz['fresh_stream']):
        out.append({'kind': 'fresh', 'mode': 'stream', 'seed': seed, 'p': p})
    for i in range(sz['bigframe']):
        out.append({'kind': 'bigframe', 'seed': seed, 'idx': i})
    for i in range(sz['accept']):
        out.append({'kind': 'accept', 'seed': seed, 'idx': i})
    rng = random.Random(f'{seed}:{ID}:cases')
    for i in range(sz['sem_random']):
        kind = ('server', 'server', 'peer', 'server', 'dist', 'peer-obf')[i % 6]
        labs = list(menu()[FAMILY_OF[kind]])
        entries = [rng.choice(labs) for _ in range(rng.randint(2, 5))]
        out.append({'kind': 'semantic', 'mode': 'rand', 'seed': seed, 'idx': i, 'conn': kind, 'entries': entries,
                    'seg': rng.choice(SEGS), 'wmode': rng.choice(WMODES)})
    # interleave parser batches and streams so that every shard gets both
    ns, nb = sz['streams'], sz['parser_batches']
    step = max(1, ns // max(1, nb))
    b = 0
    for i in range(ns):
        out.append({'kind': 'stream', 'seed': seed, 'idx': i})
        if i % step == 0 and b < nb:
            out.append({'kind': 'parser', 'seed': seed, 'idx': b, 'n': sz['batch']})
            b += 1
    while b < nb:
        out.append({'kind': 'parser', 'seed': seed, 'idx': b, 'n': sz['batch']})
        b += 1
    return out


def run_case(params: dict) -> dict:
    res = runner.new_result(params.get('case', 0))
    kind = params['kind']
    if kind == 'parser':
        _run_parser(res, params)
    elif kind == 'stream':
        _run_stream(res, params)
    elif kind == 'semantic':
        _run_semantic(res, params)
    elif kind == 'accept':
        _run_accept(res, params)
    elif kind == 'fresh':
        _run_fresh(res, params)
    elif kind == 'bigframe':
        _run_bigframe(res, params)
    else:
        res['inconclusive'] = f'unknown case kind {kind!r}'
    return res


def finish(total: dict, tier: str, seed: int) -> None:
    cov = total['cover']
    total['obs']['conn_kinds_covered'] = len(cov.get('conn_kinds', []))
    total['obs']['stream_classes_covered'] = len(cov.get('stream_classes', []))
    total['obs']['semantic_entries_covered'] = len(cov.get('semantic_classes', []))


if __name__ == '__main__':          # child of _spawn_child: fresh interpreter, parameters as JSON on stdin
    import json as _json
    import sys as _sys
    _payload = _json.loads(_sys.stdin.read())
    _out = _fresh_child_direct(_payload) if _payload['mode'] == 'direct' else _fresh_child_stream(_payload)
    print(_RESULT_MARK + _json.dumps(_out, default=str))
