"""C15 — user tracking on the server mirrors the set of reasons to track (DESIGN §4 C15).

A real logged-in client runs on the simulated world.  The workload issues a
seeded sequence of ``client.users.track_user / untrack_user`` calls for the
users u1/u2; the gap between two calls (zero-time yields, virtual delays,
"right after the next delivery from the server") is the schedule knob.  The
scripted server answers every AddUser per a per-user behaviour script and may
drop the connection at any step.  The judge folds the calls into a reference
flag set per user and server session and compares it with the AddUser /
RemoveUser frames the server recorded, with the client's reported flags / state
at quiescence and with what is left after a disconnect.
"""
from __future__ import annotations

import asyncio
import itertools
import random
from typing import Any, Optional

from .. import runner
from ..monitors import safety_net_violations
from ..simloop import settle, yields
from ..world import World, run_world

ID = 'C15'
LEVEL = 'exploration'
QUICK_SCALE = 2.5      # the quick tier was enlarged by this factor after MIN_OBS['quick'] was measured
QUICK_FIXED = ('exhaustive_gap_cases', 'send_failure_sweep_cases', 'xfer_sequences', 'transfer_ops', 'xfast_sequences',
               'unsettled_transfer_ops', 'removals_right_after_finalisation',
               'transfer_reason_transitions', 'relogins_with_unfinished_transfer')   # fixed-size parts / parts sized after the enlargement: not scaled
ME = 'me'
USERS = ('u1', 'u2')
FLAGS = ('REQUESTED', 'FRIEND', 'TRANSFER')
MAX_CALLS = 8
TOL = 0.06                    # s; frame arrival times carry up to a few segment latencies (<= 4 ms each)
RETRY_DELAY = {'notexists': 600.0, 'silence': 20.0, 'invisible': 10.0}   # documented: 600 s / 10 s wait + 10 s / 10 s
RETRY_GRACE = 30.0            # a due retry must be seen within delay + 30 s
PROMPT = 0.5                  # s; a (non-retry) request reaches the server this soon after the FIFO worker can send it
PROMPT_XFER = 1.0             # s; the same for a reason set by the transfer manager's management cycle (runs every <= 0.25 s)
PROMPT_RELOGIN = 20.5         # s; ... for a TRANSFER reason that outlives a disconnect: a management cycle may re-add it
#                               while there is no session; that worker's attempts (10 s wait + 10 s) become visible late
XFER_SETTLE = 1.0             # s; after every transfer operation the harness lets the management cycle apply it
XFER_WINDOW = 0.35            # s; ... unless the step is marked 'fast': then the cycle (every 0.05 .. 0.25 s) applies it at an
#                               unknown moment within this window, possibly after the workload's next steps
EXH_K = 13                    # k = 0..12 yields in the exhaustive sub-space

RULE = (
    "One case = one simulated world: real SoulSeekClient 'me' logged in to the scripted server; one sequence of "
    "<= 8 track_user/untrack_user calls x {REQUESTED, FRIEND, TRANSFER} for users u1 (and u2), issued through the "
    "public UserManager API. Gap before each call = the schedule knob: k zero-time loop yields (k 0..8), or a virtual "
    "delay from {1e-4, 0.003, 0.01, 0.05, 0.5, 10, 11, 20, 21, 600, 601} s (+ 0..8 yields; 10/20/600 coincide with the "
    "library's own timers), or 'until the next server->client delivery' + 0..8 yields. Per-user behaviour script consumed "
    "per AddUser.Request (exists / notexists / silence; <= 2 failures, then exists). Up to 2 server disconnects per "
    "sequence (server-side RST, FIN, or both directions reset at once = send failure) at a seeded step with the same gap "
    "knob; the harness logs in again (connect_server + login, as the library's own reconnect does) before the next call "
    "and the judge compares per server session. Random sequences are drawn from random.Random(f'{seed}:C15:{idx}'), "
    "lengths non-decreasing with the case number. Before them the sub-space track(f1); <tracked | answer in flight | "
    "retry pending after notexists | retry pending after silence>; untrack(f1); k yields (k = 0..12; for 'in flight' "
    "also: until the answer is delivered, then k yields); track(f2) is enumerated "
    "exhaustively for all 9 flag pairs (585 cases, both tiers), and a send-failure sweep (144 cases): the connection is "
    "lost k = 0..7 yields after the call that makes the worker send AddUser / RemoveUser, resp. the call runs k yields "
    "after the loss, for the three ways to close. Family 'xfer' (directed histories + seeded sequences): the TRANSFER "
    "reason is produced by the transfer manager itself: the workload adds paused downloads from u1/u2 "
    "(client.transfers.download(user, path, paused=True): a real, unfinished, never served transfer entry), aborts and "
    "removes them, mixed with direct REQUESTED/FRIEND calls (gap knob as above) and disconnects + re-login; the reason "
    "'has an unfinished transfer' is folded from the harness' own record of the transfers it created / aborted / removed "
    "and is re-asserted at every login. Family 'xfast': the same operations WITHOUT letting the management cycle "
    "run in between: finalisation (abort) and removal, additions of further transfers and direct REQUESTED/FRIEND calls "
    "follow each other after 0..3 loop steps or 1..40 ms, in every order (directed histories x 9 gaps + seeded "
    "sequences, no disconnects), judged at quiescence as usual. Non-trivial = >= 1 AddUser for u1/u2 observed; distinct = "
    "(call sequence with flags, gap classes, consumed behaviours, disconnect positions)."
)
ASSUMPTIONS = [
    "Reference model: per user a flag set folded over the calls in the order in which the library functions actually ran "
    "(recorded inside the calling task); untrack of an unset flag / never tracked user changes nothing; the set is "
    "emptied when the client reports the server connection CLOSED.",
    "A call that runs while the client is dispatching the CLOSED notification of the server connection (between the "
    "first and the last listener of that event) may be dropped with the old session or kept for the next one: both "
    "readings are accepted (the judge evaluates both and reports only what fails under every reading). Calls are never "
    "issued while the client is disconnected outside that window (the harness logs in first).",
    "A kept call's attempts made while disconnected are invisible to the server: the first visible AddUser in the new "
    "session is accepted as their retry (>= 10 s after the call; due within 50 s after the new login).",
    "Documented delays: user does not exist -> 600 s; no answer -> 10 s wait + 10 s; judged on the frames the server "
    "received, timed by the moment the client wrote them to the simulated socket (a tap; arrival adds queueing behind "
    "other traffic), tolerance 0.06 s (the answer's way back); a due retry must be sent within delay + 30 s.",
    "Promptness: the AddUser / RemoveUser of a transition reaches the server within 0.5 virtual seconds after the later "
    "of (the call, the moment the FIFO worker finished its previous attempt: 10 s after an unanswered one, the login of "
    "the session); the simulated world has no CPU time, only <= 4 ms latency per segment.",
    "Frames of a session that was cut may be missing from the tail: a transition need not have reached the server when "
    "the cut came less than 0.1 s after the FIFO worker could turn to it (its call time, or 10 s after the last attempt "
    "sent for that user if that one was left unanswered).",
    "State is judged only as TRACKED / not TRACKED (the statement does not name the other states); task residue is "
    "judged only after a disconnect (R3), not while connected.",
    "Naming of the lost-call mechanism uses a passive look at the tracked-user entry at call time (worker task already "
    "done and the request was put on that entry's queue); verdicts never depend on it.",
    "SimServer answers AddUser per the script and sends nothing else about u1/u2. Outside the 'xfer' family the TRANSFER "
    "reason is set through the same public call the transfer manager uses (no transfers in those runs).",
    "Family 'xfer': reason TRANSFER(u) <=> the harness' record holds a transfer for u that it added and neither aborted "
    "nor removed (paused downloads do nothing on their own; the record is compared with Transfer.is_finalized() at every "
    "checkpoint, a difference is a harness error). The harness waits 1 s after every transfer operation (the management "
    "cycle that turns it into track/untrack calls runs within 0.25 s), so the order of the reason changes is the order "
    "of the workload's steps; promptness bound 1 s. A reason that outlives a disconnect counts from the next login "
    "(SessionInitialized requests a cycle); a cycle may also re-add it while there is no session (then flags TRANSFER / "
    "a retrying worker are not residue, and the first AddUser of the new session may be that worker's retry: bound "
    "20.5 s after the login). Direct calls in this family use REQUESTED / FRIEND only.",
    "Family 'xfast' (no wait after a transfer operation): the transfer manager looks at the transfers once per management "
    "cycle, so a change of the TRANSFER reason takes effect at an unknown moment within 0.35 s, possibly after the "
    "workload's next calls for that user, and a reason that appears and disappears again (or the reverse) within that "
    "window may never be seen. Every such placement is accepted: the judge evaluates all of them and reports only what "
    "fails under every one. (What can not be explained by any placement: a reason that stays set for good.)",
]
MIN_OBS = {
    'quick': {'sequences': 2150, 'calls_issued': 7000, 'add_user_frames': 3200, 'remove_user_frames': 1000,
              'retries_judged': 350, 'quiescence_checks': 2500, 'disconnects': 450, 'exhaustive_gap_cases': 585, 'send_failure_sweep_cases': 144,
              'xfast_sequences': 490, 'unsettled_transfer_ops': 1000, 'removals_right_after_finalisation': 150,
              'xfer_sequences': 590, 'transfer_ops': 1200, 'transfer_reason_transitions': 900, 'relogins_with_unfinished_transfer': 150},
    'thorough': {'sequences': 60000, 'calls_issued': 250000, 'add_user_frames': 100000, 'remove_user_frames': 30000,
                 'retries_judged': 15000, 'quiescence_checks': 60000, 'disconnects': 12000, 'exhaustive_gap_cases': 585, 'send_failure_sweep_cases': 144,
                 'xfast_sequences': 14900, 'unsettled_transfer_ops': 30000, 'removals_right_after_finalisation': 4000,
                 'xfer_sequences': 19900, 'transfer_ops': 40000, 'transfer_reason_transitions': 30000, 'relogins_with_unfinished_transfer': 5000},
}
SHARD_TIMEOUT = {'quick': 600, 'thorough': 5400}
N_RANDOM = {'quick': 5000, 'thorough': 250000}
N_XFER = {'quick': 600, 'thorough': 20000}
N_XFAST = {'quick': 500, 'thorough': 15000}
EXHAUSTIVE = {'quick': False, 'thorough': False}   # only the named sub-space is exhaustive
WHAT_FAILS = {
    'lost-call:track-while-worker-finishing': 'a track_user call that runs between the worker task returning and its '
                                              'done-callback removing the entry is discarded (no AddUser, flags empty)',
    'lost-call:flags-differ': 'reported tracking flags differ from the fold of the calls at quiescence',
    'duplicate-track-request': 'a second AddUser without RemoveUser in between that is not a due retry',
    'duplicate-untrack-request': 'a second RemoveUser without AddUser in between',
    'untrack-without-track': 'RemoveUser although no AddUser was sent in this session',
    'retry-after-untrack': 'AddUser retry although no reason to track remained',
    'retry-too-early': 'AddUser retry earlier than the documented delay',
    'retry-missing': 'a failed attempt was not retried although a reason remained',
    'missing-track-request': 'the reason set became non-empty but no AddUser reached the server',
    'missing-untrack-request': 'the reason set became empty but no RemoveUser reached the server',
    'track-request-late': 'AddUser arrived long after the reason set became non-empty and the worker was free',
    'untrack-request-late': 'RemoveUser arrived long after the reason set became empty and the worker was free',
    'extra-track-request': 'AddUser without the reason set having become non-empty',
    'extra-untrack-request': 'RemoveUser without the reason set having become empty',
    'state-mismatch': 'get_tracking_state is TRACKED <=/=> reasons non-empty and last attempt confirmed',
    'state-event-mismatch': 'last UserTrackingStateChangedEvent disagrees with the settled state',
    'disconnect-never-completes:send-failure-inside-tracking-worker':
        'the worker\'s own AddUser/RemoveUser send fails, the connection is closed from inside that send, the CLOSED '
        'listener cancels and awaits the worker that is awaiting the send: cancel() cycle (RecursionError), both tasks '
        'and the CLOSED dispatch hang for ever, session never destroyed',
    'transfer-reason-outlives-removed-transfer':
        'TransferManager.remove() of an unfinished transfer: the user is in neither the finished nor the unfinished set '
        'of the next management cycle, the TRANSFER reason is never withdrawn (no RemoveUser, flags keep TRANSFER)',
    'transfer-reason-outlives-transfer-removed-right-after-finalisation':
        'a transfer is finalised (abort) and removed before the management cycle has handled the finalisation: neither '
        'the cycle (user no longer listed) nor remove() withdraws the TRANSFER reason (no RemoveUser, flags keep TRANSFER)',
    'transfer-reason-lost-across-relogin':
        'a user with an unfinished transfer is not tracked again (no AddUser, flags lack TRANSFER) in the session that '
        'follows a disconnect + login, although the reason remains',
    'residue-after-disconnect': 'tracking entry / worker / retry task / flags left after the server connection closed',
}

# --------------------------------------------------------------------------
# generation

_DELAYS = (1e-4, 0.003, 0.01, 0.05, 0.5, 10.0, 11.0, 20.0, 21.0, 600.0, 601.0)
_DELAY_W = (10, 12, 12, 14, 8, 5, 4, 4, 3, 2, 2)


def gen_gap(rng: random.Random) -> list:
    r = rng.random()
    if r < 0.40:
        return ['y', rng.randrange(0, 9)]
    if r < 0.55:
        return ['rx', rng.randrange(0, 9)]
    sec = rng.choices(_DELAYS, _DELAY_W)[0]
    k = 0 if rng.random() < 0.5 else rng.randrange(1, 9)
    return ['d', sec, k]


def gen_random(seed: int, idx: int, length: int) -> dict:
    rng = random.Random(f'{seed}:{ID}:{idx}')
    users = USERS[:1] if rng.random() < 0.55 else USERS
    beh: dict = {}
    for u in users:
        if rng.random() < 0.45:
            beh[u] = []
            continue
        script = []
        for _ in range(1 if rng.random() < 0.6 else 2):
            if rng.random() < 0.35:
                script.append('exists')
            script.append(rng.choice(('notexists', 'silence', 'silence')))
        beh[u] = script
    r = rng.random()
    ncuts = 0 if r < 0.62 else (1 if r < 0.92 else 2)
    cut_at = sorted(rng.randrange(0, length + 1) for _ in range(ncuts))   # before call #j (== length: after the last)
    steps: list = []
    have = {u: set() for u in users}
    prev = None
    for j in range(length + 1):
        for c in cut_at:
            if c == j:
                steps.append({'op': 'x', 'mode': rng.choice(('rst', 'eof', 'cut', 'cut')), 'gap': gen_gap(rng),
                              'wait': rng.choice((0.05, 0.05, 12.0, 25.0))})
                for u in users:
                    have[u].clear()
        if j == length:
            break
        if prev is not None and rng.random() < 0.12:
            op, u = prev                                    # same op again (double untrack / double track)
            f = rng.choice(FLAGS)
        else:
            u = rng.choice(users)
            if have[u] and rng.random() < 0.5:
                op = 'u'
                f = rng.choice(sorted(have[u])) if rng.random() < 0.8 else rng.choice(FLAGS)
            elif not have[u] and rng.random() < 0.08:
                op, f = 'u', rng.choice(FLAGS)              # untrack of something never tracked
            else:
                op = 't'
                free = [x for x in FLAGS if x not in have[u]]
                f = rng.choice(free) if free and rng.random() < 0.7 else rng.choice(FLAGS)
        if op == 't':
            have[u].add(f)
        else:
            have[u].discard(f)
        prev = (op, u)
        steps.append({'op': op, 'u': u, 'f': f, 'gap': gen_gap(rng) if steps else ['y', 0]})
    return {'steps': steps, 'beh': beh}


EXH_VARIANTS = (
    # name, behaviour script of u1, gap before the untrack, kind of the gap before the second track
    ('tracked', [], ['d', 0.05, 0], 'y'),
    ('inflight', [], ['y', 0], 'y'),
    ('inflight-then-answer-delivered', [], ['y', 0], 'rx'),
    ('retry-pending-notexists', ['notexists'], ['d', 0.05, 0], 'y'),
    ('retry-pending-silence', ['silence'], ['d', 10.05, 0], 'y'),
)


def exhaustive_cases() -> list[dict]:
    out = []
    for name, beh, gap1, kind in EXH_VARIANTS:
        for f1 in FLAGS:
            for f2 in FLAGS:
                for k in range(EXH_K):
                    out.append({'mode': 'exh', 'variant': name, 'k': k, 'beh': {'u1': list(beh)}, 'steps': [
                        {'op': 't', 'u': 'u1', 'f': f1, 'gap': ['y', 0]},
                        {'op': 'u', 'u': 'u1', 'f': f1, 'gap': list(gap1)},
                        {'op': 't', 'u': 'u1', 'f': f2, 'gap': [kind, k]},
                    ]})
    return out


SWEEP_K = 8


def send_failure_sweep() -> list[dict]:
    """'send failure = the connection is lost right around the attempt', made systematic: the cut k yields after the
    call that makes the worker send, and the call k yields after the cut; AddUser and RemoveUser; three ways to close."""
    out = []
    t1 = {'op': 't', 'u': 'u1', 'f': 'REQUESTED', 'gap': ['y', 0]}
    for mode in ('cut', 'rst', 'eof'):
        for k in range(SWEEP_K):
            def x(gap):
                return {'op': 'x', 'mode': mode, 'gap': gap, 'wait': 0.05}
            templates = {
                'cut-after-track': [dict(t1), x(['y', k])],
                'cut-after-untrack': [dict(t1), {'op': 'u', 'u': 'u1', 'f': 'REQUESTED', 'gap': ['d', 0.05, 0]}, x(['y', k])],
                'track-after-cut': [x(['d', 0.05, 0]), {'op': 't', 'u': 'u1', 'f': 'REQUESTED', 'gap': ['y', k]}],
                'untrack-after-cut': [dict(t1), x(['d', 0.05, 0]), {'op': 'u', 'u': 'u1', 'f': 'REQUESTED', 'gap': ['y', k]}],
            }
            for name, steps in templates.items():
                out.append({'mode': 'sweep', 'variant': f'{name}:{mode}', 'k': k, 'beh': {}, 'steps': steps})
            # the same around the RemoveUser of a user whose retry is pending (the worker first cancels the retry task)
            u1 = {'op': 'u', 'u': 'u1', 'f': 'REQUESTED'}
            out.append({'mode': 'sweep', 'variant': f'cut-after-untrack-of-retry-pending:{mode}', 'k': k,
                        'beh': {'u1': ['notexists']}, 'steps': [dict(t1), dict(u1, gap=['d', 0.05, 0]), x(['y', k])]})
            out.append({'mode': 'sweep', 'variant': f'untrack-of-retry-pending-after-cut:{mode}', 'k': k,
                        'beh': {'u1': ['notexists']}, 'steps': [dict(t1), x(['d', 0.05, 0]), dict(u1, gap=['y', k])]})
    return out


def _length_for(i: int, n: int) -> int:
    """Non-decreasing in i: short sequences (shortest witnesses) first."""
    f = i / max(1, n)
    if f < 0.04:
        return 1
    if f < 0.12:
        return 2
    if f < 0.24:
        return 3
    return min(MAX_CALLS, 4 + int((f - 0.24) / 0.76 * 5))


XFER_FLAGS = ('REQUESTED', 'FRIEND')


def gen_xfer(seed: int, idx: int, length: int) -> dict:
    """Sequence of transfer operations (ta = add a paused download, tb = abort, tr = remove), direct REQUESTED/FRIEND
    calls and disconnects.  Transfers are numbered in the order of their creation."""
    rng = random.Random(f'{seed}:{ID}:xfer:{idx}')
    users = USERS[:1] if rng.random() < 0.5 else USERS
    beh: dict = {}
    for u in users:
        r = rng.random()
        beh[u] = [] if r < 0.6 else [rng.choice(('silence', 'silence', 'notexists'))] if r < 0.9 else \
            ['exists', rng.choice(('silence', 'notexists'))]
    r = rng.random()
    ncuts = 0 if r < 0.35 else (1 if r < 0.85 else 2)
    cut_at = sorted(rng.randrange(1, length + 1) for _ in range(ncuts))
    with_remove = rng.random() < 0.3
    steps: list = []
    xf: list = []                  # [user, 'unfinished' | 'finalized' | 'removed']
    have = {u: set() for u in users}
    for j in range(length + 1):
        for c in cut_at:
            if c == j:
                steps.append({'op': 'x', 'mode': rng.choice(('rst', 'eof', 'cut')), 'gap': gen_gap(rng),
                              'wait': rng.choice((0.05, 0.05, 1.0, 12.0, 25.0))})
                for u in users:
                    have[u].clear()
        if j == length:
            break
        gap = gen_gap(rng) if steps else ['y', 0]
        live = [n for n, x in enumerate(xf) if x[1] == 'unfinished']
        there = [n for n, x in enumerate(xf) if x[1] != 'removed']
        r = rng.random()
        if not xf or r < 0.28 or (r < 0.6 and not live):
            u = rng.choice(users)
            steps.append({'op': 'ta', 'u': u, 'n': len(xf), 'gap': gap})
            xf.append([u, 'unfinished'])
        elif r < 0.50 and live:
            n = rng.choice(live)
            steps.append({'op': 'tb', 'u': xf[n][0], 'n': n, 'gap': gap})
            xf[n][1] = 'finalized'
        elif r < 0.60 and there and with_remove:
            n = rng.choice(there)
            steps.append({'op': 'tr', 'u': xf[n][0], 'n': n, 'gap': gap})
            xf[n][1] = 'removed'
        else:
            u = rng.choice(users)
            if have[u] and rng.random() < 0.5:
                op, f = 'u', rng.choice(sorted(have[u]))
                have[u].discard(f)
            else:
                op, f = 't', rng.choice(XFER_FLAGS)
                have[u].add(f)
            steps.append({'op': op, 'u': u, 'f': f, 'gap': gap})
    return {'steps': steps, 'beh': beh}


def xfer_directed() -> list[dict]:
    """Shortest histories of the family, every one with a fixed meaning."""
    y0 = ['y', 0]
    d = ['d', 0.05, 0]

    def ta(n, u='u1', gap=y0):
        return {'op': 'ta', 'u': u, 'n': n, 'gap': list(gap)}

    def tb(n, u='u1', gap=d):
        return {'op': 'tb', 'u': u, 'n': n, 'gap': list(gap)}

    def tr(n, u='u1', gap=d):
        return {'op': 'tr', 'u': u, 'n': n, 'gap': list(gap)}

    def x(mode, wait=0.05, gap=d):
        return {'op': 'x', 'mode': mode, 'gap': list(gap), 'wait': wait}

    def c(op, f, u='u1', gap=d):
        return {'op': op, 'u': u, 'f': f, 'gap': list(gap)}
    hist = {
        'add': [ta(0)],
        'add-abort': [ta(0), tb(0)],
        'add-add-abort-abort': [ta(0), ta(1), tb(0), tb(1)],
        'add-abort-add': [ta(0), tb(0), ta(1)],
        'add-abort-remove': [ta(0), tb(0), tr(0)],
        'add-remove': [ta(0), tr(0)],
        'add-two-users-abort-one': [ta(0), ta(1, 'u2'), tb(0)],
        'add-track-abort-untrack': [ta(0), c('t', 'REQUESTED'), tb(0), c('u', 'REQUESTED')],
        'track-add-untrack-abort': [c('t', 'FRIEND', gap=y0), ta(0), c('u', 'FRIEND'), tb(0)],
        'add-abort-then-disconnect-relogin': [ta(0), tb(0), x('rst'), c('t', 'REQUESTED', 'u2')],
    }
    for mode in ('rst', 'eof', 'cut'):
        for wait in (0.05, 12.0, 25.0):
            hist[f'add-disconnect-relogin:{mode}:{wait:g}'] = [ta(0), x(mode, wait), c('t', 'REQUESTED', 'u2')]
        hist[f'add-disconnect-relogin-abort:{mode}'] = [ta(0), x(mode), tb(0)]
        hist[f'add-disconnect-relogin-twice:{mode}'] = [ta(0), x(mode), c('t', 'REQUESTED', 'u2'), x(mode, 12.0), tb(0)]
        hist[f'add-track-disconnect-relogin-untrack:{mode}'] = [ta(0), c('t', 'REQUESTED'), x(mode), c('u', 'REQUESTED')]
        hist[f'add-disconnect-at-end:{mode}'] = [ta(0), x(mode)]
    out = []
    for name, steps in hist.items():
        for beh in ([], ['silence'], ['notexists']):
            out.append({'mode': 'xfer', 'variant': name + (':' + beh[0] if beh else ''), 'k': '',
                        'beh': {'u1': list(beh)}, 'steps': [dict(s_) for s_ in steps]})
    return out


FAST_GAPS = (['y', 0], ['y', 1], ['y', 2], ['y', 3], ['d', 0.001, 0], ['d', 0.005, 0], ['d', 0.01, 0], ['d', 0.02, 0],
             ['d', 0.04, 0])


def xfast_directed() -> list[dict]:
    """Finalisation and removal (and whatever else) follow each other without a management cycle in between."""
    y0 = ['y', 0]
    out = []
    for g in FAST_GAPS:
        def ta(n, u='u1', gap=g, fast=True):
            return {'op': 'ta', 'u': u, 'n': n, 'gap': list(gap), 'fast': fast}

        def tb(n, u='u1', gap=g, fast=True):
            return {'op': 'tb', 'u': u, 'n': n, 'gap': list(gap), 'fast': fast}

        def tr(n, u='u1', gap=g, fast=True):
            return {'op': 'tr', 'u': u, 'n': n, 'gap': list(gap), 'fast': fast}

        def c(op, f, u='u1', gap=g):
            return {'op': op, 'u': u, 'f': f, 'gap': list(gap)}
        first = ta(0, gap=y0, fast=False)          # settled: u1 is tracked for its transfer
        d = ['d', 0.05, 0]
        hist = {
            'abort-remove': [first, tb(0, gap=d), tr(0)],
            'abort-remove-then-add': [first, tb(0, gap=d), tr(0), ta(1)],
            'abort-add-remove': [first, tb(0, gap=d), ta(1), tr(0)],
            'abort-remove-remove-other': [first, ta(1, gap=d, fast=False), tb(0, gap=d), tr(0), tb(1), tr(1)],
            'abort-both-remove-both': [first, ta(1, gap=d, fast=False), tb(0, gap=d), tb(1), tr(0), tr(1)],
            'track-abort-remove-untrack': [first, c('t', 'REQUESTED', gap=d), tb(0, gap=d), tr(0), c('u', 'REQUESTED')],
            'abort-track-remove': [first, tb(0, gap=d), c('t', 'REQUESTED'), tr(0)],
            'abort-remove-track': [first, tb(0, gap=d), tr(0), c('t', 'REQUESTED')],
            'abort-remove-track-untrack': [first, tb(0, gap=d), tr(0), c('t', 'FRIEND'), c('u', 'FRIEND')],
            'add-abort-remove-unsettled': [ta(0, gap=y0), tb(0), tr(0)],
            'add-remove-unsettled': [ta(0, gap=y0), tr(0)],
            'add-abort-unsettled': [ta(0, gap=y0), tb(0)],
            'two-users-abort-remove': [first, ta(1, 'u2', gap=d, fast=False), tb(0, gap=d), tr(0), tb(1, 'u2'), tr(1, 'u2')],
        }
        # An idle management task handles a request at once; one that has just run a cycle sleeps for >= 50 ms.  The
        # same histories with a cycle kicked off 5 ms before the finalisation (a transfer of u2 is added): the
        # finalisation is then not handled before the removal.
        kick = ta(9, 'u2', gap=d)
        soon = ['d', 0.005, 0]
        for name in ('abort-remove', 'abort-remove-then-add', 'abort-add-remove', 'track-abort-remove-untrack',
                     'abort-track-remove', 'abort-remove-track', 'abort-remove-track-untrack'):
            steps = [dict(s_) for s_ in hist[name]]
            k = next(n for n, s_ in enumerate(steps) if s_['op'] == 'tb')
            steps[k]['gap'] = list(soon)
            hist['cycle-just-ran:' + name] = steps[:k] + [kick] + steps[k:]
        for name, steps in hist.items():
            out.append({'mode': 'xfast', 'variant': f'{name}:{gap_class(g)}', 'k': '', 'beh': {},
                        'steps': [dict(s_) for s_ in steps]})
    return out


def gen_xfast(seed: int, idx: int, length: int) -> dict:
    rng = random.Random(f'{seed}:{ID}:xfast:{idx}')
    users = USERS[:1] if rng.random() < 0.6 else USERS
    beh = {u: ([] if rng.random() < 0.8 else ['silence']) for u in users}
    steps: list = []
    xf: list = []
    have = {u: set() for u in users}
    last_final = None
    for j in range(length):
        gap = list(rng.choice(FAST_GAPS)) if steps and rng.random() < 0.85 else (['d', 0.05, 0] if steps else ['y', 0])
        fast = rng.random() < 0.8
        live = [n for n, x in enumerate(xf) if x[1] == 'unfinished']
        final = [n for n, x in enumerate(xf) if x[1] == 'finalized']
        r = rng.random()
        if last_final is not None and xf[last_final][1] == 'finalized' and r < 0.55:
            n = last_final                                   # remove what has just been finalised
            steps.append({'op': 'tr', 'u': xf[n][0], 'n': n, 'gap': gap, 'fast': fast})
            xf[n][1] = 'removed'
            last_final = None
        elif not xf or r < 0.25 or (not live and not final and r < 0.7):
            u = rng.choice(users)
            steps.append({'op': 'ta', 'u': u, 'n': len(xf), 'gap': gap, 'fast': fast and bool(xf)})
            xf.append([u, 'unfinished'])
        elif r < 0.55 and live:
            n = rng.choice(live)
            steps.append({'op': 'tb', 'u': xf[n][0], 'n': n, 'gap': gap, 'fast': fast})
            xf[n][1] = 'finalized'
            last_final = n
        elif r < 0.68 and (live or final):
            n = rng.choice(live + final)
            steps.append({'op': 'tr', 'u': xf[n][0], 'n': n, 'gap': gap, 'fast': fast})
            xf[n][1] = 'removed'
        else:
            u = rng.choice(users)
            if have[u] and rng.random() < 0.5:
                op, f = 'u', rng.choice(sorted(have[u]))
                have[u].discard(f)
            else:
                op, f = 't', rng.choice(XFER_FLAGS)
                have[u].add(f)
            steps.append({'op': op, 'u': u, 'f': f, 'gap': gap})
    return {'steps': steps, 'beh': beh}


# witnesses of earlier findings, kept as directed cases (shortest histories that exposed a mechanism)
REGRESSION_CASES = [
    # 3932ee3: the tracking task is cancelled (connection cut) while it is cancelling its own retry timer
    {'steps': [{'op': 't', 'u': 'u1', 'f': 'TRANSFER', 'gap': ['y', 0]}, {'op': 'u', 'u': 'u1', 'f': 'TRANSFER', 'gap': ['rx', 2]},
               {'op': 't', 'u': 'u1', 'f': 'TRANSFER', 'gap': ['rx', 8]}, {'op': 't', 'u': 'u1', 'f': 'FRIEND', 'gap': ['y', 6]},
               {'op': 't', 'u': 'u1', 'f': 'REQUESTED', 'gap': ['y', 0]}, {'op': 't', 'u': 'u1', 'f': 'TRANSFER', 'gap': ['y', 7]},
               {'op': 'x', 'mode': 'cut', 'gap': ['rx', 0], 'wait': 12.0},
               {'op': 't', 'u': 'u1', 'f': 'REQUESTED', 'gap': ['d', 0.003, 0]},
               {'op': 't', 'u': 'u1', 'f': 'REQUESTED', 'gap': ['d', 0.05, 0]}],
     'beh': {'u1': ['notexists', 'exists', 'silence']}, 'world_tag': '0:56859:'},
]


def cases(tier: str, seed: int) -> list[dict]:
    out = exhaustive_cases() + send_failure_sweep()
    for k, c in enumerate(REGRESSION_CASES):
        out.append(dict(c, mode='regression', seed=seed, idx=k))
    out.extend(xfer_directed())
    n = N_XFER[tier] - len(xfer_directed())
    for i in range(n):
        c = gen_xfer(seed, i, 2 + min(MAX_CALLS - 2, int(i / max(1, n) * 7)))
        c.update(mode='xfer', seed=seed, idx=f'x{i}')
        out.append(c)
    out.extend(xfast_directed())
    n = N_XFAST[tier] - len(xfast_directed())
    for i in range(n):
        c = gen_xfast(seed, i, 3 + min(MAX_CALLS - 3, int(i / max(1, n) * 6)))
        c.update(mode='xfast', seed=seed, idx=f'f{i}')
        out.append(c)
    n = N_RANDOM[tier]
    for i in range(n):
        c = gen_random(seed, i, _length_for(i, n))
        c.update(mode='rand', seed=seed, idx=i)
        out.append(c)
    return out


# --------------------------------------------------------------------------
# abstract descriptions

def gap_class(gap: list) -> str:
    if gap[0] == 'y':
        return f'y{gap[1]}'
    if gap[0] == 'rx':
        return f'rx{gap[1]}'
    return f'd{gap[1]:g}+{gap[2]}'


def step_str(s: dict) -> str:
    if s['op'] == 'x':
        return f"[{gap_class(s['gap'])}]X:{s['mode']}:{s['wait']:g}"
    if s['op'] in ('ta', 'tb', 'tr'):
        return f"[{gap_class(s['gap'])}]{ {'ta': 'add', 'tb': 'abort', 'tr': 'remove'}[s['op']] }-transfer#{s['n']}:{s['u']}" + \
            ('!' if s.get('fast') else '')
    return f"[{gap_class(s['gap'])}]{s['op']}:{s['u']}:{s['f'][0]}"


# --------------------------------------------------------------------------
# reference model and judge (pure functions over the recorded run)

def fold(calls: list) -> tuple[list, list]:
    """calls [(t, op, flag, i)] in execution order -> (timeline [(t, flags tuple)], transitions [(t, 'up'|'down', i)])."""
    flags: set = set()
    timeline, trans = [], []
    for t, op, f, i in calls:
        before = bool(flags)
        if op == 't':
            flags.add(f)
        else:
            flags.discard(f)
        if bool(flags) != before:
            trans.append((t, 'up' if flags else 'down', i))
        timeline.append((t, tuple(sorted(flags))))
    return timeline, trans


def flags_at(timeline: list, t: float) -> tuple:
    cur: tuple = ()
    for tt, fl in timeline:
        if tt <= t:
            cur = fl
        else:
            break
    return cur


def nonempty_somewhere(timeline: list, t0: float, t1: float) -> bool:
    if flags_at(timeline, t0):
        return True
    return any(t0 < tt <= t1 and fl for tt, fl in timeline)


def nonempty_throughout(timeline: list, t0: float, t1: float) -> bool:
    if not flags_at(timeline, t0):
        return False
    return not any(t0 < tt <= t1 and not fl for tt, fl in timeline)


def placements(calls: list, limit: int = 400) -> list:
    """Family xfast: every order in which the management cycle may have applied the unsettled changes of the TRANSFER
    reason relative to the calls that followed within XFER_WINDOW.  Returns alternative call lists (the first one is
    the recorded order)."""
    fast = [p for p, c in enumerate(calls) if c.get('fast')]
    if not fast:
        return [calls]
    options = []
    for p in fast:
        c = calls[p]
        opts: list = [('at', p)]
        for q in range(p + 1, len(calls)):
            d = calls[q]
            if d['t'] > c['t'] + XFER_WINDOW:
                break
            if d['u'] != c['u'] or d['epoch'] != c['epoch']:
                continue
            if d.get('via'):
                if d['op'] != c['op']:
                    opts.append(('cancel', q))      # appeared and disappeared between two cycles: never seen
                break
            opts.append(('after', q))
        options.append(opts)
    out = []
    for combo in itertools.islice(itertools.product(*options), limit):
        gone, moved = set(), {}
        ok = True
        for p, (kind, q) in zip(fast, combo):
            if p in gone:
                continue                      # cancelled together with its predecessor: its own option is void
            if kind == 'cancel':
                if q in gone:
                    ok = False
                    break
                gone.update((p, q))
            elif kind == 'after':
                moved.setdefault(q, []).append(p)
        if not ok:
            continue
        seq = []
        for p, c in enumerate(calls):
            if p in gone:
                continue
            if not any(p in ps for ps in moved.values()):
                seq.append(c)
            for m in moved.get(p, []):
                if m not in gone:
                    seq.append(dict(calls[m], t=c['t'], placed_after=c['i']))
        out.append(seq)
    return out or [calls]


def judge(run: dict, choice: dict) -> tuple[list, dict]:
    """run: the recorded case; choice: call index -> 'kept'|'dropped' for calls that ran inside a CLOSED dispatch.
    Returns ([(sig, user, epoch, detail)], stats)."""
    viol: list = []
    stats = {'retries_judged': 0, 'quiescence_checks': 0, 'residue_checks': 0}
    nep = run['epochs']
    calls: dict = {(e, u): [] for e in range(nep + 1) for u in USERS}
    presession: dict = {(e, u): set() for e in range(nep + 1) for u in USERS}
    for c in run['calls']:
        e = c['epoch']
        if c['phase'] == 'window' and choice.get(c['i']) == 'kept':
            e += 1
            presession[(e, c['u'])].add(c['i'])
        if c.get('pre'):
            presession[(e, c['u'])].add(c['i'])
        calls[(e, c['u'])].append((c['t'], c['op'], c['f'], c['i']))
    finishing = {(c['epoch'], c['u']) for c in run['calls']
                 if c['phase'] == 'open' and c['op'] == 't' and c.get('queued_on_finished_worker')}
    via = {c['i']: c.get('via') for c in run['calls']}          # how a TRANSFER reason change came about (family xfer)
    relogin_reason = {(c['epoch'], c['u']) for c in run['calls'] if c.get('via') == 'relogin'}
    removed_unfinished = {(c['epoch'], c['u']) for c in run['calls'] if c.get('via') == 'remove'}
    removed_right_after = {(e_, u_) for e_, u_, *_ in run.get('quick_removals', [])}

    def prompt(key, t_login, t_trans, i) -> float:
        if key in relogin_reason and t_login is not None and t_trans <= t_login + PROMPT_RELOGIN:
            return PROMPT_RELOGIN
        return PROMPT_XFER if via.get(i) else PROMPT

    models: dict = {}
    for e in range(nep + 1):
        t_cut = run['cuts'].get(e)
        t_login = run['logins'].get(e)
        snap_q = next((s for s in run['snaps'] if s['kind'] == 'quiescence' and s['epoch'] == e), None)
        obs_end = t_cut if t_cut is not None else (snap_q['t'] if snap_q else None)
        for u in USERS:
            key = (e, u)
            timeline, trans = fold(calls[key])
            models[key] = timeline
            frames = [dict(f) for f in run['frames'].get(e, {}).get(u, [])]
            # attempts made while disconnected (kept calls) never reach a server: stand-ins at call time
            pseudo = []
            pre = [x for x in trans if x[2] in presession[key]]
            for n, (t, kind, i) in enumerate(pre):
                pseudo.append({'t': t, 'k': 'A' if kind == 'up' else 'R', 'beh': 'invisible', 'pseudo': True})
                if kind == 'up' and n == len(pre) - 1 and t_login is not None:
                    # unanswered attempt (10 s) + retry delay (10 s), again and again until there is a session
                    tt = t + RETRY_DELAY['silence']
                    while tt < t_login:
                        pseudo.append({'t': round(tt, 6), 'k': 'A', 'beh': 'invisible', 'pseudo': True})
                        tt += RETRY_DELAY['silence']
            frames = pseudo + frames
            ups = [x for x in trans if x[1] == 'up']
            downs = [x for x in trans if x[1] == 'down']
            state, ever_added, last = 'removed', False, None
            n_up = n_down = 0
            free_at = 0.0        # when the FIFO worker was done with the previous frame it sent
            for f in frames:
                t = f['t']
                if f['k'] == 'A':
                    if state == 'removed':
                        n_up += 1
                        if n_up > len(ups) or t < ups[n_up - 1][0] - 1e-9:
                            viol.append(('extra-track-request', u, e, {'frame': f, 'model_transitions': trans}))
                        elif not f.get('pseudo') and t > max(ups[n_up - 1][0], free_at, t_login or 0.0) + \
                                prompt(key, t_login, ups[n_up - 1][0], ups[n_up - 1][2]):
                            viol.append(('track-request-late', u, e, {
                                'frame': f, 'reason_set_became_non_empty_at': ups[n_up - 1][0],
                                'seconds_late': round(t - max(ups[n_up - 1][0], free_at), 4)}))
                    else:
                        prev = last
                        if prev['beh'] == 'exists':
                            viol.append(('duplicate-track-request', u, e, {
                                'frame': f, 'previous_attempt': prev, 'seconds_after_previous': round(t - prev['t'], 4),
                                'model_flags_then': list(flags_at(timeline, t))}))
                        else:
                            if not f.get('pseudo'):
                                stats['retries_judged'] += 1
                            dt = t - prev['t']
                            need = RETRY_DELAY[prev['beh']]
                            if not nonempty_somewhere(timeline, t - TOL, t):
                                viol.append(('retry-after-untrack', u, e, {
                                    'frame': f, 'failed_attempt': prev, 'seconds_after_failure': round(dt, 4)}))
                            elif dt < need - TOL:
                                viol.append((f"retry-too-early:{prev['beh']}", u, e, {
                                    'frame': f, 'failed_attempt': prev, 'seconds_after_failure': round(dt, 4),
                                    'documented_delay': need}))
                    state, ever_added, last = 'added', True, f
                    free_at = t + (10.0 if f['beh'] in ('silence', 'invisible') else 0.0)
                else:
                    if state == 'added':
                        n_down += 1
                        state = 'removed'
                        if n_down > len(downs):
                            viol.append(('extra-untrack-request', u, e, {'frame': f, 'model_transitions': trans}))
                        elif not f.get('pseudo') and t > max(downs[n_down - 1][0], free_at, t_login or 0.0) + \
                                prompt(key, t_login, downs[n_down - 1][0], downs[n_down - 1][2]):
                            viol.append(('untrack-request-late', u, e, {
                                'frame': f, 'reason_set_became_empty_at': downs[n_down - 1][0],
                                'seconds_late': round(t - max(downs[n_down - 1][0], free_at), 4)}))
                        free_at = t
                    else:
                        viol.append(('duplicate-untrack-request' if ever_added else 'untrack-without-track', u, e,
                                     {'frame': f, 'model_transitions': trans}))
            # a failed last attempt must be retried while a reason remains
            if last is not None and state == 'added' and last['beh'] != 'exists':
                need = RETRY_DELAY[last['beh']]
                t_fail = last['t']
                if last['beh'] == 'invisible':
                    deadline = (t_login + 50.0) if t_login is not None else None
                else:
                    deadline = t_fail + need + RETRY_GRACE
                if deadline is not None and obs_end is not None and deadline <= obs_end and \
                        nonempty_throughout(timeline, t_fail, deadline):
                    viol.append((f"retry-missing:{last['beh']}", u, e, {
                        'failed_attempt': last, 'observed_until': round(obs_end, 4), 'documented_delay': need,
                        'model_flags': list(flags_at(timeline, deadline))}))
            # counts (R1): every transition of the reason set reached the server, in order
            order = trans                      # already in call order, alternating up/down
            n_seen = min(n_up, len(ups)) + min(n_down, len(downs))
            if n_seen < len(order):
                first_missing = order[n_seen]
                # the worker is FIFO: it turns to this transition once it is done with the last attempt it sent
                # (an unanswered / invisible attempt keeps it waiting for 10 s)
                free_at = first_missing[0]
                for f_ in frames:
                    # every frame the worker sent kept it busy until then; an unanswered AddUser for another 10 s
                    # (also when a RemoveUser for an older transition followed it: that one went out after the wait)
                    busy = 10.0 if f_['k'] == 'A' and f_.get('beh') in ('silence', 'invisible') else 0.0
                    free_at = max(free_at, f_['t'] + busy)
                excused = t_cut is not None and t_cut < free_at + 0.1
                if obs_end is None:
                    excused = True          # session never observed to its end (harness): not judged
                if not excused:
                    sig = 'missing-track-request' if first_missing[1] == 'up' else 'missing-untrack-request'
                    viol.append((sig, u, e, {'model_transitions': trans, 'frames': frames,
                                             'first_missing': first_missing, 'session_cut_at': t_cut}))
            # R2 at quiescence
            if snap_q is not None:
                stats['quiescence_checks'] += 1
                want = list(flags_at(timeline, snap_q['t']))
                got = snap_q['users'][u]
                want_tracked = bool(want) and last is not None and last['beh'] == 'exists' and state == 'added'
                if got['flags'] != want:
                    viol.append(('lost-call:flags-differ', u, e, {'model_flags': want, 'reported_flags': got['flags'],
                                                                  'reported_state': got['state']}))
                elif (got['state'] == 'TRACKED') != want_tracked:
                    viol.append(('state-mismatch', u, e, {'model_flags': want, 'last_attempt': last,
                                                         'reported_state': got['state']}))
                else:
                    evs = [x for x in run['events'].get(u, []) if x[2] == e]
                    if (bool(evs) and (evs[-1][1] == 'TRACKED') != want_tracked) or (not evs and want_tracked):
                        viol.append(('state-event-mismatch', u, e, {'model_flags': want, 'last_attempt': last,
                                                                    'events': evs[-4:], 'reported_state': got['state']}))
    # R3 after a disconnect
    for s in run['snaps']:
        if s['kind'] != 'after-disconnect':
            continue
        e = s['epoch']
        stats['residue_checks'] += 1
        live_users = set()
        for u in USERS:
            want = list(flags_at(models[(e, u)], s['t'] - 1e-9))     # (a reason re-asserted for the login comes after)
            got = s['users'][u]
            if not want and u in s.get('xfer_users', ()):
                # an unfinished transfer remains: a management cycle may already have re-added the reason
                live_users.add(u)
                if got['flags'] not in ([], ['TRANSFER']):
                    viol.append(('residue-after-disconnect:flags', u, e, {'snapshot': got, 't': s['t'],
                                                                          'unfinished_transfer_remains': True}))
                continue
            if want:
                live_users.add(u)
                if got['flags'] != want:
                    viol.append(('lost-call:flags-differ', u, e, {'model_flags': want, 'reported_flags': got['flags'],
                                                                  'after_disconnect': True}))
                continue
            what = []
            if got['flags']:
                what.append('flags')
            if got['state'] != 'UNTRACKED':
                what.append('state')
            if got['entry']:
                what.append('entry')
            if what:
                viol.append(('residue-after-disconnect:' + '+'.join(what), u, e, {'snapshot': got, 't': s['t']}))
        left = [t for t in s['tasks'] if t[1] not in live_users]
        if left:
            viol.append(('residue-after-disconnect:task', left[0][1] or '?', e, {'tasks': left, 't': s['t']}))
        if s.get('others'):
            viol.append(('residue-after-disconnect:entry', s['others'][0], e, {'tracked_users': s['others'], 't': s['t']}))

    # name the mechanism of the design pre-finding: everything that goes wrong for a user after a track call ran on
    # an entry whose worker had already returned is one finding
    out, collapsed, kept_reason = [], {}, {}
    for sig, u, e, detail in viol:
        if (e, u) in finishing:
            collapsed.setdefault((e, u), []).append(sig)
        elif (e, u) in removed_unfinished and sig.split(':')[0] not in (
                'residue-after-disconnect', 'retry-too-early', 'retry-missing'):
            # the consequences of one mechanism: the TRANSFER reason of a removed unfinished transfer is never withdrawn
            # (the missing RemoveUser also shifts every later frame of that user and session against the model)
            kept_reason.setdefault((e, u), []).append(sig)
        else:
            out.append((sig, u, e, detail))
    # ... and of another: a TRANSFER reason that outlives a disconnect is not asserted again for the new session
    lost_relogin = set()
    for sig, u, e, detail in out:
        if (e, u) not in relogin_reason:
            continue
        ids = {c['i'] for c in run['calls'] if c['epoch'] == e and c['u'] == u and c.get('via') == 'relogin'}
        if sig == 'missing-track-request' and detail['first_missing'][2] in ids:
            lost_relogin.add((e, u))
        if sig == 'lost-call:flags-differ' and 'TRANSFER' in detail['model_flags'] and \
                'TRANSFER' not in detail['reported_flags'] and not detail.get('after_disconnect'):
            lost_relogin.add((e, u))
    if lost_relogin:
        rest, cons = [], {}
        for sig, u, e, detail in out:
            if (e, u) in lost_relogin:
                cons.setdefault((e, u), []).append(sig)
            else:
                rest.append((sig, u, e, detail))
        out = rest
        for (e, u), sigs in cons.items():
            out.append(('transfer-reason-lost-across-relogin', u, e, {
                'consequences': sorted(set(sigs)), 'session_began_at': run['logins'].get(e),
                'unfinished_transfer_remains': True}))
    # ... and of a third: finalised and removed before the management cycle handled the finalisation
    if removed_right_after:
        rest, cons = [], {}
        for sig, u, e, detail in out:
            stays = sig == 'missing-untrack-request' or (
                sig == 'lost-call:flags-differ' and 'TRANSFER' in detail['reported_flags']
                and 'TRANSFER' not in detail['model_flags'])
            if (e, u) in removed_right_after and (stays or (e, u) in cons):
                cons.setdefault((e, u), []).append(sig)
            else:
                rest.append((sig, u, e, detail))
        if cons:
            # earlier consequences of the same (frames shifted against the model) join the finding
            out = [x for x in rest if (x[2], x[1]) not in cons or x[0].split(':')[0] in (
                'residue-after-disconnect', 'retry-too-early', 'retry-missing')]
            for (e, u), sigs in cons.items():
                sigs += [x[0] for x in rest if (x[2], x[1]) == (e, u) and x not in out]
                out.append(('transfer-reason-outlives-transfer-removed-right-after-finalisation', u, e, {
                    'consequences': sorted(set(sigs)),
                    'removals': [x for x in run['quick_removals'] if (x[0], x[1]) == (e, u)]}))
    for (e, u), sigs in kept_reason.items():
        ops = [c for c in run['calls'] if c['epoch'] == e and c['u'] == u and c.get('via') == 'remove']
        out.append(('transfer-reason-outlives-removed-transfer', u, e, {'consequences': sorted(set(sigs)), 'removals': ops}))
    for (e, u), sigs in collapsed.items():
        hits = [c for c in run['calls'] if c['epoch'] == e and c['u'] == u and c.get('queued_on_finished_worker')]
        out.append(('lost-call:track-while-worker-finishing', u, e, {'consequences': sorted(set(sigs)), 'lost_calls': hits}))
    stats['finishing_hits'] = len(finishing)
    stats['finishing_without_effect'] = len([k for k in finishing if k not in collapsed])
    return out, stats


# --------------------------------------------------------------------------

def _flag_names(flags) -> list:
    return sorted(f.name for f in type(flags) if f in flags)


def run_case(params: dict) -> dict:
    from aioslsk.events import ConnectionStateChangedEvent, UserTrackingStateChangedEvent
    from aioslsk.network.connection import ConnectionState, ServerConnection
    from aioslsk.protocol.messages import AddUser, RemoveUser
    from aioslsk.user.model import TrackingFlag

    res = runner.new_result(params.get('case', 0))
    steps = params['steps']
    beh = {u: list(params.get('beh', {}).get(u, [])) for u in USERS}
    ncalls = sum(1 for s in steps if s['op'] != 'x')
    xfer_mode = any(s['op'] in ('ta', 'tb', 'tr') for s in steps)
    if not 1 <= ncalls <= MAX_CALLS:
        res['inconclusive'] = f'sequence length {ncalls} outside 1..{MAX_CALLS}'
        return res

    async def main(w: World):
        await w.start_server()
        script = {u: list(beh[u]) for u in USERS}
        answers: dict = {}            # (session no, user) -> [behaviour per AddUser.Request]

        def user_answer(session, username):
            if username not in USERS:
                return 'exists'
            b = script[username].pop(0) if script[username] else 'exists'
            answers.setdefault((session.no, username), []).append(b)
            return None if b == 'silence' else b
        w.server.user_answer = user_answer

        h = await w.add_client(ME)
        client = h.client
        tm = client.users._tracking_manager
        await settle(0.5)
        t_base = w.now
        tracking_events: list = []
        st = {'epoch': 0, 'window': False, 'connected': True, 'cut_pending': False}
        run: dict = {'calls': [], 'cuts': {}, 'logins': {}, 'epoch_start': {0: 0.0}, 'snaps': [], 'closed': [],
                     'raised': []}
        keep = []

        def now() -> float:
            return round(w.now - t_base, 6)

        def closed_first(ev):
            if isinstance(ev.connection, ServerConnection) and ev.state == ConnectionState.CLOSED:
                st['window'] = True
                run['closed'].append([now(), w.loop.iterations])

        def closed_last(ev):
            if isinstance(ev.connection, ServerConnection) and ev.state == ConnectionState.CLOSED:
                st['window'] = False
                st['connected'] = False
                st['cut_pending'] = False
                st['epoch'] += 1
                run['epoch_start'][st['epoch']] = now()
                run['closed'][-1] += [now(), w.loop.iterations]

        def on_tracking_state(ev):
            tracking_events.append((ev.user.name, [now(), ev.state.name, st['epoch']]))
        keep.extend((closed_first, closed_last, on_tracking_state))
        client.events.register(UserTrackingStateChangedEvent, on_tracking_state, priority=0)
        client.events.register(ConnectionStateChangedEvent, closed_first, priority=-10 ** 6)
        client.events.register(ConnectionStateChangedEvent, closed_last, priority=10 ** 6)

        # -- family xfer: the harness' own record of the transfers it created ------------------------
        xfers: dict = {}              # n -> {'u': user, 'state': 'unfinished'|'finalized'|'removed', 'obj': Transfer}

        def has_unfinished(user: str) -> bool:
            return any(x['u'] == user and x['state'] == 'unfinished' for x in xfers.values())

        def check_record():
            for n, x in xfers.items():
                if x['state'] == 'removed':
                    if x['obj'] in client.transfers.transfers:
                        raise RuntimeError(f'transfer #{n} was removed but is still listed')
                elif x['obj'].is_finalized() != (x['state'] == 'finalized'):
                    raise RuntimeError(f"transfer #{n}: harness record {x['state']} but library state "
                                       f"{x['obj'].state.VALUE.name}")

        def reason_call(i, user, op, how, at=None, fast=False):
            ent = tm._tracked_users.get(user)
            run['calls'].append({
                'fast': fast,
                'i': i, 't': now() if at is None else at, 'it': w.loop.iterations, 'op': op, 'u': user, 'f': 'TRANSFER',
                'epoch': st['epoch'], 'phase': 'open', 'after_cut': st['cut_pending'], 'entry': ent is not None,
                'worker_done': False, 'via': how, 'pre': at is not None})
            runner.add_obs(res, 'transfer_reason_transitions')

        rx_waiters: list = []

        def on_deliver(transport, chunk):
            if transport.owner == ME and transport.conn.port == w.server.port and rx_waiters:
                for fut in rx_waiters:
                    if not fut.done():
                        fut.set_result(None)
                rx_waiters.clear()
        w.net.on_deliver = on_deliver

        async def do_gap(gap):
            if gap[0] == 'y':
                await yields(gap[1])
            elif gap[0] == 'd':
                await asyncio.sleep(gap[1])
                await yields(gap[2])
            elif gap[0] == 'rx':
                fut = w.loop.create_future()
                rx_waiters.append(fut)
                try:
                    await asyncio.wait_for(fut, 0.1)
                except asyncio.TimeoutError:
                    pass
                await yields(gap[1])
            else:
                raise ValueError(gap)

        def snapshot(kind: str):
            snap = {'kind': kind, 't': now(), 'epoch': st['epoch'], 'users': {}, 'tasks': [], 'others': []}
            for u in USERS:
                ent = tm._tracked_users.get(u)
                snap['users'][u] = {
                    'flags': _flag_names(client.users.get_tracking_flags(u)),
                    'state': client.users.get_tracking_state(u).name,
                    'entry': ent is not None,
                    'worker_alive': bool(ent is not None and ent.task is not None and not ent.task.done()),
                    'retry_alive': bool(ent is not None and ent.retry_task is not None and not ent.retry_task.done()),
                }
            for t in asyncio.all_tasks():
                coro = t.get_coro()
                name = getattr(coro, '__qualname__', '') or ''
                short = name.rsplit('.', 1)[-1]
                if short in ('_tracking_task', '_request_retry') and not t.done():
                    frame = getattr(coro, 'cr_frame', None)
                    tu = frame.f_locals.get('tracked_user') if frame is not None else None
                    snap['tasks'].append([short, tu.user.name if tu is not None else None])
            snap['tasks'].sort(key=str)
            if kind == 'after-disconnect':
                snap['others'] = sorted(n for n in tm._tracked_users if n not in USERS)
            if xfers:
                check_record()
                snap['xfer_users'] = [u for u in USERS if has_unfinished(u)]
            run['snaps'].append(snap)

        async def ensure_session(wait: float):
            """Before a step: if the client has fully processed a close, check what is left and log in again."""
            if st['connected'] or st['window']:
                return
            await settle(wait)
            snapshot('after-disconnect')
            persisting = [u for u in USERS if has_unfinished(u)]
            for n, u in enumerate(persisting):
                # the reason outlived the session: it counts again for the session that is about to begin; if a
                # management cycle has already re-added it while there was no session (both readings are accepted,
                # the snapshot tells which one happened) it counts from the close on and its attempts are invisible
                readded = run['snaps'][-1]['users'][u]['flags'] == ['TRANSFER']
                reason_call(1000 + 10 * st['epoch'] + n, u, 't', 'relogin',
                            at=run['epoch_start'][st['epoch']] if readded else None)
                if readded:
                    runner.add_obs(res, 'transfer_reason_readded_while_disconnected')
            await h.call(client.network.connect_server())
            await h.call(client.login())
            st['connected'] = True
            run['logins'][st['epoch']] = now()
            runner.add_obs(res, 'relogins')
            if persisting:
                runner.add_obs(res, 'relogins_with_unfinished_transfer')
            await settle(XFER_SETTLE if persisting else 0.05)

        def stuck_diag() -> dict:
            tasks = []
            for t in asyncio.all_tasks():
                if t.done() or not t.cancelling():
                    continue
                name = (getattr(t.get_coro(), '__qualname__', '') or '').rsplit('.', 1)[-1]
                tasks.append([name, 'cancel() calls: %d' % t.cancelling(),
                              'waits for ' + type(getattr(t, '_fut_waiter', None)).__name__])
            return {
                't': now(), 'closed_dispatch_began_at': run['closed'][-1][0] if run['closed'] else None,
                'server_connection_state': client.network.server_connection.state.name,
                'session_object_still_set': client.session is not None,
                'cancelling_tasks_that_never_end': sorted(tasks),
                'tracked_users': {n: {'flags': _flag_names(e.flags), 'state': e.state.name,
                                      'worker_alive': bool(e.task is not None and not e.task.done())}
                                  for n, e in tm._tracked_users.items()},
                'loop_exceptions': [x.get('exc_type') for x in w.loop.exceptions],
            }

        async def close_completed() -> bool:
            """After a cut: has the client finished dispatching CLOSED?  (False = it never does.)"""
            if st['cut_pending'] or st['window']:
                await settle(0.05)
            if st['window']:
                await settle(30.0)
            if st['window']:
                run['stuck'] = stuck_diag()
                return False
            if st['cut_pending']:
                raise RuntimeError('client never noticed the cut of the server connection')
            return True

        last_wait = 0.05
        for i, s in enumerate(steps):
            await do_gap(s['gap'])
            if st['window'] and now() - run['closed'][-1][0] > 5.0 and not await close_completed():
                break
            await ensure_session(last_wait)
            if s['op'] == 'x':
                session = w.server.session_of(ME)
                if st['cut_pending'] or session is None or not session.open:
                    if not await close_completed():     # previous cut not yet seen by the client: let it happen first
                        break
                    await ensure_session(last_wait)
                    session = w.server.session_of(ME)
                run['cuts'][st['epoch']] = now()
                st['cut_pending'] = True
                last_wait = s['wait']
                runner.add_obs(res, 'disconnects')
                runner.add_cover(res, 'disconnect_modes', s['mode'])
                if s['mode'] == 'cut':
                    w.net.cut_now(session.writer.transport.conn, 'rst')
                else:
                    session.close(s['mode'])
                continue
            if s['op'] in ('ta', 'tb', 'tr'):
                async def xop(i=i, s=s):
                    if not st['connected'] and not st['window']:
                        return False
                    user, n = s['u'], s['n']
                    before = has_unfinished(user)
                    try:
                        if s['op'] == 'ta':
                            obj = await client.transfers.download(user, f'@@vf\\dir\\file{n}.mp3', paused=True)
                            xfers[n] = {'u': user, 'state': 'unfinished', 'obj': obj}
                        elif s['op'] == 'tb':
                            await client.transfers.abort(xfers[n]['obj'])
                            xfers[n]['state'] = 'finalized'
                            xfers[n]['finalized_at'] = now()
                        else:
                            if xfers[n]['state'] == 'finalized' and now() - xfers[n]['finalized_at'] <= XFER_WINDOW:
                                run.setdefault('quick_removals', []).append(
                                    [st['epoch'], user, n, xfers[n]['finalized_at'], now()])
                                runner.add_obs(res, 'removals_right_after_finalisation')
                            await client.transfers.remove(xfers[n]['obj'])
                            xfers[n]['state'] = 'removed'
                    except Exception as exc:  # noqa  (reported as a violation below, never swallowed)
                        run['raised'].append([i, type(exc).__name__, repr(exc)[:200]])
                        return True
                    after = has_unfinished(user)
                    if after != before:
                        reason_call(i, user, 't' if after else 'u', {'ta': 'add', 'tb': 'abort', 'tr': 'remove'}[s['op']],
                                    fast=bool(s.get('fast')))
                    return True
                while not await h.call(xop()):
                    await ensure_session(last_wait)
                runner.add_obs(res, 'calls_issued')
                runner.add_obs(res, 'transfer_ops')
                if s.get('fast'):
                    runner.add_obs(res, 'unsettled_transfer_ops')
                else:
                    await settle(XFER_SETTLE)   # the management cycle turns the change into track / untrack calls
                continue
            user, flag = s['u'], TrackingFlag[s['f']]

            async def inner(i=i, s=s, user=user, flag=flag):
                if not st['connected'] and not st['window']:
                    return False        # the close completed while this task was being scheduled: log in first
                ent = tm._tracked_users.get(user)
                run['calls'].append({
                    'i': i, 't': now(), 'it': w.loop.iterations, 'op': s['op'], 'u': user, 'f': s['f'],
                    'epoch': st['epoch'],
                    'phase': 'window' if st['window'] else ('open' if st['connected'] else 'down'),
                    'after_cut': st['cut_pending'],
                    'entry': ent is not None,
                    'worker_done': bool(ent is not None and ent.task is not None and ent.task.done()),
                })
                rec = run['calls'][-1]
                try:
                    if s['op'] == 't':
                        await client.users.track_user(user, flag)
                    else:
                        await client.users.untrack_user(user, flag)
                except Exception as exc:  # noqa  (reported as a violation below, never swallowed)
                    run['raised'].append([i, type(exc).__name__, repr(exc)[:200]])
                # (naming only) the request went to an entry whose worker had already returned: nobody will read it
                rec['queued_on_finished_worker'] = bool(rec['worker_done'] and tm._tracked_users.get(user) is ent)
                return True
            while not await h.call(inner()):
                await ensure_session(last_wait)
            runner.add_obs(res, 'calls_issued')

        # -- let everything that should happen, happen ---------------------------------------
        if 'stuck' in run or not await close_completed():
            pass
        elif not st['connected']:
            await settle(last_wait)
            snapshot('after-disconnect')
        else:
            cur = w.server.session_of(ME)

            def cur_answers():
                return {u: list(answers.get((cur.no, u), [])) for u in USERS}
            ans = cur_answers()
            await settle(650.0 if any('notexists' in a for a in ans.values()) else 45.0)
            for rnd in range(4):
                new = cur_answers()
                pending = [a[-1] for a in new.values() if a and a[-1] != 'exists']
                if not pending or (new == ans and rnd > 0):
                    break
                ans = new
                await settle(650.0 if 'notexists' in pending else 45.0)
            snapshot('quiescence')

        # -- collect ------------------------------------------------------------------------------
        from aioslsk.protocol.messages import ServerMessage
        from ..simloop import T0

        def written_at(sess) -> list:
            """Moments at which the client handed its AddUser / RemoveUser frames for u1/u2 to the connection (tap on
            the simulated socket; one write per message, TCP is FIFO): the k-th written is the k-th received."""
            out = []
            for t, d, data in sess.writer.transport.conn.wlog:
                if d != 'a2b':
                    continue
                try:
                    m = ServerMessage.deserialize_request(data)
                except Exception:  # noqa  (not a whole message: no refinement)
                    return []
                if isinstance(m, (AddUser.Request, RemoveUser.Request)) and m.username in USERS:
                    out.append((round(t - T0 - t_base, 6), type(m), m.username))
            return out

        my_sessions = [x for x in w.server.sessions if x.username == ME]
        frames: dict = {}
        for e, sess in enumerate(my_sessions):
            per: dict = {}
            counters = {u: 0 for u in USERS}
            sent = written_at(sess)
            k = 0
            for t, m in sess.frames:
                if not (isinstance(m, (AddUser.Request, RemoveUser.Request)) and m.username in USERS):
                    continue
                # judged on the frames the server received; their time is the moment the client sent them
                arrived = round(t - t_base, 6)
                t_sent = arrived
                if k < len(sent) and sent[k][1] is type(m) and sent[k][2] == m.username and sent[k][0] <= arrived:
                    t_sent = sent[k][0]
                k += 1
                if isinstance(m, AddUser.Request):
                    lst = answers.get((sess.no, m.username), [])
                    n = counters[m.username]
                    counters[m.username] += 1
                    per.setdefault(m.username, []).append(
                        {'t': t_sent, 'arrived': arrived, 'k': 'A', 'beh': lst[n] if n < len(lst) else '?'})
                else:
                    per.setdefault(m.username, []).append({'t': t_sent, 'arrived': arrived, 'k': 'R'})
            frames[e] = per
        run['frames'] = frames
        run['epochs'] = st['epoch'] + (1 if 'stuck' in run else 0)
        run['events'] = {}
        for name, rec in tracking_events:
            if name in USERS:
                run['events'].setdefault(name, []).append(rec)
        run['dead_tasks'] = h.dead_background_tasks()
        if 'stuck' not in run:          # client.stop() would wait for the stuck tasks for ever
            await w.stop_clients()
        return run

    tag = f"{params.get('seed', 0)}:{params.get('idx', params.get('variant'))}:{params.get('k', '')}"
    if params.get('world_tag'):
        tag = params['world_tag']       # regression cases keep the world (latencies) they were found in
    out = run_world(f'{ID}:{tag}', main, wall_timeout=120)
    if out.inconclusive:
        res['inconclusive'] = out.inconclusive
        return res
    run = out.result
    if any(c['phase'] == 'down' for c in run['calls']):
        res['inconclusive'] = 'harness: a call ran while the client was disconnected'
        return res

    # -- judge (every reading of calls that ran inside a CLOSED dispatch) --------------------
    amb = [c['i'] for c in run['calls'] if c['phase'] == 'window']
    best = None
    orders = placements(run['calls'])
    runner.add_obs(res, 'placements_evaluated', len(orders))
    for combo in itertools.product(('dropped', 'kept'), repeat=len(amb)):
        choice = dict(zip(amb, combo))
        for order in orders:
            v, stats = judge(dict(run, calls=order), choice)
            if best is None or len(v) < len(best[0]):
                best = (v, stats, choice)
            if not v:
                break
        if best is not None and not best[0]:
            break
    viol, stats, choice = best

    def witness(**extra) -> dict:
        d = {'steps': [step_str(s) for s in steps], 'behaviour_script': {u: b for u, b in beh.items() if b},
             'calls': run['calls'], 'frames_by_session': run['frames'], 'cuts': run['cuts'], 'logins': run['logins'],
             'closed_dispatch': run['closed'], 'reading_of_window_calls': choice}
        if params.get('mode') == 'exh':
            d['exhaustive'] = {'variant': params['variant'], 'k_yields_before_second_track': params['k']}
        d.update(extra)
        return d

    seen = set()
    for sig, u, e, detail in viol:
        if (sig, u, e) in seen:
            continue
        seen.add((sig, u, e))
        runner.violation(res, sig, user=u, session=e, detail=detail, witness=witness())
    stuck = run.get('stuck')
    stuck_by_worker = False
    if stuck:
        stuck_by_worker = any(t[0] == '_tracking_task' for t in stuck['cancelling_tasks_that_never_end'])
        runner.violation(
            res, 'disconnect-never-completes:' + ('send-failure-inside-tracking-worker' if stuck_by_worker else 'other'),
            detail=stuck, witness=witness())
        runner.add_obs(res, 'disconnects_that_never_completed')
    for i, name, rep in run['raised']:
        runner.violation(res, f'call-raised:{name}', step=i, exception=rep, witness=witness())
    for sig, detail in safety_net_violations(out):
        if stuck_by_worker and ':RecursionError:' in sig:
            continue                    # the same finding: the cancel() cycle ends in a RecursionError on the loop
        runner.violation(res, f'safety:{sig}', detail=detail, witness=witness())
    for d in run['dead_tasks']:
        if not d['cancelled']:
            runner.violation(res, f"safety:background-task-died:{d['task']}", detail=d, witness=witness())

    # -- observations ----------------------------------------------------------------------------------
    n_add = sum(1 for per in run['frames'].values() for fr in per.values() for f in fr if f['k'] == 'A')
    n_rem = sum(1 for per in run['frames'].values() for fr in per.values() for f in fr if f['k'] == 'R')
    runner.add_obs(res, 'sequences')
    runner.add_obs(res, 'add_user_frames', n_add)
    runner.add_obs(res, 'remove_user_frames', n_rem)
    runner.add_obs(res, 'retries_judged', stats['retries_judged'])
    runner.add_obs(res, 'quiescence_checks', stats['quiescence_checks'])
    runner.add_obs(res, 'residue_checks', stats['residue_checks'])
    runner.add_obs(res, 'calls_in_closed_dispatch', len(amb))
    runner.add_obs(res, 'calls_after_cut_before_client_noticed',
                   sum(1 for c in run['calls'] if c['phase'] == 'open' and c['after_cut']))
    runner.add_obs(res, 'calls_on_finished_worker', sum(1 for c in run['calls'] if c['worker_done']))
    runner.add_obs(res, 'kept_window_calls', sum(1 for x in choice.values() if x == 'kept'))
    if stats.get('finishing_without_effect'):
        runner.add_obs(res, 'finished_worker_hit_without_effect', stats['finishing_without_effect'])
    if params.get('mode') == 'exh':
        runner.add_obs(res, 'exhaustive_gap_cases')
    if params.get('mode') == 'sweep':
        runner.add_obs(res, 'send_failure_sweep_cases')
    if xfer_mode:
        runner.add_obs(res, 'xfast_sequences' if params.get('mode') == 'xfast' else 'xfer_sequences')
    for s in steps:
        runner.add_cover(res, 'gap_kinds', s['gap'][0] if s['gap'][0] != 'd' else f"d{s['gap'][1]:g}")
    for per in run['frames'].values():
        for fr in per.values():
            for f in fr:
                if f['k'] == 'A':
                    runner.add_cover(res, 'behaviours_answered', f['beh'])
    for s in run['snaps']:
        for u in USERS:
            runner.add_cover(res, 'settled_states', f"{s['kind']}:{s['users'][u]['state']}")
    consumed = {u: [f['beh'] for per in run['frames'].values() for f in per.get(u, []) if f['k'] == 'A'] for u in USERS}
    if n_add:
        res['csigs'].append(' '.join(step_str(s) for s in steps) + ' | ' +
                            ';'.join(f"{u}:{','.join(b)}" for u, b in consumed.items() if b))
    res['sample'] = {'params': {k: v for k, v in params.items() if k not in ('steps', 'beh')},
                     'steps': [step_str(s) for s in steps], 'behaviour_script': beh,
                     'calls': [[c['t'], c['op'], c['u'], c['f'], c['phase']] for c in run['calls']],
                     'frames_by_session': run['frames'], 'snapshots': run['snaps'], 'events': run['events']}
    return res
