"""C18 — search results reach only live requests; removal and timeouts are exact (DESIGN §4 C18).

One case = one simulated world: the real client 'me', the scripted server and two
scripted peers.  A seeded script (<= 10 steps) of searches, a wishlist push,
manual removals, peer replies and operations on the public ``request.timer`` is
executed at exact virtual instants; many steps are placed at exactly the virtual
instant of a timer deadline, k loop iterations after the deadline's own timer
handle (k = 0..4).  Everything observable is appended to ONE ordered log
(events of the client's bus, harness actions, registry snapshots); a pure fold
over that log is the reference model and the judge.
"""
from __future__ import annotations

import asyncio
import copy
import gc
import random
import re
import traceback
from typing import Any, Optional

from .. import runner

ID = 'C18'
LEVEL = 'exploration'
QUICK_SCALE = 2      # the quick tier was enlarged by this factor after MIN_OBS['quick'] was measured
TOL = 1e-6            # "same virtual instant or the next loop step"
SAME = 1e-9           # two things happen at the same virtual instant
HORIZON = 110.0       # virtual seconds after T0 in which every scripted deadline lies
PSEUDO_DEADLINE = 4.0  # anchor used for "deadline" steps that target a request without a timer
ARRIVE_LAT = 0.125    # exactly representable one-way latency for replies that must ARRIVE at an instant
N_RANDOM = {'quick': 1800, 'thorough': 80000}

RULE = (
    "One case = one simulated world (real SoulSeekClient 'me' logged in to the scripted server, scripted peers bob and "
    "carol) running one script: settings (request_timeout in {0,3,5,8,30}, wishlist_request_timeout in {-1,0,4,7}, "
    "store_results on/off, 0-3 wishlist entries, server-provided WishlistInterval 10/20/25 s, 1-3 wishlist rounds) and "
    "<= 10 steps: search / search_room / search_user, one WishlistInterval push, remove_request (by object or ticket), "
    "peer replies (PeerSearchReply over a freshly dialled P connection: ticket of a scripted request - live or stale "
    "at delivery -, a never-used ticket, the next not yet issued ticket; single, duplicated at the same instant or 1 s "
    "later; sent at the instant with zero latency or sent earlier so that it ARRIVES at the instant), and operations on "
    "the public request.timer (cancel, reschedule, reschedule then cancel, reschedule then reschedule, the second call "
    "after 0-3 loop iterations or 1 virtual second), and reactions of the application to SearchRequestSentEvent (step "
    "kind 'react', listeners registered after the recording one): a sync listener that removes the new request or "
    "cancels / reschedules / reschedules+cancels its timer; an async listener that suspends 1-3 loop iterations or "
    "5 ms and then does the same; an async listener that is suspended while another callback does it (0-1 iterations "
    "or 2 ms after the listener started), i.e. while the emission of the event - and search() - has not returned. "
    "Step kind 'relogin': the session is lost and regained while requests of every kind are live - the scripted "
    "server resets / closes its side of the server connection (RST, FIN, or both directions reset), the harness waits "
    "until the client reports no session, optionally stays 0.5-2 s without one, then connect_server() + login() "
    "(reconnect.auto off, as the library's own reconnect does); the server announces the wishlist interval again "
    "after the logon once it was scripted; at least one more search follows (searches that fail while there is no "
    "connection are counted, not judged). A few cases make their searches through the command API "
    "(client.execute(GlobalSearchCommand / RoomSearchCommand / UserSearchCommand)), alone or mixed with the manager's "
    "methods; these emit no SearchRequestSentEvent, the harness records the creation when the command returns. "
    "In ~40 % of the random cases (and 13 systematic ones) the application registers TWO listeners of "
    "SearchRequestRemovedEvent after the recording one: the first suspends (1-3 loop steps via sleep(0), or 5 / 50 ms) "
    "and then records 'finished', the second records its delivery; per reported removal each must be entered exactly "
    "once and run to completion, none cancelled (judged at the quiescent end of the run). "
    "Every other step is anchored at an absolute virtual offset, at "
    "creation+dt or at deadline+dt of a scripted request; dt=0 anchors run k=0..4 loop iterations after the "
    "loop.call_at(deadline) handle (k=0 runs before the library's timer callback, k>=2 after it). The first 284 cases "
    "enumerate every single follow-up operation x search type x position around the deadline (0..242), every "
    "reaction to the sent event x search type incl. wishlist (243..283), search / session lost and regained / search "
    "/ late reply for every pair of search types and way of losing the link (284..304) and the command API "
    "(305..308), shortest witnesses first; the rest are drawn from random.Random(f'{seed}:C18:{idx}') with non-decreasing length 2..10. Reference "
    "model = fold over the ordered log: live set by request identity from SearchRequestSentEvent, manual removal and "
    "validated SearchRequestRemovedEvent; per request the list of armed deadlines (start / reschedule) with how each "
    "ended (cancel / re-arm / fired). Rules: R1 result event only for a live request and result.ticket == "
    "request.ticket; R2 every delivered PeerSearchReply (MessageReceivedEvent, listener priority 0 = before the "
    "library's handler) for a live ticket -> exactly one result event, for a non-live ticket none, request.results "
    "grows accordingly; R3 live requests have pairwise distinct tickets and the registry (client.searches.requests) "
    "equals the live set at every log point; R4 tau>0, untouched: exactly one removal event at created+tau (|d|<=1e-6), "
    "none before, unregistered afterwards; tau=0: none ever (tail up to 2 virtual hours); R5 after a manual removal no "
    "event for that request and no later error (loop exception handler incl. never-retrieved task exceptions after a "
    "forced GC, ERROR log records with an exception); R6 a cancelled / superseded deadline never fires, a re-armed "
    "one fires exactly once at the new deadline. A case is non-trivial when >= 1 rule was decisively evaluated; "
    "distinct = settings class + abstract step sequence (kind, sub-kind, anchor class, observed order relative to the "
    "expiry at the same instant)."
)
ASSUMPTIONS = [
    "Expected timeout of a request is read from the documented settings: request_timeout for search / room / user "
    "(0 = none); wishlist_request_timeout for wishlist requests (>0 that value, 0 = none, <0 = the interval the "
    "scripted server pushed). The deadline is the virtual time of SearchRequestSentEvent + timeout (virtual time is "
    "exact; tolerance 1e-6 s).",
    "'Still registered' is decided in log order within one virtual instant: the harness listener for "
    "MessageReceivedEvent has priority 0, i.e. it runs in the same synchronous stretch right before the library's "
    "reply handler; a reply processed after the removal event of the same instant is stale, before it it is live. "
    "Both orders are accepted as the scheduler produces them; they are only labelled.",
    "Not judged: an exception raised synchronously by remove_request for a request that is no longer registered "
    "(the statement does not demand that this succeeds); timer operations on requests that are no longer live are "
    "not performed (re-arming the timer of a removed request is outside the statement); whether request.timer is "
    "None for timeout 0; timing of the wishlist rounds themselves; what the server receives; errors during "
    "client.stop() are reported under their own 'safety:at-shutdown' prefix.",
    "The harness stops further wishlist requests after the scripted number of rounds by disabling the wishlist "
    "entries in the settings (a user action) and pushes WishlistInterval at most once per case.",
    "Replies are built with the repository's message classes; every reply carries a unique marker file name so that "
    "result events can be matched to deliveries. Replies that were never delivered (no MessageReceivedEvent) are "
    "counted, not judged.",
    "Errors are attributed to a request by the KeyError's argument (= ticket, only when unique in the case) and the "
    "virtual time of an armed deadline of that request; unattributed loop exceptions / ERROR records are reported as "
    "safety:*. Signatures of timer violations name the operation history of that timer: cancel only -> "
    "fired-after-cancel; one reschedule -> fired-at-superseded-deadline (old deadline fired) or "
    "cancel-after-reschedule-ineffective (a later cancel did not stop the re-armed deadline); >= 2 reschedules -> "
    "every firing other than the legitimate one is fired-at-superseded-deadline:rearmed-twice (which superseded arm "
    "fired cannot be told from outside: Timer.runner reads `timeout` when the task first runs). After a reported timer "
    "violation of a request its consequences (e.g. the KeyError of the legitimate timer) are counted, not reported.",
    "The statement does not say whether a timeout counts from the announcement of the request "
    "(SearchRequestSentEvent) or from the moment all listeners of that event have returned: when a scripted listener "
    "takes virtual time (5 ms) every removal instant in [sent+timeout, listener-done+timeout] is accepted.",
    "A request made through the command API has no timeout in the library; whether it should have one is not stated: "
    "no removal is demanded for it (a removal event for it would be judged like one for timeout 0). When two requests "
    "made through DIFFERENT APIs share a ticket while both are live, only that collision is reported "
    "(duplicate-live-ticket:mixed-apis) and the rest of the case is not judged (the registry is corrupt from there on). "
    "remove_request removes by ticket number: when the application removes an already dead request whose ticket is "
    "meanwhile held by another live request, that request counts as removed by the user (accepted reading, counted as "
    "removed_through_reused_ticket; only reachable when tickets are re-used).",
    "asyncio's scheduling is unchanged (FIFO ready queue, CPython task stepping); CPython reference counting reports "
    "never-retrieved task exceptions at once, gc.collect() before the end of the judged window catches the rest.",
]
MIN_OBS = {
    'quick': {'sequences': 950, 'requests_created': 1800, 'results_judged': 1000, 'removals_judged': 1200,
              'same_instant_races': 800, 'timer_ops': 500, 'wishlist_rounds': 400, 'timeout0_judged': 150,
              'sent_reactions': 250, 'relogins': 150, 'requests_live_across_relogin': 200,
              'requests_created_after_relogin': 300, 'command_api_requests': 40,
              'removals_with_suspending_listeners': 500},
    'thorough': {'sequences': 39000, 'requests_created': 75000, 'results_judged': 50000, 'removals_judged': 55000,
                 'same_instant_races': 45000, 'timer_ops': 25000, 'wishlist_rounds': 19000, 'timeout0_judged': 10000,
                 'sent_reactions': 16000, 'relogins': 10000, 'requests_live_across_relogin': 12000,
                 'requests_created_after_relogin': 20000, 'command_api_requests': 2500,
                 'removals_with_suspending_listeners': 30000},
}
SHARD_TIMEOUT = {'quick': 600, 'thorough': 5400}
EXHAUSTIVE = {'quick': False, 'thorough': False}
WHAT_FAILS = {
    'removed-request:timer-still-fires': 'a timer of a request the user removed is (still or again) armed - e.g. '
                                         'remove_request does not cancel it, or it is started only after the sent '
                                         'event was delivered and the removal happened during that delivery; at the '
                                         'deadline the callback raises KeyError inside the timer task',
    'removed-request:event-after-removal': 'a removal event is emitted for a request the user already removed',
    'timer:cancel-after-reschedule-ineffective': 'Timer.reschedule(): the cancelled old task clears the handle of the '
                                                 'new task one iteration later; a later cancel() is a no-op and the '
                                                 'callback still fires',
    'timer:fired-at-superseded-deadline': 'the callback ran at a deadline that a later reschedule() had superseded',
    'timer:fired-after-cancel': 'the callback ran although the timer had been cancelled',
    'result-for-dead-request': 'a result event was emitted for a request that was not registered at that moment',
    'result-missing-for-live-request': 'a delivered reply for a registered ticket produced no result event',
    'result-duplicated': 'one delivered reply produced more than one result event',
    'ticket-mismatch': 'the reported result carries another ticket than the request it is reported for',
    'removal-listener-aborted': 'a listener of SearchRequestRemovedEvent that suspends was cancelled / never finished '
                                '(e.g. the timeout task cancels itself while it delivers the event)',
    'removal-listener-skipped': 'a registered listener of SearchRequestRemovedEvent was not called for a reported removal',
    'duplicate-live-ticket': 'two live requests share a ticket (the later one replaces the earlier one in the registry)',
    'duplicate-live-ticket:mixed-apis': 'a search made through the command API (client.ticket_generator) and one made '
                                        'through SearchManager (its own generator) get the same ticket while both are '
                                        'live: both generators start at 2',
    'removal-count': 'a request with a timeout did not get exactly one removal event',
    'removal-early': 'removal event before created+timeout',
    'removal-late': 'removal event after created+timeout',
    'removal-for-timeout-0': 'a request without timeout was removed by a timer',
    'registry:': 'client.searches.requests differs from the live set of the model',
}

GAPS = ('1s', 'y3', 'y2', 'y1', 'sync')


# --------------------------------------------------------------------------
# scripts

def _base(**kw) -> dict:
    sc = {'request_timeout': 5, 'wishlist_request_timeout': -1, 'store_results': True, 'wishlist': [],
          'interval': 20, 'rounds': 1, 'srv_lat': 0.001, 'tail': 0, 'steps': []}
    sc.update(kw)
    return sc


def _search(typ='net', at=None, hops=0) -> dict:
    return {'k': 'search', 'type': typ, 'at': at or {'abs': 0.0}, 'hops': hops}


def _anchor(ref: str, edge: str, dt: float) -> dict:
    return {'ref': ref, 'edge': edge, 'dt': dt}


POSITIONS = [('deadline', -1.0, 0), ('deadline', 0.0, 0), ('deadline', 0.0, 1), ('deadline', 0.0, 2),
             ('deadline', 0.0, 3), ('deadline', 1.0, 0), ('created', 0.0, 1), ('created', 1.0, 0)]


def _follow_ups(full: bool) -> list[dict]:
    ops: list[dict] = [
        {'k': 'remove', 'by': 'object'},
        {'k': 'timer', 'op': 'cancel'},
        {'k': 'reply', 'ticket': 'ref', 'dup': 0, 'mode': 'send', 'peer': 'bob'},
    ]
    if full:
        ops += [
            {'k': 'remove', 'by': 'ticket'},
            {'k': 'timer', 'op': 'reschedule', 'tau2': 3},
            {'k': 'timer', 'op': 'reschedule', 'tau2': None},
        ]
        ops += [{'k': 'timer', 'op': 'reschedule+cancel', 'tau2': 3, 'gap': g} for g in GAPS]
        ops += [
            {'k': 'timer', 'op': 'reschedule+reschedule', 'tau2': 3, 'tau3': 6, 'gap': 'y3'},
            {'k': 'timer', 'op': 'reschedule+reschedule', 'tau2': 6, 'tau3': 2, 'gap': 'y3'},
            {'k': 'reply', 'ticket': 'ref', 'dup': 0, 'mode': 'arrive', 'peer': 'carol'},
            {'k': 'reply', 'ticket': 'ref', 'dup': 'same', 'mode': 'send', 'peer': 'bob'},
            {'k': 'reply', 'ticket': 'ref', 'dup': 'later', 'mode': 'send', 'peer': 'bob'},
            {'k': 'reply', 'ticket': 'unknown', 'dup': 0, 'mode': 'send', 'peer': 'bob'},
        ]
    return ops


def _systematic() -> list[dict]:
    out: list[dict] = []
    # 1 step: a request alone (timeout small / off / 30), each search type
    for typ in ('net', 'room', 'user'):
        out.append(_base(steps=[_search(typ)]))
    out.append(_base(request_timeout=0, tail=7200, steps=[_search('net')]))
    out.append(_base(request_timeout=30, steps=[_search('net')]))
    # 2 steps: one request + one follow-up at every position around its deadline
    for typ, full in (('net', True), ('room', False), ('user', False)):
        for op in _follow_ups(full):
            for edge, dt, hops in POSITIONS:
                st = dict(copy.deepcopy(op), ref='s0', at=_anchor('s0', edge, dt), hops=hops)
                out.append(_base(steps=[_search(typ), st]))
    # wishlist requests (server-provided timeout) + one follow-up
    for op in _follow_ups(False):
        for edge, dt, hops in POSITIONS:
            st = dict(copy.deepcopy(op), ref='w0.0', at=_anchor('w0.0', edge, dt), hops=hops)
            out.append(_base(wishlist=['wish-0'], rounds=2, steps=[{'k': 'wishlist', 'at': {'abs': 1.0}}, st]))
    # wishlist timeout variants x items x rounds, nothing else
    for wrt in (-1, 0, 4):
        for items in (1, 2):
            for rounds in (1, 2, 3):
                out.append(_base(wishlist_request_timeout=wrt, wishlist=[f'wish-{j}' for j in range(items)],
                                 rounds=rounds, tail=(600 if wrt == 0 else 0),
                                 steps=[{'k': 'wishlist', 'at': {'abs': 1.0}}]))
    # timeout off: replies / removal, long observation
    for op in _follow_ups(False):
        if op['k'] == 'timer':
            continue
        st = dict(copy.deepcopy(op), ref='s0', at=_anchor('s0', 'created', 2.0), hops=0)
        out.append(_base(request_timeout=0, tail=7200, steps=[_search('net'), st]))
    # 3 steps
    rep = {'k': 'reply', 'ticket': 'ref', 'dup': 0, 'mode': 'send', 'peer': 'bob', 'ref': 's0', 'hops': 0}
    out.append(_base(steps=[_search(), {'k': 'remove', 'by': 'object', 'ref': 's0', 'at': _anchor('s0', 'created', 1.0),
                                        'hops': 0}, dict(rep, at=_anchor('s0', 'created', 2.0))]))
    out.append(_base(steps=[_search(), {'k': 'remove', 'by': 'object', 'ref': 's0', 'at': _anchor('s0', 'created', 1.0),
                                        'hops': 0}, dict(rep, at=_anchor('s0', 'deadline', 0.0))]))
    out.append(_base(steps=[_search(), dict(rep, at=_anchor('s0', 'deadline', 2.0))]))
    out.append(_base(steps=[_search(), _search('net', {'abs': 0.0})]))
    out.append(_base(steps=[_search(), _search('room', _anchor('s0', 'deadline', 0.0), 0)]))
    out.append(_base(steps=[_search(), _search('user', _anchor('s0', 'deadline', 0.0), 3)]))
    out.append(_base(steps=[_search(), {'k': 'reply', 'ticket': 'future', 'dup': 0, 'mode': 'send', 'peer': 'bob',
                                        'at': {'abs': 1.0}, 'hops': 0}, _search('net', {'abs': 2.0})]))
    out.append(_base(steps=[_search(), {'k': 'reply', 'ticket': 'future', 'dup': 0, 'mode': 'arrive', 'peer': 'bob',
                                        'at': {'abs': 2.0}, 'hops': 0}, _search('net', {'abs': 2.0})]))
    # cancel, then the user removes the request as well (no timer left: no later error expected)
    out.append(_base(steps=[_search(), {'k': 'timer', 'op': 'cancel', 'ref': 's0', 'at': _anchor('s0', 'created', 1.0),
                                        'hops': 0},
                            {'k': 'remove', 'by': 'object', 'ref': 's0', 'at': _anchor('s0', 'created', 2.0), 'hops': 0}]))
    out.append(_base(steps=[_search(), {'k': 'remove', 'by': 'object', 'ref': 's0', 'at': _anchor('s0', 'created', 1.0),
                                        'hops': 0},
                            {'k': 'remove', 'by': 'ticket', 'ref': 's0', 'at': _anchor('s0', 'created', 2.0), 'hops': 0}]))
    # the application reacts to SearchRequestSentEvent (appended last: earlier case numbers are stable)
    for typ, rxs in (('net', _reactions(True)), ('room', _reactions(False)), ('user', _reactions(False))):
        for rx in rxs:
            out.append(_base(steps=[_search(typ), dict(copy.deepcopy(rx), ref='s0')]))
    for rx in _reactions(False):
        out.append(_base(wishlist=['wish-0'], rounds=2,
                         steps=[{'k': 'wishlist', 'at': {'abs': 1.0}}, dict(copy.deepcopy(rx), ref='w0.0')]))
    # a suspended listener alone, and one with a scripted removal in the same instant
    for susp in ('y3', '5ms'):
        out.append(_base(steps=[_search(), {'k': 'react', 'ref': 's0', 'how': 'async', 'who': 'listener', 'suspend': susp,
                                            'op': 'none'}]))
        out.append(_base(steps=[_search(), {'k': 'react', 'ref': 's0', 'how': 'async', 'who': 'listener', 'suspend': susp,
                                            'op': 'none'},
                                {'k': 'remove', 'by': 'object', 'ref': 's0', 'at': _anchor('s0', 'created', 0.0), 'hops': 1}]))
    # the session is lost and regained while requests are live, then new requests are made (appended last)
    late_reply = {'k': 'reply', 'ticket': 'ref', 'dup': 0, 'mode': 'send', 'peer': 'bob', 'ref': 's0', 'hops': 0,
                  'at': {'abs': 3.0}}
    for mode in ('rst', 'eof', 'cut'):
        for typ2 in ('net', 'room', 'user'):
            for typ1 in ('net', 'room', 'user'):
                if mode != 'rst' and typ1 != typ2:
                    continue
                out.append(_base(request_timeout=8, steps=[
                    _search(typ1), {'k': 'relogin', 'mode': mode, 'at': {'abs': 1.0}, 'hops': 0},
                    _search(typ2, {'abs': 2.0}), copy.deepcopy(late_reply)]))
        # wishlist requests live across the loss; the server announces the interval again after the logon
        out.append(_base(request_timeout=8, wishlist=['wish-0', 'wish-1'], rounds=3, steps=[
            {'k': 'wishlist', 'at': {'abs': 0.0}}, {'k': 'relogin', 'mode': mode, 'at': {'abs': 1.0}, 'hops': 0},
            _search('net', {'abs': 2.0}),
            {'k': 'reply', 'ticket': 'ref', 'dup': 0, 'mode': 'send', 'peer': 'bob', 'ref': 'w0.0', 'hops': 0,
             'at': {'abs': 3.0}}]))
    out.append(_base(request_timeout=0, tail=600, steps=[
        _search(), {'k': 'relogin', 'mode': 'rst', 'at': {'abs': 1.0}, 'hops': 0}, _search('net', {'abs': 2.0}),
        copy.deepcopy(late_reply)]))
    out.append(_base(request_timeout=8, steps=[
        _search(), _search('user', {'abs': 0.5}), {'k': 'relogin', 'mode': 'rst', 'down': 2.0, 'at': {'abs': 1.0}, 'hops': 0},
        _search('net', {'abs': 2.0}), _search('room', {'abs': 4.0}), _search('net', {'abs': 5.0}),
        dict(copy.deepcopy(late_reply), at={'abs': 6.0})]))
    out.append(_base(request_timeout=8, steps=[
        _search(), {'k': 'relogin', 'mode': 'rst', 'at': {'abs': 1.0}, 'hops': 0},
        {'k': 'relogin', 'mode': 'eof', 'at': {'abs': 3.0}, 'hops': 0}, _search('net', {'abs': 4.0}),
        dict(copy.deepcopy(late_reply), at={'abs': 5.0})]))
    # the same searches through the command API (client.execute), alone and mixed with the manager's methods
    cmd = lambda typ, at: dict(_search(typ, at), api='command')     # noqa: E731
    out.append(_base(steps=[cmd('net', {'abs': 0.0}), dict(copy.deepcopy(late_reply), at={'abs': 1.0})]))
    out.append(_base(steps=[cmd('net', {'abs': 0.0}), cmd('user', {'abs': 1.0}), cmd('room', {'abs': 2.0}),
                            dict(copy.deepcopy(late_reply), at={'abs': 3.0})]))
    out.append(_base(steps=[_search(), cmd('net', {'abs': 1.0}), dict(copy.deepcopy(late_reply), at={'abs': 2.0})]))
    out.append(_base(steps=[cmd('net', {'abs': 0.0}), _search('net', {'abs': 1.0}),
                            dict(copy.deepcopy(late_reply), at={'abs': 2.0})]))
    # two application listeners of SearchRequestRemovedEvent, the first one suspends (appended last)
    for susp in ('y1', 'y3', '5ms'):
        for typ in ('net', 'room', 'user'):
            out.append(_base(rm_listeners=susp, steps=[_search(typ)]))
        out.append(_base(rm_listeners=susp, wishlist=['wish-0', 'wish-1'], rounds=2,
                         steps=[{'k': 'wishlist', 'at': {'abs': 1.0}}]))
    out.append(_base(rm_listeners='y2', steps=[_search(), _search('user', {'abs': 0.0}),
                                               dict(copy.deepcopy(late_reply), at=_anchor('s0', 'deadline', 0.0))]))
    return out


REACT_OPS = ('remove', 'cancel', 'reschedule', 'reschedule+cancel')


def _reactions(full: bool) -> list[dict]:
    """What the application does when it is told about a new request (SearchRequestSentEvent): in a sync listener,
    in an async listener after a suspension, or from another task while an async listener is suspended."""
    def rx(how, op, **kw):
        d = {'k': 'react', 'how': how, 'op': op}
        if op == 'remove':
            d['by'] = kw.pop('by', 'object')
        if op.startswith('reschedule'):
            d['tau2'] = 3
        d.update(kw)
        return d
    out = [rx('sync', 'remove'), rx('async', 'remove', who='other', suspend='y2', after=0),
           rx('async', 'cancel', who='listener', suspend='y1')]
    if full:
        out += [rx('sync', 'remove', by='ticket')] + [rx('sync', op) for op in REACT_OPS[1:]]
        for susp in ('y1', 'y3', '5ms'):
            out += [rx('async', op, who='listener', suspend=susp) for op in REACT_OPS[:3]]
        for susp, after in (('y2', 0), ('y3', 1), ('5ms', 0), ('5ms', '2ms')):
            out += [rx('async', op, who='other', suspend=susp, after=after) for op in REACT_OPS[:3]]
    return out


_SYS: Optional[list] = None


def systematic() -> list[dict]:
    global _SYS
    if _SYS is None:
        _SYS = _systematic()
    return _SYS


def gen_random(seed: int, idx: int, nsteps: int) -> dict:
    rng = random.Random(f'{seed}:{ID}:{idx}')
    sc = _base(
        request_timeout=rng.choice([0, 3, 5, 5, 8, 30]),
        wishlist_request_timeout=rng.choice([-1, -1, 0, 4, 7]),
        store_results=rng.random() < 0.8,
        interval=rng.choice([10, 20, 20, 25]),
        rounds=rng.randint(1, 3),
        srv_lat=rng.choice([0.0, 0.001, 0.003]),
    )
    use_wish = nsteps >= 2 and rng.random() < 0.4
    nitems = rng.randint(1, 3) if use_wish else rng.choice([0, 0, 1])
    sc['wishlist'] = [f'wish-{j}' for j in range(nitems)]
    steps: list[dict] = []
    labels: list[str] = []
    budget = nsteps
    grid = [0.0, 0.0, 0.5, 1.0, 2.0, 3.0, 5.0, 8.0]
    if use_wish:
        steps.append({'k': 'wishlist', 'at': {'abs': rng.choice([0.0, 1.0, 2.0, 5.0])}})
        budget -= 1
        # labels of later rounds are targeted less often (they may not exist when a round is cut short)
        for r in range(sc['rounds']):
            for j in range(nitems):
                labels.append(f'w{r}.{j}')
    nsearch = min(budget, rng.choice([1, 1, 2, 2, 3]) if not use_wish else rng.choice([0, 1, 1, 2]))
    if not use_wish:
        nsearch = max(1, nsearch)
    slabels = []
    for i in range(nsearch):
        r = rng.random()
        if labels and r < 0.2:
            at = _anchor(rng.choice(labels), 'deadline', 0.0)
        elif labels and r < 0.3:
            at = _anchor(rng.choice(labels), 'created', 0.0)
        else:
            at = {'abs': rng.choice(grid)}
        steps.append(_search(rng.choice(['net', 'net', 'room', 'user']), at, rng.choice([0, 0, 1, 2, 3])))
        slabels.append(f's{i}')
        labels.append(f's{i}')
        budget -= 1
    if budget >= 2 and slabels and rng.random() < 0.22:
        # the session is lost and regained after the first request(s) were made; at least one more search follows
        t_first = [stp['at']['abs'] for stp in steps if stp['k'] == 'search' and 'abs' in stp['at']]
        t_drop = (min(t_first) if t_first else 0.0) + rng.choice([0.5, 1.0, 1.0, 2.0])
        rl = {'k': 'relogin', 'mode': rng.choice(['rst', 'rst', 'eof', 'cut']), 'at': {'abs': t_drop}, 'hops': 0}
        if rng.random() < 0.3:
            rl['down'] = rng.choice([0.5, 2.0])
        steps.append(rl)
        i = len(slabels)
        steps.append(_search(rng.choice(['net', 'net', 'room', 'user']),
                             {'abs': t_drop + rl.get('down', 0.0) + rng.choice([0.5, 1.0, 2.0])}, rng.choice([0, 1, 2])))
        slabels.append(f's{i}')
        labels.append(f's{i}')
        budget -= 2
    if budget > 0 and labels and rng.random() < 0.3:
        budget -= 1
        how = rng.choice(['sync', 'async', 'async'])
        rx = {'k': 'react', 'ref': rng.choice(slabels) if slabels and rng.random() < 0.8 else rng.choice(labels),
              'how': how, 'op': rng.choice(REACT_OPS + ('remove', 'none'))}
        if how == 'sync' and rx['op'] == 'none':
            rx['op'] = 'remove'
        if how == 'async':
            rx['who'] = rng.choice(['listener', 'other'])
            if rx['who'] == 'other':
                rx['suspend'], rx['after'] = rng.choice([('y2', 0), ('y3', 0), ('y3', 1), ('5ms', 0), ('5ms', 1), ('5ms', '2ms')])
            else:
                rx['suspend'] = rng.choice(['y1', 'y2', 'y3', '5ms'])
        if rx['op'] == 'remove':
            rx['by'] = rng.choice(['object', 'ticket'])
        if rx['op'].startswith('reschedule'):
            rx['tau2'] = rng.choice([1, 2, 3, 6, None])
        steps.append(rx)
    while budget > 0 and labels:
        budget -= 1
        target = rng.choice(slabels) if slabels and rng.random() < 0.6 else rng.choice(labels)
        aref = target if rng.random() < 0.8 else rng.choice(labels)
        r = rng.random()
        hops = 0
        if r < 0.45:
            at = _anchor(aref, 'deadline', 0.0)
            hops = rng.choice([0, 0, 1, 2, 3, 4])
        elif r < 0.60:
            at = _anchor(aref, 'deadline', rng.choice([-2.0, -1.0, -0.5, 0.5, 1.0, 3.0]))
        elif r < 0.85:
            dt = rng.choice([0.0, 0.0, 0.5, 1.0, 2.0])
            at = _anchor(aref, 'created', dt)
            if dt == 0.0:
                hops = rng.choice([0, 1, 2, 3])
        else:
            at = {'abs': float(rng.choice([1, 2, 3, 4, 5, 6, 8, 10, 13, 20, 25, 33, 40]))}
        r = rng.random()
        if r < 0.40:
            tk = rng.choices(['ref', 'unknown', 'future'], [70, 15, 15])[0]
            st = {'k': 'reply', 'ticket': tk, 'dup': rng.choices([0, 'same', 'later'], [70, 15, 15])[0],
                  'mode': rng.choice(['send', 'send', 'arrive']), 'peer': rng.choice(['bob', 'carol'])}
            if tk == 'ref':
                st['ref'] = target
        elif r < 0.62:
            st = {'k': 'remove', 'by': rng.choice(['object', 'ticket']), 'ref': target}
        else:
            op = rng.choices(['cancel', 'reschedule', 'reschedule+cancel', 'reschedule+reschedule'], [25, 25, 30, 20])[0]
            st = {'k': 'timer', 'op': op, 'ref': target}
            if op != 'cancel':
                st['tau2'] = rng.choice([1, 2, 3, 6, None])
            if op in ('reschedule+cancel', 'reschedule+reschedule'):
                st['gap'] = rng.choice(GAPS)
            if op == 'reschedule+reschedule':
                st['tau3'] = rng.choice([1, 2, 4, 7, None])
        st['at'] = at
        st['hops'] = hops
        steps.append(st)
    if rng.random() < 0.05:
        for stp in steps:
            if stp['k'] == 'search' and rng.random() < 0.6:
                stp['api'] = 'command'
    sc['steps'] = steps
    no_timer = (sc['request_timeout'] == 0 and nsearch > 0) or (use_wish and sc['wishlist_request_timeout'] == 0)
    if no_timer:
        sc['tail'] = rng.choice([600, 7200])
    if rng.random() < 0.4:
        sc['rm_listeners'] = rng.choice(['y1', 'y2', 'y3', '5ms', '50ms'])
    return sc


def _length_for(i: int, n: int) -> int:
    return min(10, 2 + int(i / max(1, n) * 9))


def cases(tier: str, seed: int) -> list[dict]:
    out: list[dict] = []
    for i, sc in enumerate(systematic()):
        out.append({'mode': 'sys', 'sys': i, 'script': sc})
    n = N_RANDOM[tier]
    for i in range(n):
        out.append({'mode': 'rand', 'seed': seed, 'idx': i, 'len': _length_for(i, n)})
    return out


def expand(params: dict) -> dict:
    if 'script' in params:
        return copy.deepcopy(params['script'])
    return gen_random(params['seed'], params['idx'], params['len'])


# --------------------------------------------------------------------------
# one run

class _Run:

    def __init__(self, script: dict):
        self.script = script
        self.log: list[dict] = []
        self.reqs: list[dict] = []
        self.by_id: dict[int, int] = {}
        self.created_futs: dict[str, asyncio.Future] = {}
        self.label_count: dict[str, int] = {}
        self.pushed_interval: Optional[int] = None
        self.wish_sent = 0
        self.T0 = 0.0
        self.t_end = 0.0
        self.n_exc_judged = 0
        self.n_logrec_judged = 0
        self.pending: list = []
        self.reply_seq = 0
        self.replies: dict[str, dict] = {}
        self.steps_done = 0
        self.steps_skipped = 0
        self.final: dict = {}
        self.relogin_tasks: list = []
        self.relogins = 0
        self.searches_failed = 0
        self.has_relogin = any(stp['k'] == 'relogin' for stp in script['steps'])
        self.reactions: dict[str, dict] = {}
        for i, stp in enumerate(script['steps']):
            if stp['k'] == 'react' and stp['ref'] not in self.reactions:
                self.reactions[stp['ref']] = dict(stp, i=i)
        self.w = None
        self.client = None
        self.loop = None

    # -- log -------------------------------------------------------------
    def snapshot(self) -> list:
        return [(key, self.by_id.get(id(v), -1), v.ticket) for key, v in self.client.searches.requests.items()]

    def add(self, k: str, **kw) -> dict:
        e = {'n': len(self.log), 't': self.loop.time(), 'it': self.loop.iterations, 'k': k, 'reg': self.snapshot()}
        e.update(kw)
        self.log.append(e)
        return e

    def rid_of(self, obj, label: Optional[str] = None) -> int:
        rid = self.by_id.get(id(obj))
        if rid is None:
            rid = len(self.reqs)
            self.by_id[id(obj)] = rid
            self.reqs.append({'rid': rid, 'obj': obj, 'label': label or '?', 'ticket': obj.ticket,
                              'type': obj.search_type.name.lower(), 'tau': 0, 't': None, 'live_rt': False,
                              'sent': False})
        return rid

    def created(self, label: str) -> asyncio.Future:
        fut = self.created_futs.get(label)
        if fut is None:
            fut = self.created_futs[label] = self.loop.create_future()
        return fut

    # -- expected timeout (from the documented settings) -------------------
    def expected_tau(self, req) -> int:
        if req.search_type.name == 'WISHLIST':
            wrt = self.script['wishlist_request_timeout']
            if wrt >= 0:
                return wrt
            return self.pushed_interval if self.pushed_interval is not None else 600
        return max(0, self.script['request_timeout'])

    # -- listeners ---------------------------------------------------------
    def on_sent(self, ev):
        self.note_created(ev.query, 'manager')

    def note_created(self, req, via: str, label: Optional[str] = None):
        if label is not None:
            pass
        elif req.search_type.name == 'WISHLIST':
            n = self.label_count.get(req.query, 0)
            self.label_count[req.query] = n + 1
            try:
                j = self.script['wishlist'].index(req.query)
            except ValueError:
                j = 99
            label = f'w{n}.{j}'
        else:
            label = req.query[2:] if req.query.startswith('q-') else '?'
        rid = self.rid_of(req, label)
        R = self.reqs[rid]
        again = R['sent']
        tau = self.expected_tau(req)
        if via == 'command' and req.timer is None:
            tau = 0       # whether a request made through the command API gets a timeout is not stated: not demanded
        R.update(label=label, ticket=req.ticket, tau=tau, t=self.loop.time(), live_rt=True,
                 sent=True, has_timer=req.timer is not None, via=via)
        self.add('sent', rid=rid, ticket=req.ticket, again=again, via=via)
        fut = self.created(label)
        if not fut.done():
            fut.set_result(rid)
        if req.search_type.name == 'WISHLIST':
            self.wish_sent += 1
            if self.wish_sent >= self.script['rounds'] * max(1, len(self.script['wishlist'])):
                for entry in self.client.settings.searches.wishlist:
                    entry.enabled = False

    # -- the application's own listeners of SearchRequestSentEvent (registered after on_sent) ------
    def react_op(self, rx: dict, R: dict):
        op = rx['op']
        if op == 'remove':
            self.do_remove(R, rx.get('by', 'object'))
        elif op == 'cancel':
            self.timer_cancel(R)
        elif op == 'reschedule':
            self.timer_reschedule(R, rx.get('tau2'))
        elif op == 'reschedule+cancel':
            if self.timer_reschedule(R, rx.get('tau2')):
                self.timer_cancel(R)

    def _reaction_for(self, ev, how: str):
        rid = self.by_id.get(id(ev.query))
        if rid is None:
            return None, None
        R = self.reqs[rid]
        rx = self.reactions.get(R['label'])
        if rx is None or rx['how'] != how or rx.get('used'):
            return None, None
        rx['used'] = True
        return rx, R

    def app_on_sent_sync(self, ev):
        try:
            rx, R = self._reaction_for(ev, 'sync')
            if rx is None:
                return
            self.add('step', i=rx['i'], kind='react')
            self.react_op(rx, R)
            self.add('react-done', rid=R['rid'])
            self.steps_done += 1
        except Exception:     # the bus would swallow (log) it: a harness bug must surface as inconclusive
            self.w.harness_error('sync reaction', traceback.format_exc())

    async def app_on_sent_async(self, ev):
        try:
            await self._app_on_sent_async(ev)
        except Exception:
            self.w.harness_error('async reaction', traceback.format_exc())

    async def _app_on_sent_async(self, ev):
        rx, R = self._reaction_for(ev, 'async')
        if rx is None:
            return
        loop = self.loop
        self.add('step', i=rx['i'], kind='react')
        if rx.get('who') == 'other':
            # somebody else acts while this listener (and with it the emission of the event) is suspended
            fn = self.guard(lambda: self.react_op(rx, R), f"step {rx['i']} other task")
            after = rx.get('after', 0)
            if after == '2ms':
                loop.call_later(0.002, fn)
            else:
                def hop(k):
                    if k <= 0:
                        fn()
                    else:
                        loop.call_soon(hop, k - 1)
                loop.call_soon(hop, int(after))
        susp = rx.get('suspend', 'y1')
        if susp == '5ms':
            await asyncio.sleep(0.005)
        else:
            for _ in range(int(susp[1:])):
                await asyncio.sleep(0)
        if rx.get('who') != 'other':
            self.react_op(rx, R)
        self.add('react-done', rid=R['rid'])
        self.steps_done += 1

    def on_session_up(self, ev):
        self.add('session-up')

    def on_session_lost(self, ev):
        self.add('session-lost')

    def on_removed(self, ev):
        req = ev.query
        rid = self.rid_of(req)
        self.reqs[rid]['live_rt'] = False
        self.add('removed', rid=rid, ticket=req.ticket,
                 still_registered=self.client.searches.requests.get(req.ticket) is req)

    # -- the application's own listeners of SearchRequestRemovedEvent (registered after on_removed) ---------
    async def app_on_removed_first(self, ev):
        rid = self.rid_of(ev.query)
        self.add('rml', rid=rid, l=1, what='entered')
        susp = self.script.get('rm_listeners') or 'y1'
        try:
            if susp.endswith('ms'):
                await asyncio.sleep(int(susp[:-2]) / 1000.0)
            else:
                for _ in range(int(susp[1:])):
                    await asyncio.sleep(0)
        except asyncio.CancelledError:
            self.add('rml', rid=rid, l=1, what='cancelled')
            raise
        self.add('rml', rid=rid, l=1, what='finished')

    def app_on_removed_second(self, ev):
        rid = self.rid_of(ev.query)
        self.add('rml', rid=rid, l=2, what='entered')
        self.add('rml', rid=rid, l=2, what='finished')

    def on_result(self, ev):
        req = ev.query
        rid = self.rid_of(req)
        items = ev.result.shared_items
        self.add('result', rid=rid, ticket=req.ticket, result_ticket=ev.result.ticket,
                 marker=items[0].filename if items else None, username=ev.result.username,
                 stored=len(req.results))

    def on_message(self, ev):
        from aioslsk.protocol.messages import PeerSearchReply
        msg = ev.message
        if isinstance(msg, PeerSearchReply.Request):
            self.add('delivered', ticket=msg.ticket, marker=msg.results[0].filename if msg.results else None,
                     peer=msg.username)

    # -- scheduling ----------------------------------------------------------
    def guard(self, fn, where: str):
        def run(*a):
            try:
                fn(*a)
            except Exception:  # harness bug (library exceptions the script expects are caught inside fn)
                self.w.harness_error(where, traceback.format_exc())
        return run

    def at(self, when: float, hops: int, fn, where: str = 'act'):
        loop = self.loop
        fn = self.guard(fn, where)

        def hop(k):
            if k <= 0:
                fn()
            else:
                loop.call_soon(hop, k - 1)
        loop.call_at(when, hop, hops)

    async def sleep_until(self, when: float):
        fut = self.loop.create_future()
        self.loop.call_at(when, lambda: fut.done() or fut.set_result(None))
        await fut

    def after_gap(self, gap: str, fn, where: str):
        fn = self.guard(fn, where)
        if gap == 'sync':
            fn()
        elif gap == '1s':
            self.loop.call_later(1.0, fn)
        else:
            self.at(self.loop.time(), int(gap[1:]) - 1, fn, where)   # y<k>: k loop iterations later

    # -- steps -----------------------------------------------------------------
    async def run_step(self, i: int, st: dict, label: Optional[str]):
        try:
            at = st['at']
            if 'abs' in at:
                when = self.T0 + at['abs']
            else:
                rid = await self.created(at['ref'])
                R = self.reqs[rid]
                if at['edge'] == 'created':
                    when = R['t'] + at['dt']
                else:
                    when = R['t'] + (R['tau'] or PSEUDO_DEADLINE) + at['dt']
            if st.get('ref'):
                await self.created(st['ref'])
            when = max(when, self.loop.time())
            links: list = []
            send_at = when
            if st['k'] == 'reply':
                links, send_at = await self.prep_reply(st, when)
            done = self.loop.create_future()

            def fire():
                try:
                    self.act(i, st, label, links)
                finally:
                    if not done.done():
                        done.set_result(None)
            self.at(send_at, st.get('hops', 0), fire, f'step {i}')
            await done
            self.steps_done += 1
        except asyncio.CancelledError:
            raise
        except Exception:
            self.w.harness_error(f'step {i}', traceback.format_exc())

    async def prep_reply(self, st: dict, when: float):
        loop, w = self.loop, self.w
        peer = w.peers[st['peer']]
        if when - 0.5 > loop.time():
            await self.sleep_until(when - 0.5)
        n = 2 if st.get('dup') else 1
        links = []
        for _ in range(n):
            links.append(await peer.dial(self.handle.port, 'P', host=w.net.ip_of('me')))
        await asyncio.sleep(0.05)          # PeerInit handled, connection idle
        send_at = max(when, loop.time())
        if st.get('mode') == 'arrive':
            s = when - ARRIVE_LAT
            if s > loop.time() and s + ARRIVE_LAT == when:
                for link in links:
                    link.conn.plan.seg_lat = (ARRIVE_LAT, ARRIVE_LAT)
                send_at = s
        return links, send_at

    def act(self, i: int, st: dict, label: Optional[str], links: list):
        k = st['k']
        client = self.client
        self.add('step', i=i, kind=k)
        if k == 'search':
            q = f'q-{label}'
            typ = st['type']
            if st.get('api') == 'command':
                coro = self.command_search(typ, q, label)
            elif typ == 'room':
                coro = client.searches.search_room('room-1', q)
            elif typ == 'user':
                coro = client.searches.search_user('bob', q)
            else:
                coro = client.searches.search(q)
            self.pending.append(self.w.spawn('me', coro, name=f'vf-search-{label}'))
        elif k == 'relogin':
            self.relogin_tasks.append(self.w.spawn('me', self.do_relogin(i, st), name=f'vf-relogin-{i}'))
        elif k == 'wishlist':
            from aioslsk.protocol.messages import WishlistInterval
            self.pushed_interval = self.script['interval']
            sess = self.w.server.session_of('me')
            if sess is not None and sess.open and sess.logged_in:
                self.w.server.push('me', WishlistInterval.Response(self.script['interval']))
                self.add('push', interval=self.script['interval'])
            else:
                self.add('push-deferred', interval=self.script['interval'])     # announced after the next logon
        elif k == 'remove':
            R = self.reqs[self.created(st['ref']).result()]
            self.do_remove(R, st['by'])
        elif k == 'timer':
            R = self.reqs[self.created(st['ref']).result()]
            op = st['op']
            if op == 'cancel':
                self.timer_cancel(R)
            elif op == 'reschedule':
                self.timer_reschedule(R, st.get('tau2'))
            elif op == 'reschedule+cancel':
                if self.timer_reschedule(R, st.get('tau2')):
                    self.after_gap(st['gap'], lambda: self.timer_cancel(R), f'step {i} second op')
            elif op == 'reschedule+reschedule':
                if self.timer_reschedule(R, st.get('tau2')):
                    self.after_gap(st['gap'], lambda: self.timer_reschedule(R, st.get('tau3')), f'step {i} second op')
        elif k == 'reply':
            self.do_reply(i, st, links)

    async def command_search(self, typ: str, q: str, label: str):
        """The same searches through the command API (client.execute): no SearchRequestSentEvent is emitted for
        them, so the harness records the creation itself right after the command returned (same synchronous
        stretch as the command's own registration)."""
        from aioslsk.commands import GlobalSearchCommand, RoomSearchCommand, UserSearchCommand
        if typ == 'room':
            cmd = RoomSearchCommand('room-1', q)
        elif typ == 'user':
            cmd = UserSearchCommand('bob', q)
        else:
            cmd = GlobalSearchCommand(q)
        await self.client.execute(cmd)
        req = next((v for v in self.client.searches.requests.values() if v.query == q), None)
        if req is None:
            self.add('command-without-request', label=label)
        elif id(req) not in self.by_id:
            self.note_created(req, 'command', label)
        return req

    async def do_relogin(self, i: int, st: dict):
        """The server link is lost (server-side RST / FIN / both directions reset) and the application logs in
        again (connect_server + login, as the library's own reconnect does; reconnect.auto is off)."""
        try:
            w, client = self.w, self.client
            sess = w.server.session_of('me')
            if sess is None or not sess.open or client.session is None:
                self.add('relogin-skip')
                return
            mode = st.get('mode', 'rst')
            self.add('server-drop', mode=mode)
            if mode == 'cut':
                w.net.cut_now(sess.writer.transport.conn, 'rst')
            else:
                sess.close(mode)
            for _ in range(600):
                if client.session is None and client.network.server_connection.state.name == 'CLOSED':
                    break
                await asyncio.sleep(0.005)
            else:
                w.harness_error(f'step {i}', 'the client did not notice the lost server connection within 3 s')
                return
            if st.get('down'):
                await asyncio.sleep(float(st['down']))
            await client.network.connect_server()
            await client.login()
            self.relogins += 1
            self.add('relogged')
        except asyncio.CancelledError:
            raise
        except Exception:
            self.w.harness_error(f'step {i} relogin', traceback.format_exc())

    def do_remove(self, R: dict, by: str):
        arg = R['obj'] if by == 'object' else R['ticket']
        was = self.client.searches.requests.get(R['ticket']) is R['obj']
        try:
            self.client.searches.remove_request(arg)
            outcome = 'ok'
        except KeyError:
            outcome = 'KeyError'      # not judged for a request that is no longer registered
        if outcome == 'ok':
            R['live_rt'] = False
            for R2 in self.reqs:      # a later request re-using the ticket of an already dead one was removed instead
                if R2 is not R and R2['live_rt'] and R2['ticket'] == R['ticket'] \
                        and self.client.searches.requests.get(R2['ticket']) is not R2['obj']:
                    R2['live_rt'] = False
        self.add('manual-remove', rid=R['rid'], by=by, outcome=outcome, was_registered=was)

    def timer_cancel(self, R: dict) -> bool:
        timer = R['obj'].timer
        if not R['live_rt'] or timer is None:
            self.add('timer-skip', rid=R['rid'], op='cancel', why='no-timer' if timer is None else 'not-live')
            return False
        timer.cancel()
        self.add('timer-cancel', rid=R['rid'])
        return True

    def timer_reschedule(self, R: dict, tau) -> bool:
        timer = R['obj'].timer
        if not R['live_rt'] or timer is None:
            self.add('timer-skip', rid=R['rid'], op='reschedule', why='no-timer' if timer is None else 'not-live')
            return False
        timer.reschedule(tau)
        self.add('timer-reschedule', rid=R['rid'], tau=timer.timeout)
        return True

    def do_reply(self, i: int, st: dict, links: list):
        from aioslsk.protocol.messages import PeerSearchReply
        from aioslsk.protocol.primitives import FileData
        tk = st['ticket']
        if tk == 'ref':
            ticket = self.reqs[self.created(st['ref']).result()]['ticket']
        elif tk == 'future':
            ticket = max([R['ticket'] for R in self.reqs] + [1]) + 1
        else:
            ticket = 0x70000000 + i
        self.reply_seq += 1
        marker = f'music\\reply-{self.reply_seq}.mp3'
        msg = PeerSearchReply.Request(
            username=st['peer'], ticket=ticket, results=[FileData(1, marker, 1000 + i, 'mp3', [])],
            has_slots_free=True, avg_speed=1, queue_size=0)
        self.replies[marker] = {'step': i, 'ticket': ticket, 'kind': tk, 'sent': 0, 'dup': st.get('dup') or 0,
                                'mode': st.get('mode')}

        def send(link):
            self.replies[marker]['sent'] += 1
            self.add('reply-sent', marker=marker, ticket=ticket)
            link.send(msg)
        send(links[0])
        if st.get('dup') == 'same':
            send(links[1])
        elif st.get('dup') == 'later':
            self.loop.call_later(1.0, self.guard(lambda: send(links[1]), f'step {i} dup'))

    # -- the world ------------------------------------------------------------------
    async def main(self, w):
        from aioslsk import events as E
        from aioslsk.settings import SearchSendSettings, SearchSettings, WishlistSettingEntry
        from ..simloop import settle
        from ..simnet import ConnPlan
        sc = self.script
        self.w, self.loop = w, w.loop
        srv_lat = sc.get('srv_lat', 0.001)

        def planner(node, host, port, attempt):
            if node == 'me':
                return ConnPlan(latency=0.01, seg='random', seg_lat=(srv_lat, srv_lat))
            return ConnPlan(latency=0.01, seg='whole', seg_lat=(0.0, 0.0))
        w.net.planner = planner
        await w.start_server()

        def post_login(session):
            # like the real server: the wishlist interval is announced after every logon (once it was scripted)
            from aioslsk.protocol.messages import WishlistInterval
            return [WishlistInterval.Response(self.pushed_interval)] if self.pushed_interval is not None else []
        w.server.post_login = post_login
        settings = w.make_settings('me', searches=SearchSettings(
            send=SearchSendSettings(store_results=sc['store_results'], request_timeout=sc['request_timeout'],
                                    wishlist_request_timeout=sc['wishlist_request_timeout']),
            wishlist=[WishlistSettingEntry(query=q) for q in sc['wishlist']]))
        h = self.handle = await w.add_client('me', settings)
        self.client = h.client
        for name in ('bob', 'carol'):
            await w.add_peer(name)
        h.listen(E.SearchRequestSentEvent, self.on_sent)
        h.listen(E.SearchRequestSentEvent, self.app_on_sent_sync)      # same priority: run in registration order
        h.listen(E.SearchRequestSentEvent, self.app_on_sent_async)
        h.listen(E.SearchRequestRemovedEvent, self.on_removed)
        if sc.get('rm_listeners'):
            h.listen(E.SearchRequestRemovedEvent, self.app_on_removed_first)      # same priority: registration order
            h.listen(E.SearchRequestRemovedEvent, self.app_on_removed_second)
        h.listen(E.SessionInitializedEvent, self.on_session_up)
        h.listen(E.SessionDestroyedEvent, self.on_session_lost)
        h.listen(E.SearchResultEvent, self.on_result)
        h.listen(E.MessageReceivedEvent, self.on_message)
        h.record(E.SearchRequestSentEvent, E.SearchRequestRemovedEvent, E.SearchResultEvent)
        await settle(0.5)
        self.T0 = self.loop.time()
        tasks = []
        ns = 0
        for i, st in enumerate(sc['steps']):
            label = None
            if st['k'] == 'search':
                label = f's{ns}'
                ns += 1
            if st['k'] == 'react':
                continue          # runs inside the application's listener
            tasks.append(w.spawn('me', self.run_step(i, st, label), name=f'vf-step-{i}'))
        await self.sleep_until(self.T0 + HORIZON)
        if sc.get('tail'):
            await self.sleep_until(self.T0 + float(sc['tail']))
        await settle(0.0)
        for t in self.pending:
            if not t.done():
                w.harness_error('search call', 'search() did not return')
            elif t.exception() is not None:
                if self.has_relogin:
                    self.searches_failed += 1      # no server connection at that moment: not judged
                else:
                    w.harness_error('search call', repr(t.exception()))
        for t in self.relogin_tasks:
            if not t.done():
                w.harness_error('relogin', 'the re-login did not finish')
        gc.collect()
        await settle(0.0)
        self.add('final')
        self.t_end = self.loop.time()
        self.final = {
            R['rid']: {'stored': len(R['obj'].results),
                       'stored_tickets_ok': all(r.ticket == R['obj'].ticket for r in R['obj'].results),
                       'registered': self.client.searches.requests.get(R['ticket']) is R['obj']}
            for R in self.reqs}
        self.n_exc_judged = len(w.loop.exceptions)
        self.n_logrec_judged = len(w.log.records)
        for t in tasks:
            if not t.done():
                self.steps_skipped += 1
                t.cancel()
        await w.stop_clients()
        return {'virtual_s': round(w.now, 3), 'iterations': w.loop.iterations}


# --------------------------------------------------------------------------
# the judge: a fold over the log

def _stale_kind(ticket: int, st: dict, reqs: list, upto_n: int, sent_n: dict) -> str:
    cands = [R for R in reqs if R['ticket'] == ticket and R['rid'] in sent_n]
    before = [R for R in cands if sent_n[R['rid']] < upto_n]
    if not before:
        return 'future-ticket' if cands else 'unknown-ticket'
    how = st[before[-1]['rid']]['removed_by']
    return {'manual': 'removed', None: 'live'}.get(how, 'expired')


def judge(run: _Run, out, res: dict) -> dict:
    from ..monitors import _site, safety_net_violations
    from ..simloop import T0 as LOOP_T0
    sc, log, reqs = run.script, run.log, run.reqs
    V: list[tuple[str, dict]] = []
    obs = {'requests_created': 0, 'results_judged': 0, 'removals_judged': 0, 'same_instant_races': 0, 'timer_ops': 0,
           'wishlist_rounds': 0, 'timeout0_judged': 0, 'replies_delivered': 0, 'replies_undelivered': 0,
           'registry_checks': 0, 'result_events': 0, 'manual_removals': 0, 'removal_keyerror_not_judged': 0,
           'timer_ops_skipped': 0, 'steps_done': run.steps_done, 'steps_skipped': run.steps_skipped,
           'timer_rules_judged': 0, 'errors_attributed': 0, 'followup_not_reported': 0, 'sent_reactions': 0,
           'relogins': run.relogins, 'searches_failed_not_judged': run.searches_failed, 'requests_live_across_relogin': 0,
           'requests_created_after_relogin': 0, 'command_api_requests': 0, 'removed_through_reused_ticket': 0,
           'removals_with_suspending_listeners': 0}
    st = {R['rid']: {'armed': [], 'removed_by': None, 't_dead': None, 'removals': [], 'results': 0, 'touched': False,
                     'tainted': False, 'ops': []} for R in reqs}
    live: set[int] = set()
    sent_n: dict[int, int] = {}
    deliveries: dict[str, list] = {}
    results_by_marker: dict[str, list] = {}
    reg_reported: set = set()
    race_orders: list[str] = []
    mixed_collision: list[int] = []
    relogged_n: list[int] = []
    rml: dict[int, dict] = {}

    def T(t):
        return round(t - run.T0, 6)

    def current(rid):
        for a in st[rid]['armed']:
            if a['end'] is None:
                return a
        return None

    def hi(a):
        # the statement does not say whether the timeout counts from the moment the request is announced or
        # from the moment the announcement has been delivered (a listener may take time): both are accepted
        return a.get('hi', a['d'])

    def hit(a, t, tol=TOL):
        return a['d'] - tol <= t <= hi(a) + tol

    REARMED = 'timer:fired-at-superseded-deadline:rearmed-twice'

    def compound(rid) -> bool:
        # >= 2 reschedules in the timer's history: which of the superseded arms fired cannot be told from
        # the outside (Timer.runner reads ``timeout`` when the task first runs), so every firing other than
        # the legitimate one gets the one signature of that history class
        return st[rid]['ops'].count('reschedule') >= 2

    def timer_sig(a) -> str:
        if a['end'] == 'cancel':
            return 'timer:fired-after-cancel' if a['by'] == 'start' else 'timer:cancel-after-reschedule-ineffective'
        if a['end'] == 'rearm':
            return 'timer:fired-at-superseded-deadline' + (':rearmed-twice' if a['by'] == 'reschedule' else '')
        return 'timer:fired-twice'

    def brief(R):
        return {'label': R['label'], 'ticket': R['ticket'], 'type': R['type'], 'timeout': R['tau'],
                'created': None if R['t'] is None else T(R['t']),
                'armed': [{'deadline': T(a['d']), 'by': a['by'], 'end': a['end']} for a in st[R['rid']]['armed']],
                'removed_by': st[R['rid']]['removed_by']}

    for e in log:
        k = e['k']
        rid = e.get('rid')
        if k == 'sent':
            R = reqs[rid]
            if e.get('again'):
                V.append(('request-sent-twice', {'request': brief(R), 't': T(e['t'])}))
                continue
            obs['requests_created'] += 1
            sent_n[rid] = e['n']
            if e.get('via') == 'command':
                obs['command_api_requests'] += 1
            if relogged_n:
                obs['requests_created_after_relogin'] += 1
            for o in sorted(live):
                if reqs[o]['ticket'] == R['ticket']:
                    mixed = reqs[o].get('via') != R.get('via')
                    if mixed:
                        mixed_collision.append(len(V))
                    V.append(('duplicate-live-ticket' + (':mixed-apis' if mixed else ''),
                              {'t': T(e['t']), 'new': dict(brief(R), api=R.get('via')),
                               'live': dict(brief(reqs[o]), api=reqs[o].get('via')),
                               'sessions_since_live_one': len([x for x in log[sent_n[o]:e['n']] if x['k'] == 'session-up'])}))
            live.add(rid)
            if R['tau'] > 0:
                st[rid]['armed'].append({'d': e['t'] + R['tau'], 'by': 'start', 'end': None, 'n': e['n']})
        elif k == 'removed':
            R, S = reqs[rid], st[rid]
            S['removals'].append(e['t'])
            fired = None
            if rid not in sent_n:
                V.append(('removal-for-unknown-request', {'t': T(e['t']), 'ticket': e['ticket']}))
            elif S['removed_by'] == 'manual':
                V.append(('removed-request:event-after-removal', {'t': T(e['t']), 'event': 'SearchRequestRemovedEvent',
                                                                 'request': brief(R)}))
            elif S['removed_by'] is not None:
                pass     # second removal event: counted at the end (removal-count:2)
            elif R['tau'] == 0 and not S['armed']:
                V.append(('removal-for-timeout-0', {'t': T(e['t']), 'request': brief(R)}))
            else:
                cur = current(rid)
                match = [a for a in S['armed'] if hit(a, e['t'])]
                if cur is not None and hit(cur, e['t']):
                    fired = cur
                    if S['touched']:
                        obs['timer_rules_judged'] += 1
                elif match:
                    a = match[-1]
                    obs['timer_rules_judged'] += 1
                    V.append((REARMED if compound(rid) else timer_sig(a), {'t': T(e['t']), 'fired_deadline': T(a['d']), 'request': brief(R),
                                             'evidence': 'SearchRequestRemovedEvent at a deadline that was '
                                                         + {'cancel': 'cancelled', 'rearm': 'superseded by reschedule'}
                                             .get(a['end'], 'already used')}))
                    S['tainted'] = True
                elif compound(rid):
                    obs['timer_rules_judged'] += 1
                    V.append((REARMED, {'t': T(e['t']), 'request': brief(R),
                                        'evidence': 'removal event at an instant that is not the current deadline'}))
                    S['tainted'] = True
                elif cur is None:
                    V.append(('timer:fired-after-cancel', {'t': T(e['t']), 'request': brief(R),
                                                           'evidence': 'removal event although no deadline is armed'}))
                    S['tainted'] = True
                elif e['t'] < cur['d']:
                    V.append(('removal-early', {'t': T(e['t']), 'deadline': T(cur['d']), 'request': brief(R)}))
                    fired = cur
                else:
                    V.append(('removal-late', {'t': T(e['t']), 'deadline': T(cur['d']), 'request': brief(R)}))
                    fired = cur
            if fired is not None:
                fired['end'] = 'fired'
            if S['removed_by'] is None:
                S['removed_by'] = 'timer'
                S['t_dead'] = e['t']
            live.discard(rid)
            if e.get('still_registered'):
                V.append(('registry:removal-reported-but-still-registered', {'t': T(e['t']), 'request': brief(R)}))
        elif k == 'manual-remove':
            obs['manual_removals'] += 1
            S = st[rid]
            if e['outcome'] == 'ok':
                if rid in live:
                    live.discard(rid)
                    S['removed_by'] = 'manual'
                    S['t_dead'] = e['t']
                else:
                    # remove_request removes by ticket number: a handle of a dead request whose ticket is in use
                    # again removes the request that now holds the ticket (accepted reading, only counted)
                    for o in sorted(live):
                        if reqs[o]['ticket'] == reqs[rid]['ticket']:
                            live.discard(o)
                            st[o]['removed_by'] = 'manual'
                            st[o]['t_dead'] = e['t']
                            obs['removed_through_reused_ticket'] += 1
            else:
                obs['removal_keyerror_not_judged'] += 1
                if rid in live and e['was_registered']:
                    V.append(('manual-removal-raised-for-registered-request', {'t': T(e['t']), 'request': brief(reqs[rid])}))
        elif k == 'timer-cancel':
            obs['timer_ops'] += 1
            st[rid]['touched'] = True
            st[rid]['ops'].append('cancel')
            cur = current(rid)
            if cur is not None:
                cur['end'] = 'cancel'
                cur['n_end'] = e['n']
        elif k == 'timer-reschedule':
            obs['timer_ops'] += 1
            st[rid]['touched'] = True
            st[rid]['ops'].append('reschedule')
            cur = current(rid)
            if cur is not None:
                cur['end'] = 'rearm'
                cur['n_end'] = e['n']
            st[rid]['armed'].append({'d': e['t'] + e['tau'], 'by': 'reschedule', 'end': None, 'n': e['n']})
        elif k == 'timer-skip':
            obs['timer_ops_skipped'] += 1
        elif k == 'rml':
            c = rml.setdefault(rid, {})
            c[(e['l'], e['what'])] = c.get((e['l'], e['what']), 0) + 1
        elif k == 'relogged':
            relogged_n.append(e['n'])
            obs['requests_live_across_relogin'] += len(live)
        elif k == 'react-done':
            obs['sent_reactions'] += 1
            for a in st[rid]['armed']:
                if a['by'] == 'start' and e['t'] + reqs[rid]['tau'] > a['d']:
                    a['hi'] = e['t'] + reqs[rid]['tau']
        elif k == 'delivered':
            obs['replies_delivered'] += 1
            lv = [o for o in sorted(live) if reqs[o]['ticket'] == e['ticket']]
            deliveries.setdefault(e['marker'], []).append(
                {'n': e['n'], 't': e['t'], 'ticket': e['ticket'], 'live': lv[0] if lv else None,
                 'kind': 'live' if lv else _stale_kind(e['ticket'], st, reqs, e['n'], sent_n)})
        elif k == 'result':
            obs['result_events'] += 1
            R, S = reqs[rid], st[rid]
            S['results'] += 1
            results_by_marker.setdefault(e['marker'], []).append(e)
            if rid not in live:
                kind = {'manual': 'removed', None: 'never-registered'}.get(S['removed_by'], 'expired')
                sig = 'removed-request:event-after-removal' if kind == 'removed' else f'result-for-dead-request:{kind}'
                V.append((sig, {'t': T(e['t']), 'event': 'SearchResultEvent', 'request': brief(R),
                                'result_ticket': e['result_ticket']}))
            if e['result_ticket'] != e['ticket']:
                V.append(('ticket-mismatch', {'t': T(e['t']), 'request': brief(R), 'result_ticket': e['result_ticket']}))
            exp_stored = S['results'] if sc['store_results'] else 0
            if e['stored'] != exp_stored:
                V.append(('results-list-mismatch', {'t': T(e['t']), 'request': brief(R), 'stored': e['stored'],
                                                    'result_events': S['results'], 'store_results': sc['store_results']}))
        # R3: registry == live set, key == ticket, at every log point
        obs['registry_checks'] += 1
        reg = e['reg']
        reg_rids = {r for _, r, _ in reg}
        for key, r, tk in reg:
            if key != tk and ('key', r) not in reg_reported:
                reg_reported.add(('key', r))
                V.append(('registry:key-differs-from-ticket', {'t': T(e['t']), 'key': key, 'ticket': tk}))
        for r in sorted(live - reg_rids):
            if ('missing', r) not in reg_reported and not st[r]['tainted']:
                reg_reported.add(('missing', r))
                V.append(('registry:live-request-not-registered', {'t': T(e['t']), 'at': k, 'request': brief(reqs[r])}))
        for r in sorted(reg_rids - live):
            if ('extra', r) not in reg_reported:
                reg_reported.add(('extra', r))
                V.append(('registry:request-registered-but-not-live',
                          {'t': T(e['t']), 'at': k, 'request': brief(reqs[r]) if r >= 0 else 'unknown object'}))

    # -- R2: deliveries vs result events (matched by marker) ---------------------------
    for marker, info in run.replies.items():
        ds = deliveries.get(marker, [])
        rs = results_by_marker.get(marker, [])
        obs['replies_undelivered'] += max(0, info['sent'] - len(ds))
        obs['results_judged'] += len(ds)
        expected = [d for d in ds if d['live'] is not None]
        detail = {'reply': info, 'deliveries': [{'t': T(d['t']), 'ticket': d['ticket'], 'ticket_state': d['kind']} for d in ds],
                  'result_events': [{'t': T(r['t']), 'request': reqs[r['rid']]['label'], 'result_ticket': r['result_ticket']}
                                    for r in rs]}
        if len(rs) < len(expected):
            V.append(('result-missing-for-live-request', detail))
        elif len(rs) > len(expected):
            if not expected:
                kinds = sorted({d['kind'] for d in ds}) or ['undelivered']
                V.append((f'result-for-dead-request:{kinds[0]}', detail))
            else:
                V.append(('result-duplicated', detail))
        for r in rs:
            if r['result_ticket'] != info['ticket']:
                V.append(('ticket-mismatch:result-vs-reply', detail))
            elif expected and r['rid'] not in {d['live'] for d in expected}:
                V.append(('ticket-mismatch:result-attached-to-other-request', detail))
        # race labels: delivery at the instant of a removal / creation of its ticket's request
        for d in ds:
            for R in reqs:
                if R['ticket'] != d['ticket'] or R['rid'] not in sent_n:
                    continue
                S = st[R['rid']]
                if S['t_dead'] is not None and abs(S['t_dead'] - d['t']) <= SAME:
                    how = 'expiry' if S['removed_by'] == 'timer' else 'removal'
                    race_orders.append(f'reply<{how}' if d['live'] is not None else f'{how}<reply')
                if abs(R['t'] - d['t']) <= SAME:
                    race_orders.append('creation<reply' if sent_n[R['rid']] < d['n'] else 'reply<creation')
    for marker in results_by_marker:
        if marker not in run.replies:
            V.append(('result-for-dead-request:not-a-scripted-reply', {'marker': marker}))

    # -- errors: attribute to a request where the mechanism is visible --------------------
    attributed: set[int] = set()
    generic: list[tuple[str, dict]] = []
    for n, ex in enumerate(out.loop_exceptions):
        t_abs = ex['t'] + LOOP_T0
        phase = '' if n < run.n_exc_judged else 'at-shutdown:'
        m = re.match(r'KeyError\((\d+)\)', ex.get('exception') or '')
        sig = None
        if ex.get('exc_type') == 'KeyError' and m and not phase:
            ticket = int(m.group(1))
            best = None
            same_ticket = [R for R in reqs if R['ticket'] == ticket and R['rid'] in sent_n]
            for R in (same_ticket if len(same_ticket) == 1 else []):   # ambiguous ticket: not attributed
                S = st[R['rid']]
                if R['ticket'] != ticket or S['removed_by'] is None or S['t_dead'] > t_abs + 2 * TOL:
                    continue
                for a in S['armed']:
                    if hit(a, t_abs, 2 * TOL) and a['end'] != 'fired':
                        best = (R, S, a)
                if best is None and S['removed_by'] == 'manual':
                    # reported late (GC): any armed, never cancelled deadline that has passed
                    for a in S['armed']:
                        if a['end'] is None and a['d'] <= t_abs + 2 * TOL:
                            best = (R, S, a)
            if best is None and len(same_ticket) == 1:
                R = same_ticket[0]
                S = st[R['rid']]
                if S['removed_by'] is not None and S['t_dead'] <= t_abs + 2 * TOL and compound(R['rid']):
                    obs['errors_attributed'] += 1
                    obs['timer_rules_judged'] += 1
                    sig = REARMED
                    V.append((sig, {'t': T(t_abs), 'request': brief(R), 'loop_exception': ex,
                                    'evidence': 'KeyError from a timer task of this request at an instant that is no '
                                                'armed deadline (or whose deadline already fired)'}))
            if best is not None:
                R, S, a = best
                obs['errors_attributed'] += 1
                detail = {'t': T(t_abs), 'request': brief(R), 'fired_deadline': T(a['d']), 'loop_exception': ex}
                if a['end'] in ('cancel', 'rearm'):
                    sig = REARMED if compound(R['rid']) else timer_sig(a)
                    obs['timer_rules_judged'] += 1
                    detail['evidence'] = 'KeyError from the timer task at a deadline that was ' + \
                        ('cancelled' if a['end'] == 'cancel' else 'superseded by reschedule')
                elif S['removed_by'] == 'manual':
                    sig = 'removed-request:timer-still-fires'
                    detail['evidence'] = 'KeyError from the timer task at the deadline of a request removed by the user'
                elif S['tainted']:
                    sig = ''       # consequence of a timer violation already reported for this request
                    obs['followup_not_reported'] += 1
                else:
                    sig = 'timer:fired-twice'
                a['end'] = 'fired'
                if sig:
                    V.append((sig, detail))
        if sig is None:
            generic.append((f"safety:{phase}loop-exception:{ex.get('exc_type') or 'none'}:{_site(ex.get('message') or '')}", ex))
        else:
            attributed.add(n)
    for n, r in enumerate(out.log_records):
        if r['level'] == 'ERROR' and r['exc_type']:
            if r['msg'].startswith('unhandled exception on loop'):
                continue     # the client's loop handler logging what loop_exceptions already holds
            phase = '' if n < run.n_logrec_judged else 'at-shutdown:'
            generic.append((f"safety:{phase}error-log:{r['exc_type']}:{_site(r['msg'])}",
                            {k2: r[k2] for k2 in ('t', 'logger', 'msg', 'exc', 'tb')}))
    V.extend(generic)
    # cross-check with the shared safety net: nothing it sees may be missing above
    n_shared = len([s for s, d in safety_net_violations(out)
                    if not (s.startswith('error-log:') and str(d.get('msg', '')).startswith('unhandled exception on loop'))])
    if n_shared != len(generic) + len(attributed):
        V.append(('safety:accounting-mismatch', {'shared': n_shared, 'generic': len(generic), 'attributed': len(attributed)}))

    # -- final: R4 counts, cancelled timers, stored results ----------------------------------
    t_end = run.t_end
    rounds = set()
    for R in reqs:
        rid, S = R['rid'], st[R['rid']]
        if rid not in sent_n:
            continue
        if R['type'] == 'wishlist':
            rounds.add(round(R['t'], 9))
        fin = run.final.get(rid, {})
        nrem = len(S['removals'])
        cur = current(rid)
        if S['removed_by'] == 'manual':
            if nrem and not any(s == 'removed-request:event-after-removal' for s, _ in V):
                V.append(('removed-request:event-after-removal', {'request': brief(R)}))
            # R5 at the original deadline: errors are attributed above; here only count that we looked
            if any(a['d'] + TOL < t_end for a in S['armed']):
                obs['removals_judged'] += 1
        elif R['tau'] == 0 and not S['armed']:
            if t_end - R['t'] >= 60.0:
                obs['timeout0_judged'] += 1
            if rid in live and not fin.get('registered'):
                V.append(('registry:live-request-not-registered', {'at': 'final', 'request': brief(R)}))
        else:
            passed = cur is not None and hi(cur) + TOL < t_end
            if passed or S['removed_by'] == 'timer':
                obs['removals_judged'] += 1
            if S['touched']:
                obs['timer_rules_judged'] += 1
            if passed and nrem == 0 and not S['tainted']:
                V.append((f"removal-count:0:{R['type']}", {'request': brief(R), 'deadline': T(cur['d']),
                                                           'observed_until': T(t_end)}))
            elif nrem > 1:
                V.append((f"removal-count:{nrem}:{R['type']}", {'request': brief(R), 'removal_times': [T(x) for x in S['removals']]}))
            if cur is None and S['removed_by'] is None:
                # cancelled: must still be registered, no removal event (events were judged in the fold)
                if not fin.get('registered') and not S['tainted']:
                    V.append(('timer:fired-after-cancel', {'request': brief(R), 'evidence': 'cancelled request no longer registered at the end'}))
            if S['removed_by'] == 'timer' and fin.get('registered'):
                V.append(('registry:removal-reported-but-still-registered', {'at': 'final', 'request': brief(R)}))
        exp_stored = S['results'] if sc['store_results'] else 0
        if fin and (fin['stored'] != exp_stored or not fin['stored_tickets_ok']):
            V.append(('results-list-mismatch', {'request': brief(R), 'stored': fin['stored'], 'result_events': S['results'],
                                                'stored_tickets_ok': fin['stored_tickets_ok']}))
    obs['wishlist_rounds'] = len(rounds)

    # -- every listener of the removal event is entered once per removal and runs to completion ---------------
    if sc.get('rm_listeners'):
        for R in reqs:
            nrem = len(st[R['rid']]['removals'])
            if not nrem:
                continue
            obs['removals_with_suspending_listeners'] += nrem
            c = rml.get(R['rid'], {})
            counts = {f'{l}:{w}': c.get((l, w), 0) for l in (1, 2) for w in ('entered', 'finished', 'cancelled')}
            path = 'timeout'       # the only path on which the library reports a removal
            detail = {'request': brief(R), 'removal_events': nrem, 'first_listener_suspends': sc['rm_listeners'],
                      'listener_counts': counts}
            if c.get((1, 'cancelled'), 0) or c.get((1, 'finished'), 0) < c.get((1, 'entered'), 0):
                V.append((f'removal-listener-aborted:{path}', detail))
            if c.get((1, 'entered'), 0) < nrem or c.get((2, 'entered'), 0) < nrem:
                V.append((f'removal-listener-skipped:{path}', detail))
            elif c.get((1, 'entered'), 0) > nrem or c.get((2, 'entered'), 0) > nrem:
                V.append((f'removal-listener-entered-twice:{path}', detail))

    # -- same-instant races: a step (or delivery) at the virtual instant of an armed deadline ---------
    tokens = []
    raced_steps: set = set()
    step_entries = [e for e in log if e['k'] == 'step']
    all_armed = [(a, R['rid']) for R in reqs for a in st[R['rid']]['armed']]
    for e in step_entries:
        stp = sc['steps'][e['i']]
        rel = ''
        for a, rid in all_armed:
            if abs(a['d'] - e['t']) <= SAME and a['n'] < e['n']:
                fired_n = [x['n'] for x in log if x['k'] == 'removed' and x.get('rid') == rid and abs(x['t'] - e['t']) <= SAME]
                rel = 'before-expiry' if (fired_n and fired_n[0] > e['n']) else ('after-expiry' if fired_n else 'no-expiry')
                break
        if rel:
            obs['same_instant_races'] += 1
            raced_steps.add(e['i'])
            race_orders.append(f"{stp['k']}:{rel}")
        at = stp.get('at')
        if at is None:
            anchor = 'sent-event'
        else:
            anchor = 'abs' if 'abs' in at else f"{at['edge']}{'+0' if at['dt'] == 0 else ('+' if at['dt'] > 0 else '-')}"
        sub = stp.get('type') or stp.get('op') or stp.get('by') or ''
        if stp['k'] == 'relogin':
            sub = f"{stp.get('mode')}/{stp.get('down', 0)}"
        if stp['k'] == 'search' and stp.get('api') == 'command':
            sub += '/command'
        if stp['k'] == 'react':
            sub = f"{stp['how']}/{stp.get('who', '')}/{stp.get('suspend', '')}/{stp.get('after', '')}/{stp['op']}"
        if stp['k'] == 'reply':
            sub = f"{stp['ticket']}/{stp.get('dup') or 1}/{stp.get('mode')}"
        if stp['k'] == 'timer' and stp.get('gap'):
            sub += '/' + stp['gap']
        tokens.append(f"{stp['k']}:{sub}@{anchor}{'=' + rel if rel else ''}")
    for marker, ds in deliveries.items():
        for d in ds:
            if run.replies.get(marker, {}).get('step') in raced_steps:
                continue       # already counted through its step
            if any(abs(a['d'] - d['t']) <= SAME and a['n'] < d['n'] for a, _ in all_armed):
                obs['same_instant_races'] += 1
                race_orders.append('reply-arrives-at-deadline')

    if mixed_collision:
        # two requests made through different APIs share a ticket: the registry is corrupt from here on, everything
        # else this case shows is a consequence; only the collision itself is reported
        keep = [V[n] for n in mixed_collision]
        obs['followup_not_reported'] += len(V) - len(keep)
        V = keep
    decisive = obs['results_judged'] + obs['removals_judged'] + obs['timer_rules_judged'] + obs['timeout0_judged']
    return {'violations': V, 'obs': obs, 'tokens': tokens, 'race_orders': race_orders, 'decisive': decisive,
            'requests': [brief(R) for R in reqs]}


def _trace(run: _Run, limit: int = 70, loop_exceptions=()) -> list:
    from ..simloop import T0 as LOOP_T0
    out = []
    for e in run.log:
        d = {'t': round(e['t'] - run.T0, 6), 'it': e['it'], 'k': e['k'], 'registered': [tk for _, _, tk in e['reg']]}
        for k in ('rid', 'ticket', 'i', 'kind', 'by', 'outcome', 'tau', 'marker', 'result_ticket', 'op', 'why',
                  'interval', 'stored', 'via', 'mode', 'label', 'l', 'what'):
            if k in e:
                d[k] = e[k]
        if 'rid' in d:
            d['request'] = run.reqs[d.pop('rid')]['label']
        out.append(d)
    for ex in loop_exceptions:
        out.append({'t': round(ex['t'] + LOOP_T0 - run.T0, 6), 'k': 'loop-exception', 'message': ex.get('message'),
                    'exception': ex.get('exception')})
    out.sort(key=lambda d: d['t'])      # stable: log order is kept within one instant
    return out[:limit]


def run_case(params: dict) -> dict:
    from ..world import run_world
    res = runner.new_result(params.get('case', 0))
    script = expand(params)
    if not 1 <= len(script['steps']) <= 10:
        res['inconclusive'] = f"script length {len(script['steps'])} outside 1..10"
        return res
    run = _Run(script)
    key = params.get('idx', params.get('sys', 'x'))
    out = run_world(f"{ID}:{params.get('seed', 0)}:{params.get('mode', 'script')}:{key}", run.main, wall_timeout=120)
    if out.inconclusive:
        res['inconclusive'] = out.inconclusive
        return res
    j = judge(run, out, res)
    trace = _trace(run, loop_exceptions=out.loop_exceptions)
    for sig, detail in j['violations']:
        runner.violation(res, sig, witness={'script': script, 'detail': detail, 'requests': j['requests']}, trace=trace)
    for k, v in j['obs'].items():
        runner.add_obs(res, k, v)
    runner.add_obs(res, 'sequences')
    if params.get('mode') == 'sys':
        runner.add_obs(res, 'systematic_sequences')
    for ro in j['race_orders']:
        runner.add_cover(res, 'same_instant_orders', ro)
    for stp in script['steps']:
        runner.add_cover(res, 'step_kinds', stp['k'] + ':' + str(stp.get('op') or stp.get('type') or stp.get('ticket') or stp.get('by') or stp.get('mode') or '')
                         + ('/command' if stp.get('api') == 'command' else ''))
    runner.add_cover(res, 'request_timeouts', script['request_timeout'])
    runner.add_cover(res, 'removal_listeners', script.get('rm_listeners') or 'none')
    if script['wishlist'] and any(s['k'] == 'wishlist' for s in script['steps']):
        runner.add_cover(res, 'wishlist_timeouts', script['wishlist_request_timeout'])
    if j['decisive']:
        rt = script['request_timeout']
        cls = f"rt{'0' if rt == 0 else ('30' if rt >= 30 else 's')}/w{script['wishlist_request_timeout']}/n{len(script['wishlist'])}"
        if script.get('rm_listeners'):
            cls += '/rl-' + script['rm_listeners']
        res['csigs'].append(cls + '|' + '>'.join(j['tokens']))
    res['sample'] = {'params': {k: v for k, v in params.items() if k != 'script'}, 'script': script,
                     'requests': j['requests'], 'trace': trace[:40], 'world': out.result}
    return res
