"""C06 — after abort/pause/remove returns, nothing more happens for that transfer (DESIGN §4 C06)."""
from __future__ import annotations

import asyncio
import os
import random

from aioslsk.protocol import obfuscation

from .. import runner
from ..monitors import TransferMonitor, safety_net_violations
from ..simloop import settle, yields
from ..simnet import ConnPlan
from ..uploads import Downloader, Uploader, make_share, remote_paths
from ..world import World, run_world

ID = 'C06'
LEVEL = 'exploration'
QUICK_SCALE = 3      # the quick tier was enlarged by this factor after MIN_OBS['quick'] was measured
RULE = ("One real client with 1-3 transfers per scripted peer (downloads from scripted uploaders, uploads to scripted "
        "downloaders); the client's connects to a peer are fast / slow (5 s) / hanging / refused and the indirect "
        "path succeeds late / never; extra management cycles are forced by unrelated transfers and server status "
        "pushes; for downloads the peer may offer the file on a connection of its own (PeerTransferRequest) while the "
        "client's remote-queue attempt still hangs; abort, pause or remove is issued inline at a seeded virtual "
        "instant (+0..3 zero-time yields), or right behind the management-cycle REQUEST that will start a negotiation "
        "for the transfer (the call runs between the creation of the negotiation task and that task's first step), "
        "or at the next cycle end, or right behind the arrival of the peer's offer - covering every stage of the "
        "negotiation. After the call has returned, for 300 virtual seconds: every frame the client "
        "WRITES on a peer connection is decoded from the tap; a frame naming the file (PeerTransferQueue, "
        "PeerTransferRequest, PeerTransferReply for its ticket, PeerPlaceInQueueRequest, PeerUploadFailed) is a "
        "violation, so is a connect attempt, GetPeerAddress/ConnectToPeer or a write on a file connection for a peer "
        "with no other transfer, so is any change of the transfer's fields between return and the end of the window. At every "
        "management-cycle end and every tap event the live tasks named queue-remotely-* / initialize-* are walked: a "
        "task whose transfer does not reference it (orphan) or two of one kind for a transfer are violations. "
        "Non-trivial: the call returned while the transfer had a negotiation in flight or frames had been exchanged; "
        "distinct = (direction, op, stage at the call, connect behaviour, forced-cycle pattern).")
ASSUMPTIONS = [
    "'at most one negotiation per transfer' is judged per kind (one remote-queue attempt, one initialisation): a peer "
    "may legitimately answer a queue message before the send call has returned",
    "the scripted peers never re-queue or re-offer the file after the call (a legitimate re-queue would end the window)",
    "frames already written before the call returned may still be in flight and are not counted (tap time = write time)",
]
MIN_OBS = {'quick': {'ops_judged': 150, 'frames_decoded': 700, 'orphan_scans': 3000, 'field_freeze_checks': 150},
           'thorough': {'ops_judged': 8000, 'frames_decoded': 40000, 'orphan_scans': 150000, 'field_freeze_checks': 8000}}
SHARD_TIMEOUT = {'quick': 900, 'thorough': 7200}

FIELDS = ['local_path', 'abort_reason', 'fail_reason', 'start_time', 'complete_time', 'remotely_queued',
          'bytes_transfered', 'filesize', 'place_in_queue', 'queue_attempts', 'upload_request_attempts']


def cases(tier: str, seed: int) -> list[dict]:
    n = 1500 if tier == 'quick' else 100000
    out = [{'seed': seed, 'n': i} for i in range(n)]
    # directed: an upload whose downloader vanishes in mid-transfer after dropping its peer connection; the client
    # wants to tell the peer (PeerUploadFailed) and has to reach it first; the call lands during that attempt
    k = 0
    for op_ in ('remove', 'abort', 'pause'):
        for direct_ in ('slow', 'hang', 'refused'):
            for t_ in (2.5, 4.0, 6.0, 11.0):
                out.append({'seed': seed, 'n': n + k, 'force': {
                    'direction': 'upload', 'op': op_, 'direct': direct_, 'indirect': 'late', 'n_transfers': 1, 't_op': t_,
                    'op_sync': 'instant', 'read': 'vanish', 'drops_link': False, 'hold': 0.0,
                    'degrade_after_start': True}})
                k += 1
    return out


def run_case(params: dict) -> dict:
    res = runner.new_result(params['case'])
    seed = params['seed']
    rng = random.Random(f"{seed}:C06:{params['n']}")
    direction = rng.choice(['download', 'download', 'upload'])
    op = rng.choice(['abort', 'abort', 'pause', 'remove'])
    direct = rng.choice(['fast', 'fast', 'slow', 'hang', 'refused'])
    indirect = rng.choice(['late', 'never', 'never'])
    n_transfers = rng.randint(1, 3)
    t_op = rng.choice([0.0, 0.01, 0.03, 0.06, 0.1, 0.2, 0.5, 1.0, 2.0, 5.0, 5.2, 9.9, 10.1, 15.0, 30.5, 61.0, 70.0])
    k_yields = rng.randint(0, 3)
    victim_idx = rng.randrange(n_transfers)
    forced = [rng.choice([0.0, 0.04, 0.09, 0.3, 4.9, 5.05, 9.95, 10.05, 12.0]) for _ in range(rng.randint(0, 4))]
    # when exactly the call is made: at the instant itself, or at the next management-cycle REQUEST after it (the
    # caller is then woken in the same loop iteration as the management task, right behind it: the call lands
    # between the creation of a negotiation task and that task's first step), or at the next cycle END after it
    op_sync = rng.choice(['instant', 'instant', 'cycle-request', 'cycle-request', 'cycle-end'])
    # downloads: the peer offers the file on a connection of its own (PeerTransferRequest) at this instant,
    # whatever became of our queue message - both negotiations can then be in flight at once
    offer_at = rng.choice([None, None, 0.02, 0.3, 2.0, 6.0]) if direction == 'download' else None
    # cycle-request, armed before the transfers even exist: the call then lands right behind the very cycle that
    # creates the first negotiation task for the victim
    early_arm = op_sync == 'cycle-request' and rng.random() < 0.6
    if offer_at is not None and rng.random() < 0.5:
        # the call is made right behind the arrival of the peer's offer (k loop steps later)
        op_sync, early_arm = 'offer', False
    erng = random.Random(f"{seed}:C06:exec:{params['n']}")
    # thread-pool latency (exists / remove of the local file run in the executor): abort and remove then take
    # virtual time, and a peer message can be handled while they are in progress
    exec_delay = erng.choice([0.0, 0.0, 0.01])
    if offer_at is not None and op_sync == 'offer' and erng.random() < 0.5:
        # the call starts when the peer WRITES its offer: the offer arrives while the call is in progress
        op_sync = 'offer-written'
    # downloads: the peer refuses the queue request (PeerTransferQueueFailed) some time BEFORE the user call, possibly
    # while the client's remote-queue attempt is still in flight (FAILED with a negotiation running).  A refusal
    # that reaches the client once the call has started is a new input from the peer and outside the quantifier
    # (PAUSED -> FAILED on a peer's refusal is an edge of the documented graph): such runs are not judged.
    xrng = random.Random(f"{seed}:C06:qf:{params['n']}")
    qf_at = xrng.choice([None, None, None, 0.05, 0.5, 2.0, 5.5]) if direction == 'download' and offer_at is None else None
    if qf_at is not None:
        t_op, op_sync, early_arm = max(t_op, qf_at + xrng.choice([0.05, 0.3, 3.0])), 'instant', False
    force = params.get('force') or {}
    direction = force.get('direction', direction)
    op = force.get('op', op)
    direct = force.get('direct', direct)
    indirect = force.get('indirect', indirect)
    n_transfers = force.get('n_transfers', n_transfers)
    t_op = force.get('t_op', t_op)
    if 'op_sync' in force:
        op_sync, early_arm, offer_at, qf_at = force['op_sync'], False, None, None
        victim_idx = 0
    tm = TransferMonitor()
    viol: list = []
    obs = {'ops_judged': 0, 'frames_decoded': 0, 'orphan_scans': 0, 'field_freeze_checks': 0, 'ops_refused': 0,
           'stage_in_flight': 0}
    trace: list = []

    async def main(w: World):
        from aioslsk.exceptions import InvalidStateTransition
        from aioslsk.network.network import PeerConnectMode
        from aioslsk.protocol.messages import (
            ConnectToPeer, GetPeerAddress, GetUserStatus, PeerMessage, PeerPlaceInQueueRequest, PeerTransferQueue,
            PeerTransferReply, PeerTransferRequest, PeerUploadFailed)
        await w.start_server()
        share, shared_files = make_share(w, 4, rng, size_range=(20000, 60000))
        me = await w.add_client('me', w.make_settings('me', shared=[share]), scan=True)
        me.client.settings.network.peer.connect_mode = rng.choice([PeerConnectMode.RACE, PeerConnectMode.FALLBACK])
        mgr = me.client.transfers
        peer = await w.add_peer('bob')
        other = await w.add_peer('carol')
        bob_ports = {peer.port, peer.obf_port}
        rp = remote_paths(me.client)
        peer_files = {f'@@peer\\music\\song{k}.mp3': random.Random(f'{seed}:{k}').randbytes(rng.randint(20000, 60000))
                      for k in range(3)}
        upl = Uploader(w, peer, 'me', me.port, rng, peer_files)
        upl.chunk_gap = rng.choice([0.02, 0.2])
        other_upl = Uploader(w, other, 'me', me.port, rng, {'@@carol\\x.mp3': bytes(30000)})
        dl = Downloader(w, peer, 'me', me.port, rng)
        dl.default.update(hold=rng.choice([0.0, 2.0]), reply_lat=rng.choice([0.0, 0.5]))
        # uploads: the downloader may vanish in mid-transfer (the upload fails and the client wants to tell the peer) and
        # may have dropped its peer connection after queueing (the client has to reach it first: slow / hanging / refused)
        dl.default['read'] = erng.choice(['all', 'all', 'vanish'])
        drops_link = direction == 'upload' and erng.random() < 0.5
        if force:
            dl.default['read'] = force.get('read', dl.default['read'])
            drops_link = force.get('drops_link', drops_link)
            dl.default['hold'] = force.get('hold', dl.default['hold'])
        if direction == 'download':
            peer.on_frame = upl._on_frame
            peer.on_link = None
        else:
            peer.on_frame = dl._on_frame
            peer.on_link = dl._on_link

        def planner(node, host, port, attempt):
            plan = ConnPlan(latency=rng.uniform(0.001, 0.03))
            if node == 'bob' and qf_state.get('dialing'):
                return ConnPlan(latency=0.004, seg='whole', seg_lat=(0.006, 0.006))
            if node == 'me' and port in bob_ports and (not force.get('degrade_after_start') or qf_state.get('degraded')):
                if direct == 'slow':
                    plan.latency = rng.uniform(4.0, 9.0)
                elif direct == 'hang':
                    plan.connect = 'hang'
                elif direct == 'refused':
                    plan.connect = 'refuse'
            return plan
        w.net.planner = planner

        qf_state: dict = {}

        async def on_ctp(msg):
            if indirect == 'late':
                await asyncio.sleep(rng.uniform(15.0, 40.0))
                w.pending_pierce[('bob', msg.ticket)] = (msg.typ, msg.username)
                await peer.pierce(msg)
        peer.on_connect_to_peer = on_ctp

        # -- tap: frames the client writes on peer connections -------------------------------
        written: list = []       # (t, conn_id, dst, msg)
        obf_ports = {peer.obf_port, other.obf_port, me.obf_port}
        first_write: set = set()

        server_written: list = []      # (t_write, msg) frames the client wrote on the server connection
        file_writes: list = []         # (t_write, conn_id, dst, n) bytes the client wrote on file connections

        def on_write(tr, data):
            if tr.owner == 'me' and tr.conn.port == w.server.port:
                try:
                    from aioslsk.protocol.messages import ServerMessage
                    server_written.append((w.loop.time(), ServerMessage.deserialize_request(data)))
                except Exception:  # noqa
                    pass
                return
            if tr.owner != 'me':
                return
            conn = tr.conn
            key = (conn.id, tr.side)
            raw = data
            is_first = key not in first_write
            first_write.add(key)
            if is_first and tr.side == 'a':
                return                      # the init frame
            # classified later (file connection or not) from what the scripted peer parsed as init message
            file_writes.append((w.loop.time(), conn, conn.dst if tr.side == 'a' else conn.src, len(data)))
            try:
                if conn.port in obf_ports and (tr.side == 'a' and conn.port in (peer.obf_port, other.obf_port)
                                               or tr.side == 'b' and conn.port == me.obf_port):
                    raw = obfuscation.decode(data)
                msg = PeerMessage.deserialize_request(raw)
            except Exception:  # noqa   (file connection payload, distributed frames ...)
                return
            obs['frames_decoded'] += 1
            written.append((w.loop.time(), conn.id, conn.dst if tr.side == 'a' else conn.src, msg))
            scan_orphans('tap')
        w.net.on_write = on_write

        # -- orphan scan ---------------------------------------------------------------------
        def scan_orphans(where: str):
            obs['orphan_scans'] += 1
            per: dict = {}
            for task in asyncio.all_tasks():
                if task.done():
                    continue
                name = task.get_name()
                kind = 'queue' if name.startswith('queue-remotely-') else ('init' if name.startswith('initialize-') else None)
                if kind is None:
                    continue
                coro = task.get_coro()
                frame = getattr(coro, 'cr_frame', None)
                tr = frame.f_locals.get('transfer') if frame is not None else None
                if tr is None:
                    continue
                slot = tr._remotely_queue_task if kind == 'queue' else tr._transfer_task
                per.setdefault((id(tr), kind), []).append(task)
                if slot is not task:
                    cancelling = task.cancelling() > 0
                    if not cancelling:
                        viol.append((f'orphan-task:{kind}:{tr.direction.name.lower()}',
                                     {'t': round(w.now, 3), 'where': where, 'task': name, 'state': tr.state.VALUE.name,
                                      'slot': None if slot is None else slot.get_name()}))
            for (tid, kind), tasks in per.items():
                live = [t for t in tasks if not t.cancelling()]
                if len(live) > 1:
                    viol.append((f'two-negotiations-in-flight:{kind}', {'t': round(w.now, 3), 'where': where,
                                                                         'tasks': [t.get_name() for t in live]}))
        orig_manage = mgr.manage_transfers

        sync = {'armed': False, 'event': asyncio.Event()}

        def manage_transfers():
            orig_manage()
            scan_orphans('cycle-end')
            if sync['armed'] and op_sync == 'cycle-end':
                sync['event'].set()
        mgr.manage_transfers = manage_transfers
        orig_request = mgr.request_management_cycle

        def about_to_get_a_task(t) -> bool:
            """the cycle that was just requested will (most likely) start a negotiation for ``t``"""
            st = t.state.VALUE.name
            if t.is_upload():
                mine = [u for u in mgr.transfers if u.is_upload() and u.username == t.username]
                if any(u._transfer_task is not None or u.is_processing() for u in mine):
                    return False
                queued = [u for u in mine if u.state.VALUE.name == 'QUEUED']
                return bool(queued) and queued[0] is t
            return st in ('QUEUED', 'INCOMPLETE') and not t.remotely_queued and t._remotely_queue_task is None

        def request_management_cycle(flag):
            orig_request(flag)
            v = sync['victim']() if sync['armed'] else None
            if v is not None and op_sync == 'cycle-request' and about_to_get_a_task(v):
                obs['calls_placed_right_behind_a_granting_cycle'] = obs.get('calls_placed_right_behind_a_granting_cycle', 0) + 1
                sync['event'].set()
        mgr.request_management_cycle = request_management_cycle

        def on_message(event):
            m = event.message
            if qf_at is not None and type(m).__qualname__.startswith('PeerTransferQueueFailed') and 'processed_t' not in qf_state:
                qf_state['processed_t'] = w.loop.time()
            v = sync['victim']() if sync['armed'] and op_sync == 'offer' else None
            if v is not None and isinstance(m, PeerTransferRequest.Request) and m.filename == v.remote_path:
                obs['calls_placed_right_behind_the_offer'] = obs.get('calls_placed_right_behind_the_offer', 0) + 1
                sync['event'].set()
        from aioslsk.events import MessageReceivedEvent
        me.client.events.register(MessageReceivedEvent, on_message, priority=0)

        # -- workload ---------------------------------------------------------------------------
        await settle(0.3)
        transfers = []
        if force.get('degrade_after_start'):
            def degrade(transfer, old, new):
                # once the upload is under way the downloader drops its peer connection and becomes hard to reach
                if new == 'UPLOADING' and not qf_state.get('degraded'):
                    qf_state['degraded'] = True
                    if dl.link is not None and not dl.link.closed:
                        dl.link.close()
            tm.edge_hooks.append(degrade)

        def bob_transfers():
            want_upload = direction == 'upload'
            return [t for t in mgr.transfers if t.username == 'bob' and t.is_upload() == want_upload]

        def lazy_victim():
            ts = bob_transfers()
            return ts[victim_idx] if len(ts) > victim_idx else None

        async def create_transfers():
            if direction == 'download':
                for k in range(n_transfers):
                    await mgr.download('bob', list(peer_files)[k])
            else:
                names = sorted(rp)
                for k in range(n_transfers):
                    await dl.queue(rp[names[k]])
                if drops_link:
                    await asyncio.sleep(0.02)
                    if dl.link is not None and not dl.link.closed:
                        dl.link.close()
                        obs['downloader_dropped_its_link'] = obs.get('downloader_dropped_its_link', 0) + 1
                for _ in range(40):
                    await asyncio.sleep(0.01)
                    if len(bob_transfers()) >= n_transfers:
                        break
        early_fired = False
        if early_arm:
            sync['victim'] = lazy_victim
            sync['armed'] = True
            creator = w.spawn('me', create_transfers(), name='vf-create-transfers')
            try:
                await asyncio.wait_for(sync['event'].wait(), 5.0)
                early_fired = True
            except asyncio.TimeoutError:
                await creator
            sync['armed'] = False
        else:
            await me.call(create_transfers())
        transfers = bob_transfers()
        if not transfers:
            await w.stop_clients()
            return {'skipped': 'no transfers'}
        victim = lazy_victim() or transfers[victim_idx % len(transfers)]
        t0 = w.loop.time()

        async def forcer():
            for at in sorted(forced):
                wait = t0 + at - w.loop.time()
                if wait > 0:
                    await asyncio.sleep(wait)
                if rng.random() < 0.5:
                    try:
                        await me.call(mgr.download('carol', '@@carol\\x.mp3'))
                    except Exception:  # noqa
                        pass
                else:
                    w.server.push('me', GetUserStatus.Response('bob', rng.choice([1, 2]), False))
        ft = w.spawn('harness', forcer(), name='vf-forcer')
        if offer_at is not None:
            async def offer():
                await asyncio.sleep(offer_at)
                upl.offer_lat = 0.0
                if op_sync == 'offer-written':

                    def note_written():
                        if sync['armed']:
                            obs['calls_started_when_the_offer_was_written'] = obs.get('calls_started_when_the_offer_was_written', 0) + 1
                            sync['event'].set()
                    upl.before_offer = note_written
                await upl._serve(None, victim.remote_path)
            w.spawn('bob', offer(), name='vf-unsolicited-offer')
        if qf_at is not None:
            from aioslsk.protocol.messages import PeerTransferQueueFailed

            async def refuse_queue():
                # connection set up beforehand; the frame is written 6 ms (one whole segment) before qf_at
                qf_state['dialing'] = True
                try:
                    link = await peer.dial(me.port, 'P', host=w.net.ip_of('me'))
                finally:
                    qf_state['dialing'] = False
                await asyncio.sleep(max(0.0, t0 + qf_at - 0.006 - w.loop.time()))
                link.send(PeerTransferQueueFailed.Request(victim.remote_path, 'Banned'))
                obs['queue_refusals_sent'] = obs.get('queue_refusals_sent', 0) + 1
            w.spawn('bob', refuse_queue(), name='vf-refuse-queue')
        wait = t0 + t_op - w.loop.time()
        if op_sync in ('offer', 'offer-written'):
            wait = min(wait, offer_at - 0.001)       # armed before the offer is made
        if wait > 0 and not early_fired:
            await asyncio.sleep(wait)
        if early_fired:
            obs['ops_synchronised_with_a_cycle'] = obs.get('ops_synchronised_with_a_cycle', 0) + 1
        elif op_sync != 'instant':
            sync['victim'] = lambda: victim
            sync['armed'] = True
            try:
                await asyncio.wait_for(sync['event'].wait(), 30.0)
                obs['ops_synchronised_with_a_cycle'] = obs.get('ops_synchronised_with_a_cycle', 0) + 1
            except asyncio.TimeoutError:
                pass
            sync['armed'] = False
        await yields(k_yields)
        stage = {'state': victim.state.VALUE.name, 'queue_task': victim._remotely_queue_task is not None,
                 'transfer_task': victim._transfer_task is not None, 'remotely_queued': victim.remotely_queued,
                 'frames_so_far': len(written)}
        if stage['queue_task'] or stage['transfer_task']:
            obs['stage_in_flight'] += 1
        trace.append((round(w.now, 3), 'op', op, stage))
        refused = False
        from ..simnet import NODE
        t_call = w.loop.time()
        token = NODE.set('me')      # inline (no task of its own): the call starts in this very loop step
        try:
            if erng.random() < 0.3 and len(transfers) >= 2:
                # the same call on another transfer of the peer right before: its state change requests a management
                # cycle that runs while the call on the victim is in progress
                other_t = next(t_ for t_ in transfers if t_ is not victim)
                try:
                    await getattr(mgr, op)(other_t)
                    obs['calls_with_the_same_call_on_a_sibling_right_before'] = obs.get('calls_with_the_same_call_on_a_sibling_right_before', 0) + 1
                except Exception:  # noqa  (refused / not found: irrelevant here)
                    pass
            await getattr(mgr, op)(victim)
        except InvalidStateTransition:
            refused = True
            obs['ops_refused'] += 1
        finally:
            NODE.reset(token)
        t_ret = w.loop.time()
        ticket_of_victim = set()
        for (t, cid, dst, m) in written:
            if isinstance(m, PeerTransferRequest.Request) and m.filename == victim.remote_path:
                ticket_of_victim.add(m.ticket)
        if direction == 'download':
            for _, m in [(0, x) for x in []]:
                pass
        snap = {f: getattr(victim, f) for f in FIELDS}
        snap['state'] = victim.state.VALUE.name
        file_existed = bool(victim.local_path and os.path.exists(victim.local_path))
        n_connects = len(w.net.connect_log)
        n_server = len(w.server.frames)
        if early_fired:
            await creator
            # the other transfers of the peer were created after the call
            transfers = [victim] + [t for t in bob_transfers() if t is not victim]
        await ft
        await asyncio.sleep(300.0)
        await settle(0.0)
        if qf_at is not None and not refused and qf_state.get('processed_t', float('inf')) >= t_call:
            obs['queue_refusal_not_before_the_call'] = obs.get('queue_refusal_not_before_the_call', 0) + 1
            refused = True          # not judged
        elif qf_at is not None and not refused:
            obs['queue_refusal_before_the_call'] = obs.get('queue_refusal_before_the_call', 0) + 1
        if not refused:
            obs['ops_judged'] += 1
            # (a) frames naming the file, written after the call returned
            for (t, cid, dst, m) in written:
                if t <= t_ret or dst != 'bob':
                    continue
                names_file = (
                    isinstance(m, (PeerTransferQueue.Request, PeerTransferRequest.Request, PeerPlaceInQueueRequest.Request,
                                   PeerUploadFailed.Request)) and m.filename == victim.remote_path) or (
                    isinstance(m, PeerTransferReply.Request) and m.ticket in ticket_of_victim)
                if names_file:
                    viol.append((f'frame-after-{op}:{type(m).__qualname__.split(".")[0]}:{direction}',
                                 {'dt_after_return': round(t - t_ret, 4), 'stage_at_call': stage, 'direct': direct}))
                    break
            # (b) connection attempts on behalf of a peer nothing else concerns
            others_unfinished = [t for t in mgr.transfers if t is not victim and t.username == 'bob' and
                                 t.state.VALUE.name not in ('COMPLETE', 'ABORTED', 'FAILED', 'PAUSED')]
            if not others_unfinished and len(transfers) == 1:
                late = [e for e in w.net.connect_log[n_connects:] if e['node'] == 'me' and e['port'] in bob_ports]
                # attempts started before the return may still be running: only NEW attempts count
                late = [e for e in late if e['t'] + 1000.0 > t_ret + 1e-9]
                if late:
                    viol.append((f'connect-after-{op}:{direction}',
                                 {'n': len(late), 'dt_after_return': round(late[0]['t'] + 1000.0 - t_ret, 4),
                                  'stage_at_call': stage, 'direct': direct}))
                sfr = [m for (t, m) in server_written if t > t_ret + 1e-9 and (
                    (isinstance(m, GetPeerAddress.Request) and m.username == 'bob') or
                    (isinstance(m, ConnectToPeer.Request) and m.username == 'bob'))]
                if sfr:
                    viol.append((f'server-request-after-{op}:{type(sfr[0]).__qualname__.split(".")[0]}:{direction}',
                                 {'n': len(sfr), 'stage_at_call': stage, 'direct': direct}))
                f_conns = {id(l.conn) for l in peer.links if l.typ == 'F'}
                obs['file_connections_seen'] = obs.get('file_connections_seen', 0) + len(f_conns)
                fw = [e for e in file_writes if e[0] > t_ret + 1e-9 and e[2] == 'bob' and id(e[1]) in f_conns]
                if fw:
                    viol.append((f'file-connection-write-after-{op}:{direction}',
                                 {'n': len(fw), 'dt_after_return': round(fw[0][0] - t_ret, 4), 'bytes': sum(e[3] for e in fw),
                                  'stage_at_call': stage, 'direct': direct}))
            # (c) fields frozen
            obs['field_freeze_checks'] += 1
            after = {f: getattr(victim, f) for f in FIELDS}
            after['state'] = victim.state.VALUE.name
            diff = {k: (snap[k], after[k]) for k in after if snap[k] != after[k]}
            if diff:
                viol.append((f"field-changed-after-{op}:{'+'.join(sorted(diff))}:{direction}",
                             {'diff': {k: [str(a), str(b)] for k, (a, b) in diff.items()}, 'stage_at_call': stage}))
            if op in ('abort', 'remove') and direction == 'download' and file_existed:
                pass
        scan_orphans('end')
        tm.edge_hooks.clear()
        mgr.manage_transfers = orig_manage
        mgr.request_management_cycle = orig_request
        w.net.on_write = None
        await w.stop_clients()
        return {'stage': stage, 'refused': refused, 'final': victim.state.VALUE.name,
                'frames_written': len(written)}

    out = run_world(f'{seed}:C06:{params["n"]}', main, wall_timeout=120, monitors=[tm], exec_delay=exec_delay)
    tm.deactivate()
    if out.inconclusive:
        res['inconclusive'] = out.inconclusive
        return res
    seen = set()
    for sig, detail in viol:
        if sig in seen:
            continue
        seen.add(sig)
        runner.violation(res, sig, **detail)
    for sig, detail in safety_net_violations(out):
        runner.violation(res, 'safety:' + sig, **detail)
    for k, v in obs.items():
        runner.add_obs(res, k, v)
    r = out.result or {}
    st = r.get('stage') or {}
    if obs['ops_judged'] and (st.get('queue_task') or st.get('transfer_task') or st.get('frames_so_far')):
        res['csigs'].append(f"{direction}|{op}|{st.get('state')}|{st.get('queue_task')}|{st.get('transfer_task')}|"
                            f"{direct}|{indirect}|{len(forced)}|{n_transfers}|{op_sync}|{early_arm}|{offer_at}|{qf_at}")
    runner.add_cover(res, 'stages_at_call', f"{direction}:{st.get('state')}:q{int(bool(st.get('queue_task')))}t{int(bool(st.get('transfer_task')))}")
    runner.add_cover(res, 'ops', op)
    runner.add_cover(res, 'op_sync', op_sync)
    runner.add_cover(res, 'unsolicited_offer', str(offer_at))
    res['sample'] = {'direction': direction, 'op': op, 'direct': direct, 'indirect': indirect, 't_op': t_op, 'op_sync': op_sync, 'offer_at': offer_at,
                     'k_yields': k_yields, 'forced': forced, 'n_transfers': n_transfers, 'result': r}
    return res
