"""C05 — upload slots, one per user, priority (DESIGN §4 C05)."""
from __future__ import annotations

import asyncio
import random

from .. import runner
from ..monitors import TransferMonitor, safety_net_violations
from ..simloop import settle
from ..simnet import ConnPlan
from ..uploads import Downloader, make_share, remote_paths
from ..world import World, run_world

ID = 'C05'
LEVEL = 'exploration'
QUICK_SCALE = 5      # the quick tier was enlarged by this factor after MIN_OBS['quick'] was measured
RULE = ("One real uploading client with 6 shared files; 1-5 scripted downloaders with seeded status (online / away / "
        "offline / unknown), friend and privilege flags, each queueing 1-3 files; upload slot limit 0..4 changed at "
        "run time; seeded order and timing of queue requests, honest completions (file connections held open 0.2-6 s "
        "so that slots stay occupied over several management cycles), rejections, silent peers, peers vanishing "
        "mid-transfer, user aborts, status / privilege pushes from the server. Monitors: occupancy from listener "
        "notifications only (at every edge into INITIALIZING: uploads in INITIALIZING/UPLOADING <= the limit in force "
        "at the scheduling decision that granted it, and no second one for that user); a wrapper around "
        "manage_transfers records each scheduling decision (queued uploads, grants = new initialisation tasks) and "
        "judges priority against ranks folded independently from the server frames the client processed "
        "(privileged > friend > online/away > unknown, offline never, ties free); bounded progress: a queued upload "
        "of an eligible user with a free slot is granted within 1 virtual second at quiescence. Non-trivial: >= 2 "
        "grants judged; distinct = (limit sequence, population signature, order of grant/finish events).")
ASSUMPTIONS = [
    "'limit in force' = the slot setting at the scheduling decision that granted the upload (an upload occupying a "
    "slot when the limit is lowered is not a violation)",
    "ranks are folded from AddUser / GetUserStatus / PrivilegedUsers / AddPrivilegedUser frames in the order the client "
    "processed them; a status frame and a decision in the same dispatch are not distinguished",
]
MIN_OBS = {'quick': {'grants_judged': 600, 'decisions': 3000, 'init_edges': 600, 'progress_checks': 150},
           'thorough': {'grants_judged': 30000, 'decisions': 150000, 'init_edges': 30000, 'progress_checks': 8000}}
SHARD_TIMEOUT = {'quick': 900, 'thorough': 7200}

STATUS = {'offline': 0, 'away': 1, 'online': 2}


def cases(tier: str, seed: int) -> list[dict]:
    n = 1500 if tier == 'quick' else 120000
    out = [{'seed': seed, 'n': i} for i in range(n)]
    # directed: every user with a queued upload is offline, then the server announces all of them online (or away) in
    # one burst - the status messages are handled back to back, each one makes more uploads eligible
    k = 0
    for n_peers_ in (2, 3, 4):
        for limit_ in (1, 2):
            for st_ in ('online', 'away'):
                for at_ in (1.0, 2.5):
                    out.append({'seed': seed, 'n': n + k, 'force': {'n_peers': n_peers_, 'limit0': limit_, 'burst': st_, 'at': at_}})
                    k += 1
    return out


def tier_of(user: dict) -> int:
    if user['privileged']:
        return 3
    if user['friend']:
        return 2
    if user['status'] in (1, 2):
        return 1
    return 0


def run_case(params: dict) -> dict:
    res = runner.new_result(params['case'])
    seed = params['seed']
    rng = random.Random(f"{seed}:C05:{params['n']}")
    n_peers = rng.randint(1, 5)
    limit0 = rng.choice([0, 1, 1, 2, 2, 3, 4])
    pop = []
    for k in range(n_peers):
        pop.append({
            'name': f'd{k}',
            'status': rng.choice(['online', 'online', 'away', 'offline', 'unknown']),
            'friend': rng.random() < 0.3,
            'privileged': rng.random() < 0.25,
            'files': rng.sample(range(6), rng.randint(1, 3)),
            'hold': rng.choice([0.2, 0.5, 1.0, 3.0, 6.0]),
            'reply': rng.choice(['allow', 'allow', 'allow', 'reject', 'silent']),
            'read': rng.choice(['all', 'all', 'all', 'vanish']),
        })
    # script of run-time events
    script = []
    for _ in range(rng.randint(0, 6)):
        kind = rng.choice(['limit', 'limit', 'status', 'priv', 'abort', 'wait', 'requeue'])
        script.append({'kind': kind, 'at': rng.choice([0.0, 0.02, 0.1, 0.3, 1.0, 2.5, 7.0]),
                       'peer': rng.randrange(n_peers), 'value': rng.randint(0, 4),
                       'status': rng.choice(['online', 'away', 'offline'])})
    hrng = random.Random(f"{params['seed']}:C05:how:{params.get('n', params.get('case'))}")
    for ev in script:
        ev['how'] = hrng.choice(['assign', 'assign', 'section', 'parent'])
    # some downloaders drop their peer connection after queueing: the uploader then has to reach them first, which
    # takes a while (the selected upload is being negotiated although no message has been exchanged yet)
    for u in pop:
        u['drops_link'] = hrng.random() < 0.35
        u['reach_latency'] = hrng.choice([0.3, 1.0, 3.0])
    # the server announces the status of every followed user in one burst (one segment: the messages are handled
    # back to back) - e.g. several users with queued uploads coming online together
    if hrng.random() < 0.4:
        script.append({'kind': 'status-burst', 'at': hrng.choice([0.3, 1.0, 2.5, 7.0]), 'peer': 0, 'value': 0,
                       'status': hrng.choice(['online', 'online', 'away']), 'how': 'assign'})
        if hrng.random() < 0.5:
            for u in pop:
                if hrng.random() < 0.7:
                    u['status'] = 'offline'
    force = params.get('force')
    if force:
        pop = pop[:force['n_peers']]
        while len(pop) < force['n_peers']:
            pop.append(dict(pop[0], name=f'd{len(pop)}'))
        n_peers = len(pop)
        limit0 = force['limit0']
        for k_, u in enumerate(pop):
            u.update(status='offline', reply='allow', read='all', drops_link=False, hold=3.0,
                     friend=True, privileged=(k_ == len(pop) - 1))       # friends: followed from login on, known to be offline
        script = [{'kind': 'status-burst', 'at': force['at'], 'peer': 0, 'value': 0, 'status': force['burst'], 'how': 'assign'}]
    script.sort(key=lambda e: e['at'])
    tm = TransferMonitor()
    viol: list = []
    obs = {'grants_judged': 0, 'decisions': 0, 'init_edges': 0, 'progress_checks': 0, 'limit_changes': 0}
    trace: list = []

    async def main(w: World):
        from aioslsk.events import MessageReceivedEvent
        from aioslsk.protocol.messages import AddPrivilegedUser, AddUser, GetUserStatus, PrivilegedUsers
        from aioslsk.settings import TransferLimitSettings, TransfersSettings, UsersSettings
        await w.start_server()
        share, files = make_share(w, 6, rng)
        friends = {p['name'] for p in pop if p['friend']}
        settings = w.make_settings('up', shared=[share], users=UsersSettings(friends=friends),
                                   transfers=TransfersSettings(limits=TransferLimitSettings(upload_slots=limit0)))
        privileged0 = [p['name'] for p in pop if p['privileged']]
        w.server.post_login = lambda s: [PrivilegedUsers.Response(privileged0)] if s.username == 'up' else []
        # fold of what the server told the client (ranks), in processing order
        fold = {p['name']: {'status': -1, 'privileged': p['name'] in privileged0, 'friend': p['friend']} for p in pop}
        privset = set(privileged0)

        up = await w.add_client('up', settings, start=True, login=False)

        def on_msg(ev):
            m = ev.message
            if isinstance(m, AddUser.Response) and m.username in fold and m.exists:
                fold[m.username]['status'] = m.status
            elif isinstance(m, GetUserStatus.Response) and m.username in fold:
                # a status report that crosses the client's RemoveUser concerns a user the client no longer follows
                if up.client.users.get_tracking_flags(m.username):
                    fold[m.username]['status'] = m.status
                fold[m.username]['privileged'] = bool(m.privileged)
            elif isinstance(m, PrivilegedUsers.Response):
                privset.clear()
                privset.update(m.users)
                for n_, u in fold.items():
                    u['privileged'] = n_ in privset
            elif isinstance(m, AddPrivilegedUser.Response) and m.username in fold:
                fold[m.username]['privileged'] = True
        up.listen(MessageReceivedEvent, on_msg)

        def on_tracking(ev):
            # once the client untracks a user the server stops reporting its status: the knowledge is void
            if ev.state.name == 'UNTRACKED' and ev.user.name in fold:
                fold[ev.user.name]['status'] = -1
        from aioslsk.events import UserTrackingStateChangedEvent
        up.listen(UserTrackingStateChangedEvent, on_tracking)
        await up.call(up.client.login())
        await up.call(up.client.shares.scan())
        mgr = up.client.transfers
        rp = remote_paths(up.client)
        names = sorted(rp)

        slow_ports: dict = {}

        def planner(node, host, port, attempt):
            if node == 'up' and port in slow_ports:
                return ConnPlan(latency=slow_ports[port])
            return ConnPlan(latency=rng.uniform(0.001, 0.12))
        w.net.planner = planner

        dls = []
        for p in pop:
            peer = await w.add_peer(p['name'], status=STATUS.get(p['status'], 2), register=True)
            if p['status'] == 'unknown':
                # the server does not know the user: AddUser is answered 'does not exist' -> status stays UNKNOWN
                pass
            d = Downloader(w, peer, 'up', up.port, rng)
            d.default.update(hold=p['hold'], reply=p['reply'], read=p['read'])
            dls.append(d)
            if p['drops_link']:
                for prt in (peer.port, peer.obf_port):
                    if prt:
                        slow_ports[prt] = p['reach_latency']
        unknown = {p['name'] for p in pop if p['status'] == 'unknown'}
        default_answer = w.server.user_answer
        w.server.user_answer = lambda s, u: 'notexists' if u in unknown else default_answer(s, u)

        # -- monitors --------------------------------------------------------------
        granted_limit: dict[int, int] = {}      # id(transfer) -> slot limit at the decision that granted it

        def uploads():
            return [t for t in mgr.transfers if t.is_upload()]

        def occupying():
            return [t for t in uploads() if t.state.VALUE.name in ('INITIALIZING', 'UPLOADING')]

        orig_manage = mgr.manage_transfers

        def manage_transfers():
            obs['decisions'] += 1
            ups = uploads()
            before = {id(t): t._transfer_task for t in ups}
            queued = [t for t in ups if t.state.VALUE.name == 'QUEUED']
            busy_users = {t.username for t in occupying()}
            limit = up.client.settings.transfers.limits.upload_slots
            occ0 = len(occupying())
            orig_manage()
            grants = [t for t in ups if t._transfer_task is not None and t._transfer_task is not before[id(t)]]
            if not grants:
                return
            trace.append((round(w.now, 3), 'decision', limit, occ0, [t.username for t in grants]))
            for g in grants:
                granted_limit[id(g)] = limit
            # slot rule at the decision
            if occ0 + len(grants) > limit:
                viol.append(('slots:decision-grants-more-than-free-slots',
                             {'limit': limit, 'occupied': occ0, 'granted': len(grants)}))
            gusers = [g.username for g in grants]

            def lib_view(name):
                u_ = mgr._user_manager.get_user_object(name)
                return {'status': u_.status.name, 'privileged': u_.privileged,
                        'tracked_flags': str(mgr._user_manager.get_tracking_flags(name)),
                        'tracking_state': mgr._user_manager.get_tracking_state(name).name}
            if len(set(gusers)) != len(gusers):
                viol.append(('one-per-user:two-grants-in-one-decision', {'users': gusers}))
            for g in grants:
                obs['grants_judged'] += 1
                u = fold.get(g.username)
                if u is None:
                    continue
                if g.username in busy_users:
                    viol.append(('one-per-user:grant-while-user-occupies-a-slot', {'user': g.username}))
                if u['status'] == 0:
                    viol.append(('priority:offline-user-granted', {'t': round(w.now, 3), 'user': g.username, 'fold': dict(u),
                                                                   'library_view': lib_view(g.username),
                                                                   'trace_then': trace[-12:]}))
                # no eligible queued user of a strictly higher tier may be left waiting
                for q in queued:
                    if q in grants or q.username in gusers or q.username in busy_users:
                        continue
                    v = fold.get(q.username)
                    if v is None or v['status'] == 0:
                        continue
                    if tier_of(v) > tier_of(u):
                        viol.append((f'priority:lower-tier-granted-first:{tier_of(u)}-before-{tier_of(v)}',
                                     {'t': round(w.now, 3), 'granted': g.username, 'granted_fold': dict(u), 'waiting': q.username,
                                      'waiting_fold': dict(v), 'limit': limit, 'occupied': occ0,
                                      'library_view_granted': lib_view(g.username),
                                      'library_view_waiting': lib_view(q.username), 'trace_then': trace[-12:]}))
                        break
        mgr.manage_transfers = manage_transfers

        def on_edge(transfer, old, new):
            if not transfer.is_upload():
                return
            trace.append((round(w.now, 3), transfer.username, old[:4], new[:4]))
            if new == 'INITIALIZING':
                obs['init_edges'] += 1
                occ = occupying()
                limit_now = up.client.settings.transfers.limits.upload_slots
                allowed = max(limit_now, granted_limit.get(id(transfer), limit_now))
                if len(occ) > allowed:
                    viol.append(('slots:exceeded-at-initialising', {
                        'occupied': len(occ), 'limit_now': limit_now, 'limit_at_grant': granted_limit.get(id(transfer)),
                        'users': [t.username for t in occ]}))
                same = [t for t in occ if t.username == transfer.username]
                if len(same) > 1:
                    viol.append(('one-per-user:two-active-uploads', {'user': transfer.username}))
        tm.edge_hooks.append(on_edge)

        # -- workload ---------------------------------------------------------------------
        await settle(0.3)
        t0 = w.loop.time()
        order = [(p, f) for p in range(n_peers) for f in pop[p]['files']]
        rng.shuffle(order)

        async def queue_all():
            for (pi, fi) in order:
                await asyncio.sleep(rng.choice([0.0, 0.0, 0.01, 0.05, 0.3]))
                try:
                    await dls[pi].queue(rp[names[fi]])
                    if pop[pi]['drops_link']:
                        await asyncio.sleep(0.02)
                        link = dls[pi].link
                        if link is not None and not link.closed:
                            link.close()
                            obs['links_dropped_after_queueing'] = obs.get('links_dropped_after_queueing', 0) + 1
                except (ConnectionError, OSError):
                    pass
        qtask = w.spawn('harness', queue_all(), name='vf-queue-all')
        for ev in script:
            wait = t0 + ev['at'] - w.loop.time()
            if wait > 0:
                await asyncio.sleep(wait)
            name = pop[ev['peer']]['name']
            if ev['kind'] == 'limit':
                # the three ways an application changes a setting at run time: assign the value, replace the
                # section that holds it, replace the parent section
                st = up.client.settings
                how = ev.get('how', 'assign')
                if how == 'assign':
                    st.transfers.limits.upload_slots = ev['value']
                elif how == 'section':
                    st.transfers.limits = st.transfers.limits.model_copy(update={'upload_slots': ev['value']})
                else:
                    st.transfers = st.transfers.model_copy(
                        update={'limits': st.transfers.limits.model_copy(update={'upload_slots': ev['value']})})
                runner.add_cover(res, 'limit_change_ways', how)
                obs['limit_changes'] += 1
                trace.append((round(w.now, 3), 'limit', ev['value']))
            elif ev['kind'] == 'status':
                # a real server only reports the status of users the client asked to be told about
                from aioslsk.protocol.messages import RemoveUser
                last = None
                for _, u_, m_ in w.server.frames:
                    if u_ == 'up' and isinstance(m_, (AddUser.Request, RemoveUser.Request)) and m_.username == name:
                        last = m_
                if isinstance(last, AddUser.Request) and name not in unknown:
                    w.server.push('up', GetUserStatus.Response(name, STATUS[ev['status']], fold[name]['privileged']))
                    trace.append((round(w.now, 3), 'status', name, ev['status']))
            elif ev['kind'] == 'status-burst':
                from aioslsk.protocol.messages import RemoveUser
                burst = []
                for u in pop:
                    n_ = u['name']
                    last = None
                    for _, u_, m_ in w.server.frames:
                        if u_ == 'up' and isinstance(m_, (AddUser.Request, RemoveUser.Request)) and m_.username == n_:
                            last = m_
                    if isinstance(last, AddUser.Request) and n_ not in unknown:
                        burst.append(GetUserStatus.Response(n_, STATUS[ev['status']], fold[n_]['privileged']))
                if burst:
                    # one write = one segment: the client handles the messages back to back in one loop step
                    w.server.push('up', b''.join(m_.serialize() for m_ in burst))
                    obs['status_bursts'] = obs.get('status_bursts', 0) + 1
                    trace.append((round(w.now, 3), 'status-burst', len(burst), ev['status']))
            elif ev['kind'] == 'priv':
                w.server.push('up', AddPrivilegedUser.Response(name))
                trace.append((round(w.now, 3), 'priv', name))
            elif ev['kind'] == 'abort':
                ups = uploads()
                if ups:
                    victim = ups[ev['value'] % len(ups)]
                    try:
                        await up.call(mgr.abort(victim))
                        trace.append((round(w.now, 3), 'abort', victim.username))
                    except Exception as exc:  # noqa
                        trace.append((round(w.now, 3), 'abort-refused', type(exc).__name__))
            elif ev['kind'] == 'requeue':
                ups = [t for t in uploads() if t.state.VALUE.name in ('ABORTED', 'FAILED', 'COMPLETE')]
                if ups:
                    try:
                        await up.call(mgr.queue(ups[ev['value'] % len(ups)]))
                    except Exception:  # noqa
                        pass
        await qtask
        await settle(45.0)
        # -- bounded progress at quiescence ---------------------------------------------------
        for round_ in range(3):
            limit = up.client.settings.transfers.limits.upload_slots
            occ = occupying()
            busy = {t.username for t in occ}
            waiting = [t for t in uploads() if t.state.VALUE.name == 'QUEUED' and t.username not in busy and
                       fold.get(t.username, {}).get('status') != 0]
            obs['progress_checks'] += 1
            if limit - len(occ) > 0 and waiting:
                n0 = obs['init_edges']
                await settle(1.0)
                if obs['init_edges'] == n0:
                    last_decision = max([e[0] for e in trace if e[1] == 'decision'] or [0.0])
                    raised_after = [e for e in trace if e[1] == 'limit' and e[0] >= last_decision and e[2] > 0]
                    sig = ('progress:no-cycle-after-slot-limit-raised' if raised_after else
                           'progress:no-grant-although-free-slot-and-eligible-upload')
                    viol.append((sig,
                                 {'limit': limit, 'occupied': len(occ), 'waiting': [t.username for t in waiting],
                                  'fold': {k: dict(v) for k, v in fold.items()}}))
                    break
            await settle(3.0)
        final = {'uploads': [(t.username, t.state.VALUE.name) for t in uploads()], 'limit': up.client.settings.transfers.limits.upload_slots}
        tm.edge_hooks.clear()
        mgr.manage_transfers = orig_manage
        await w.stop_clients()
        return final

    out = run_world(f'{seed}:C05:{params["n"]}', main, wall_timeout=120, monitors=[tm])
    tm.deactivate()
    if out.inconclusive:
        res['inconclusive'] = out.inconclusive
        return res
    for sig, detail in viol:
        runner.violation(res, sig, **detail, trace=trace[-40:])
    for sig, detail in safety_net_violations(out):
        runner.violation(res, 'safety:' + sig, **detail)
    for k, v in obs.items():
        runner.add_obs(res, k, v)
    runner.add_obs(res, 'passive_c03_reports', len(tm.violations))
    if obs['grants_judged'] >= 2:
        order_sig = [e[1:] for e in trace if e[1] == 'decision' or (len(e) == 4 and e[3] in ('COMP', 'FAIL', 'ABOR'))][:20]
        res['csigs'].append(f"{limit0}|{[(p['status'], p['friend'], p['privileged'], len(p['files'])) for p in pop]}|"
                            f"{[(e['kind'], e['value']) for e in script]}|{order_sig}")
    runner.add_cover(res, 'initial_limits', limit0)
    runner.add_cover(res, 'population_sizes', n_peers)
    res['sample'] = {'limit0': limit0, 'population': pop, 'script': script, 'final': out.result, 'trace': trace[:40]}
    return res
