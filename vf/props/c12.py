"""C12 — a reply completes exactly the requests it answers; a timeout is a timeout.

One case = one seeded history on one simulated world: the real client 'me' is
logged in to the scripted server and has one established P link with each of the
scripted peers 'p1' and 'p2'.  Every connection has a FIXED one-way latency (a
whole number of ticks of 1/64 s) and the history runs on a dyadic time grid, so
arrival instants, deadlines and cancellations are exact: "message arrives in the
same instant as the timeout" is generated deliberately, not by luck.

The oracle is a reference model written from the statement (``judge``): requests
do not interact (a message completes *every* pending request it answers), hence
every request is judged on its own against the observed ``MessageReceivedEvent``
sequence.
"""
from __future__ import annotations

import asyncio
import collections
import math
import random
from typing import Any, Optional

from vf import runner

ID = 'C12'
LEVEL = 'exploration'
TICK = 1.0 / 64
PLACE_TICKS = 15 * 64            # request_place_in_queue waits 15 s (documented in its source)
FAR = 64 * 3600                  # "no timeout" for wait_for_* calls that the workload cancels
USERS = ('ua', 'ub', 'uc')
PATHS = ('f/a.mp3', 'f/b.mp3')
DIRS = ('d/a', 'd/b')
WRONG_TICKET = 7999
N_RANDOM = {'quick': 3740, 'thorough': 640560}     # per 17: 8 general, 3 suspended-handler, 2 call-race, 2 busy-loop, 2 link-loss

RULE = (
    "One case = one history on one simulated world (client 'me' + scripted server + peers p1,p2 with established P "
    "links; fixed latency of 0..8 ticks of 1/64 s per connection, seg='whole', all instants on the dyadic grid). A "
    "history = 1..4 concurrent requests x 1..8 incoming messages in 1..8 segments (one write = one segment = frames "
    "processed back-to-back) x one end per request (timeout T, or cancellation by the workload: future.cancel() / "
    "task.cancel()). Request kinds: wait_for_server_message, wait_for_peer_message, create_server_response_future, "
    "create_peer_response_future, register_response_future (also peer=None and connection-class/message-class "
    "mismatch), execute(cmd, response=True) for GetUserStatus/GetUserStats/GetPeerAddress/CheckPrivileges/"
    "PeerGetUserInfo/PeerGetDirectoryContent, transfers.request_place_in_queue. Message classes: 10, among them "
    "PrivateChatMessage (its library handler acks through gather and is really suspended for several loop "
    "iterations), PeerTransferQueue for an unshared file, PeerUserInfoRequest. Matchers: 0..2 fields, exact or "
    "callable, including (callable, exact). Five generator families (per 17 random cases: 8/3/2/2/2): "
    "GENERAL — messages generated relative to a request (matching, wrong in the first/last matched field, right "
    "fields from the other peer, other type, unrelated); the end of a request before / exactly at / after the first "
    "matching arrival; a cancellation at the arrival instant in controlled orders (a: before the bytes reach the "
    "reader, b: same loop iteration as and before the reader task, c: after the caller resumed). "
    "SUSPENDED-HANDLER — 2-3 waiters answered by one message whose handling really suspends (the library's "
    "private-message handler, or an application MessageReceivedEvent listener awaiting 1..6 zero-time yields or 1..3 "
    "ticks of virtual time); an earlier-registered waiter is cancelled 0..8 loop iterations after the arrival, or "
    "reaches its library timeout / is cancelled at the arrival instant or inside the virtual-time suspension. "
    "CALL-RACE — zero-latency links; a matching reply is written 0..8 zero-time yields before/after the call is "
    "started at the same virtual instant, so that it is processed while execute() is still sending. "
    "BUSY-LOOP — a running callback 'takes' 4..48/1024 s (w.loop.stall) from the delivery callback of the reply "
    "(+0..2 loop iterations) or from a harness timer 0..1 tick before, the reply arriving one tick before / at / one "
    "tick after the deadline, all request kinds: overdue timers then fire in one batch behind the reply. "
    "LINK-LOSS — requests to a peer are pending while that peer's P link is closed (EOF / RST by the peer, "
    "disconnect by the client), with or without a second P link (closed too or not), with or without the peer "
    "connecting again and replying over the new link before / after the deadline. "
    "UPLOAD-NEGOTIATION (separate cases, 170 quick / 20000 thorough + 12 hand-written) — a library-internal pending "
    "request: the real client uploads a shared file to a scripted downloader that stays silent for 0..2 negotiations "
    "(each is requeued after the 30 s reply timeout and renegotiated with a NEW ticket), sends 0..2 PeerTransferReply "
    "frames carrying the ticket of an EARLIER negotiation or a ticket never issued (allowed true/false, 0..20 s into "
    "a pending negotiation) and finally answers the pending ticket (allow / reject / never). The first cases "
    "are hand-written minimal histories of all of the above, then random.Random(f'{seed}:C12:{idx}') histories. "
    "Non-trivial = at least one request outcome was judged against the model; distinct = (multiset of request kinds, "
    "message pattern classes, segment shape, timing classes)."
)
ASSUMPTIONS = [
    "Reference model (from the statement; see judge()): one counter orders the moment the harness task is about to "
    "enter the library call (seq_call), the moment the first MessageReceivedEvent listener sees a message and the "
    "moment the last listener returned (the library completes waiters right after it). A matching message (source = "
    "server / the named peer, class, ALL field matchers) MUST complete the request if it was seen after the call "
    "started (by order, also at the same virtual instant) and the request's end instant (t_call + T — 15 s for "
    "request_place_in_queue — or the instant the workload cancels, whichever is first) is strictly later than the "
    "instant its handlers finished; the first such message wins. A request that ended otherwise must end with the "
    "documented timeout error (TimeoutError; RequestPlaceFailedError for request_place_in_queue) resp. CancelledError.",
    "Accepted either way: a message seen before the call started but whose handlers finished after it; a request "
    "whose end instant lies between (inclusive) the instant a message was seen and the instant its handlers finished "
    "(sub-instant order of timers is not judged). A request that was evidently completed by a later message must "
    "not have skipped an earlier matching one seen after its call started.",
    "request_place_in_queue creates its waiter only after its own request was sent: for this kind a message at the "
    "virtual instant of the call is accepted either way (every other kind registers synchronously at the call, "
    "before its first suspension — this is what the order rule relies on).",
    "Message order and arrival instants are the observed MessageReceivedEvent sequence of the client; the source of "
    "an event is derived from the connection's socket address, not from the username the library attributes.",
    "For execute(PeerGetDirectoryContentCommand) the expected field values are the directory asked for and the ticket "
    "carried by the request frame the peer actually received.",
    "ERROR records 'error during callback' are attributed to the message event whose last listener returned just "
    "before them; the mechanism named in the signature is derived from harness facts (a matching request ended "
    "between first and last listener) or from a snapshot of Network._expected_response_futures (classification only, "
    "the rule itself is the logged error).",
    "An application listener registered on MessageReceivedEvent that awaits (zero-time yields or virtual time) is a "
    "legitimate part of the environment; replies are not causally tied to requests (the server also pushes "
    "unsolicited status/stat updates), so a reply may be processed before the request frame has left.",
    "Busy loop (w.loop.stall from a to b): an end instant that came due inside [a, b] counts as b; a reply seen at "
    "b is then accepted either way (reply or the timeout error), any other exception is a violation.",
    "Losing a peer connection does not end a pending request (the statement names only reply, timeout and "
    "cancellation by the caller): the request keeps waiting, a matching message from that peer over any other / "
    "new connection completes it, otherwise the timeout error at the deadline. Frames in flight on a closed link may "
    "be lost (not judged). Requests are started before the link is closed (a request made without any connection "
    "would have to connect first: C11). The server connection dropping while server requests are pending is not "
    "exercised: the statement is silent on it and the client logs out.",
    "Upload negotiation (judged from the transfer's state edges, the frames the downloader saw and the file "
    "connections it received): the k-th entry into INITIALIZING is the negotiation of the k-th PeerTransferRequest; a "
    "negotiation may only end FAILED with the reason of a reply carrying ITS ticket, UPLOADING after an allowing "
    "reply carrying its ticket, or QUEUED at its deadline (30 s, +-1 s); a file connection may only carry a ticket "
    "that an allowing reply for that ticket accepted; the reply that does carry the pending ticket must take effect.",
    "Not judged: which of several timers due at one virtual instant fires first (only varied, both outcomes accepted); "
    "callable matchers that raise; the cancel-on-send-failure path of execute() (needs a write that fails while the "
    "connection still looks open); D/F connections and obfuscated links (same on_message_received path); requests "
    "pending during shutdown.",
    "Frames are built with the repository's message classes with in-range values; the scripted server swallows "
    "GetPeerAddress requests so that only scripted replies arrive.",
]
MIN_OBS = {
    'quick': {'histories': 3900, 'requests_judged': 8000, 'messages_delivered': 9500, 'same_instant_cases': 1500,
              'back_to_back_segments': 1250, 'residue_checks': 3900, 'later_delivery_checks': 3900,
              'cancel_at_arrival_order_a': 50, 'cancel_at_arrival_order_b': 90, 'cancel_at_arrival_order_c': 40,
              'cancel_at_arrival_plus_hops': 300, 'deadline_at_arrival': 700,
              'requests_ended_while_handlers_suspended': 280, 'judged_by_order_at_the_call_instant': 450,
              'deadline_inside_a_stall': 200, 'reply_and_deadline_inside_one_stall': 140,
              'peer_link_closed_while_pending': 700, 'completed_over_another_link_after_a_close': 150,
              'upload_histories': 175, 'upload_negotiations_judged': 300, 'stale_replies_while_negotiation_pending': 150},
    'thorough': {'histories': 640000, 'requests_judged': 1100000, 'messages_delivered': 1300000,
                 'same_instant_cases': 230000, 'back_to_back_segments': 190000, 'residue_checks': 640000,
                 'later_delivery_checks': 640000, 'cancel_at_arrival_order_a': 8000, 'cancel_at_arrival_order_b': 15000,
                 'cancel_at_arrival_order_c': 6000, 'cancel_at_arrival_plus_hops': 50000, 'deadline_at_arrival': 115000,
                 'requests_ended_while_handlers_suspended': 42000, 'judged_by_order_at_the_call_instant': 70000,
                 'deadline_inside_a_stall': 30000, 'reply_and_deadline_inside_one_stall': 22000,
                 'peer_link_closed_while_pending': 110000, 'completed_over_another_link_after_a_close': 25000,
                 'upload_histories': 20000, 'upload_negotiations_judged': 35000,
                 'stale_replies_while_negotiation_pending': 17000},
}
SHARD_TIMEOUT = {'quick': 600, 'thorough': 5400}
WHAT_FAILS = {
    'wrong-exception:': 'a request ended with an exception that is neither the documented timeout error nor the '
                        "workload's own cancellation",
    'completed-by-wrong-message:': 'a request was completed by a message that its source/type/field matchers reject',
    'completed-outside-window': 'a request was completed by a message that arrived before the call or after its end',
    'not-first-matching-message': 'a request was completed by a later matching message although an earlier one arrived',
    'matching-message-ignored:': 'a message that answers a pending request left it pending',
    'callback-error:': "completing waiters raised inside the library ('error during callback'), e.g. a waiter that "
                       'ended while the handlers of the message were suspended was completed without re-checking it',
    'matching-message-ignored:processed-at-the-call-instant': 'a reply processed while the call was still sending its '
                                                              'request was missed (waiter registered too late)',
    'residue:': 'ended requests left entries in the expected-response list',
    'later-delivery-broken': 'after the history a fresh request + matching reply did not complete',
    'request-never-ended:': 'a request neither returned nor raised after its deadline',
    'wrong-value:': 'the value returned to the caller is not the one carried by the completing message',
    'upload-negotiation:': 'a PeerTransferReply carrying another ticket than the one of the pending upload negotiation '
                           'ended that negotiation (failed it, started the upload, or made it give up early)',
}

# --------------------------------------------------------------------------
# message classes: key -> (family, [(field, domain)])

CLASSES: dict[str, tuple[str, list]] = {
    'S1': ('server', [('username', USERS), ('status', (0, 1, 2)), ('privileged', (False, True))]),
    'S2': ('server', [('username', USERS)]),
    'S3': ('server', [('username', USERS), ('ip', ('1.1.1.1', '2.2.2.2')), ('port', (1000, 2000))]),
    'S4': ('server', [('time_left', (0, 1, 2, 3))]),
    'P1': ('peer', [('filename', PATHS), ('place', None)]),          # place = 100 + uid
    'P2': ('peer', [('description', ('da', 'db')), ('upload_slots', (0, 1, 2)), ('queue_size', (0, 1))]),
    'P3': ('peer', [('ticket', (7001, 7002, 7003)), ('directory', DIRS)]),
    # classes whose library handlers answer the sender (PrivateChatMessage: the ack goes through
    # send_server_messages = gather, the handler is really suspended for several loop iterations)
    'S5': ('server', [('username', USERS), ('message', ('hi', 'yo'))]),   # chat_id = 500 + uid
    'P4': ('peer', [('filename', ('nf/a.mp3', 'nf/b.mp3'))]),              # PeerTransferQueue for a file not shared
    'P5': ('peer', []),                                                    # PeerUserInfoRequest
}
CLASS_NAMES = {'S1': 'GetUserStatus.Response', 'S2': 'GetUserStats.Response', 'S3': 'GetPeerAddress.Response',
               'S4': 'CheckPrivileges.Response', 'P1': 'PeerPlaceInQueueReply.Request',
               'P2': 'PeerUserInfoReply.Request', 'P3': 'PeerDirectoryContentsReply.Request',
               'S5': 'PrivateChatMessage.Response', 'P4': 'PeerTransferQueue.Request', 'P5': 'PeerUserInfoRequest.Request'}
EXEC_KINDS = {
    'execute:GetUserStatusCommand': 'S1', 'execute:GetUserStatsCommand': 'S2', 'execute:GetPeerAddressCommand': 'S3',
    'execute:CheckPrivilegesCommand': 'S4', 'execute:PeerGetUserInfoCommand': 'P2',
    'execute:PeerGetDirectoryContentCommand': 'P3',
}
TASK_CANCEL_KINDS = ('wait_for_server_message', 'wait_for_peer_message', 'request_place_in_queue') + tuple(EXEC_KINDS)
FUT_KINDS = ('create_server_response_future', 'create_peer_response_future', 'register_response_future')
ALL_KINDS = ('wait_for_server_message', 'wait_for_peer_message') + FUT_KINDS + tuple(EXEC_KINDS) + ('request_place_in_queue',)


def msg_class(key: str):
    from aioslsk.protocol import messages as M
    outer, inner = CLASS_NAMES[key].split('.')
    return getattr(getattr(M, outer), inner)


def build_message(m: dict, uid: int, tickets: dict):
    """JSON description -> message object (uid makes the frame unique where the class has room for it)."""
    from aioslsk.protocol import messages as M
    from aioslsk.protocol.primitives import UserStats
    c, f = m['c'], dict(m['f'])
    if c == 'S1':
        return M.GetUserStatus.Response(f['username'], f['status'], bool(f['privileged']))
    if c == 'S2':
        return M.GetUserStats.Response(f['username'], UserStats(10 + uid, 1000 + uid, 3, 2))
    if c == 'S3':
        return M.GetPeerAddress.Response(f['username'], f['ip'], f['port'], 1, 100 + uid)
    if c == 'S4':
        return M.CheckPrivileges.Response(f['time_left'])
    if c == 'P1':
        return M.PeerPlaceInQueueReply.Request(f['filename'], 100 + uid)
    if c == 'P2':
        return M.PeerUserInfoReply.Request(f['description'], False, None, f['upload_slots'], f['queue_size'],
                                           bool(uid % 2), None)
    if c == 'P3':
        t = f['ticket']
        if isinstance(t, dict):                      # {'req': i}: the ticket of request i's frame, if it has arrived
            t = tickets.get(t['req'], WRONG_TICKET)
        return M.PeerDirectoryContentsReply.Request(t, f['directory'], [])
    if c == 'S5':
        return M.PrivateChatMessage.Response(500 + uid, 1_700_000_000 + uid, f['username'], f['message'], True)
    if c == 'P4':
        return M.PeerTransferQueue.Request(f['filename'])
    if c == 'P5':
        return M.PeerUserInfoRequest.Request()
    raise ValueError(c)


# --------------------------------------------------------------------------
# matchers: [field, op, value]; 'eq' is an exact value, 'c_*' are callables

def lib_matcher(op: str, value):
    if op == 'eq':
        return value
    if op == 'c_eq':
        return lambda v: v == value
    if op == 'c_ne':
        return lambda v: v != value
    if op == 'c_in':
        vals = list(value)
        return lambda v: v in vals
    if op == 'c_ge':
        return lambda v: v >= value
    raise ValueError(op)


def op_accepts(op: str, value, actual) -> bool:
    if op in ('eq', 'c_eq'):
        return actual == value
    if op == 'c_ne':
        return actual != value
    if op == 'c_in':
        return actual in list(value)
    if op == 'c_ge':
        return actual >= value
    raise ValueError(op)


_MISSING = object()


def src_accepts(rsrc: str, esrc: str) -> bool:
    if rsrc == 'any':
        return esrc in ('p1', 'p2')
    return rsrc == esrc


def why_rejected(r: dict, matchers: list, esrc: str, ckey: Optional[str], fields) -> Optional[str]:
    """None if the model accepts the message for request r, else the reason (names a mechanism)."""
    if not src_accepts(r['src'], esrc):
        if r['src'] != 'server' and esrc != 'server':
            return 'wrong-peer'
        return 'wrong-connection-class'
    if ckey != r['c']:
        return 'wrong-type'
    seen_callable = False
    for fname, op, value in matchers:
        actual = fields(fname)
        if actual is _MISSING or not op_accepts(op, value, actual):
            return 'field-after-callable-matcher-unchecked' if seen_callable else 'wrong-field'
        if op != 'eq':
            seen_callable = True
    return None


# --------------------------------------------------------------------------
# history construction helpers

def R(k: str, c: str, src: str, m: list, s: int, end: dict, **extra) -> dict:
    d = {'k': k, 'c': c, 'src': src, 'm': [list(x) for x in m], 's': s, 'end': end, 'o': 0}
    d.update(extra)
    return d


def T(ticks: int) -> dict:
    return {'type': 'T', 'ticks': ticks}


def C(tick: int) -> dict:
    return {'type': 'C', 'tick': tick}


def CH(seg: int, order: str) -> dict:
    return {'type': 'C', 'seg': seg, 'order': order}


def SEG(link: str, t: int, *msgs: dict) -> dict:
    return {'link': link, 't': t, 'msgs': list(msgs), 'o': 1}


def MSG(c: str, **f) -> dict:
    return {'c': c, 'f': f}


def implied(r: dict) -> None:
    """Fill src / matchers of kinds whose expectation is implied by their arguments."""
    k = r['k']
    a = r.get('arg') or {}
    if k == 'execute:GetUserStatusCommand' or k == 'execute:GetUserStatsCommand' or k == 'execute:GetPeerAddressCommand':
        r['src'], r['m'] = 'server', [['username', 'eq', a['username']]]
    elif k == 'execute:CheckPrivilegesCommand':
        r['src'], r['m'] = 'server', []
    elif k == 'execute:PeerGetUserInfoCommand':
        r['src'], r['m'] = a['peer'], []
    elif k == 'execute:PeerGetDirectoryContentCommand':
        r['src'], r['m'] = a['peer'], [['ticket', 'eq', {'own': True}], ['directory', 'eq', a['directory']]]
    elif k == 'request_place_in_queue':
        r['src'], r['m'] = a['peer'], [['filename', 'eq', a['path']]]


def arrivals(hist: dict) -> list[int]:
    """Arrival tick of every segment (same formula as the simulated net: per direction FIFO,
    a segment leaves when the previous one has arrived)."""
    last = {}
    out = [0] * len(hist['segments'])
    order = sorted(range(len(hist['segments'])), key=lambda j: (hist['segments'][j]['t'], hist['segments'][j].get('o', 1), j))
    for j in order:
        s = hist['segments'][j]
        a = max(last.get(s['link'], -1), s['t']) + hist['lat'][s['link'].split('#')[0]]
        last[s['link']] = a
        out[j] = a
    return out


def plan_accepts(hist: dict, ri: int, seg_j: int, m: dict, arr: list) -> bool:
    """Generator-side prediction (the oracle uses the observed objects instead)."""
    r = hist['requests'][ri]
    s = hist['segments'][seg_j]

    def fields(name):
        if name == 'place':
            return 100 + m.get('uid', 0)
        v = m['f'].get(name, _MISSING)
        if name == 'ticket' and isinstance(v, dict):
            ok = v['req'] == ri and s['t'] >= r['s'] + hist['lat'][s['link'].split('#')[0]]
            return {'own': True} if ok else WRONG_TICKET
        return v
    return why_rejected(r, r['m'], s['link'], m['c'], fields) is None


def number_messages(hist: dict) -> None:
    uid = 0
    for s in hist['segments']:
        for m in s['msgs']:
            m['uid'] = uid
            uid += 1


# --------------------------------------------------------------------------
# hand-written minimal histories (lowest case numbers => they become the witnesses)

def _kind_templates() -> list[tuple[dict, dict, str]]:
    """(request without end/start, matching message, link) per kind variant."""
    t = []
    t.append((R('wait_for_server_message', 'S1', 'server', [['username', 'eq', 'ua']], 0, {}), MSG('S1', username='ua', status=1, privileged=False), 'server'))
    t.append((R('wait_for_peer_message', 'P1', 'p1', [['filename', 'eq', 'f/a.mp3']], 0, {}), MSG('P1', filename='f/a.mp3'), 'p1'))
    t.append((R('create_server_response_future', 'S3', 'server', [['username', 'c_eq', 'ub']], 0, {}), MSG('S3', username='ub', ip='1.1.1.1', port=1000), 'server'))
    t.append((R('create_peer_response_future', 'P2', 'p2', [['description', 'eq', 'da']], 0, {}), MSG('P2', description='da', upload_slots=1, queue_size=0), 'p2'))
    t.append((R('register_response_future', 'P1', 'any', [['filename', 'eq', 'f/b.mp3']], 0, {}, cc='peer', peer=None), MSG('P1', filename='f/b.mp3'), 'p2'))
    t.append((R('register_response_future', 'S4', 'server', [], 0, {}, cc='server', peer=None), MSG('S4', time_left=2), 'server'))
    for k, c in EXEC_KINDS.items():
        if c in ('S1', 'S2', 'S3'):
            arg = {'username': 'ua'}
            m = {'S1': MSG('S1', username='ua', status=2, privileged=True), 'S2': MSG('S2', username='ua'),
                 'S3': MSG('S3', username='ua', ip='2.2.2.2', port=2000)}[c]
            link = 'server'
        elif c == 'S4':
            arg, m, link = {}, MSG('S4', time_left=3), 'server'
        elif c == 'P2':
            arg, m, link = {'peer': 'p1'}, MSG('P2', description='db', upload_slots=2, queue_size=1), 'p1'
        else:
            arg, m, link = {'peer': 'p1', 'directory': 'd/r0'}, MSG('P3', ticket={'req': 0}, directory='d/r0'), 'p1'
        r = R(k, c, '', [], 0, {}, arg=arg)
        implied(r)
        t.append((r, m, link))
    r = R('request_place_in_queue', 'P1', '', [], 0, {}, arg={'peer': 'p1', 'path': 'f/a.mp3'})
    implied(r)
    t.append((r, MSG('P1', filename='f/a.mp3'), 'p1'))
    return t


def _copy(x):
    import copy
    return copy.deepcopy(x)


def systematic() -> list[dict]:
    out = []
    lat = {'server': 2, 'p1': 2, 'p2': 2}

    def add(reqs, segs, note, lat_=None, listener=None, **more):
        h = {'lat': dict(lat_ or lat), 'requests': _copy(reqs), 'segments': _copy(segs), 'note': note}
        if listener:
            h['listener'] = dict(listener)
        h.update(_copy(more))
        number_messages(h)
        out.append(h)

    templates = _kind_templates()
    for r, m, link in templates:
        place = r['k'] == 'request_place_in_queue'
        # (a) no message: a timeout must be a timeout
        ra = _copy(r)
        ra['end'] = T(PLACE_TICKS if place else 8)
        add([ra], [], 'timeout without any message')
    for r, m, link in templates:
        place = r['k'] == 'request_place_in_queue'
        # (b) one matching message well before the deadline
        rb = _copy(r)
        rb['end'] = T(PLACE_TICKS if place else 16)
        add([rb], [SEG(link, 4, m)], 'one matching reply')
        # (c) cancelled by the workload, no message
        rc = _copy(r)
        rc['end'] = C(6)
        add([rc], [], 'cancelled by the workload')
        # (d) matching message arrives exactly at the deadline (timeout timer registered first)
        rd = _copy(r)
        if place:
            rd['end'] = T(PLACE_TICKS)
            add([rd], [SEG(link, PLACE_TICKS - 2, m)], 'arrival == deadline')
        else:
            rd['end'] = T(8)
            add([rd], [SEG(link, 6, m)], 'arrival == deadline')
            # (d') latency longer than the timeout: the delivery timer is registered first
            re_ = _copy(r)
            re_['s'] = 6
            re_['end'] = T(2)
            if re_['k'] != 'execute:PeerGetDirectoryContentCommand':
                add([re_], [SEG(link, 0, m)], 'arrival == deadline, frame sent before the call',
                    {'server': 8, 'p1': 8, 'p2': 8})
        # (e) cancel at the arrival instant, three controlled orders
        for order in 'abc':
            rh = _copy(r)
            rh['end'] = CH(0, order)
            add([rh], [SEG(link, 4, m)], f'cancel at the arrival instant, order {order}')

    s1 = lambda u, st=1, pr=False: MSG('S1', username=u, status=st, privileged=pr)     # noqa
    p1m = lambda fn: MSG('P1', filename=fn)                                                # noqa
    # two waiters answered by one message
    add([R('wait_for_server_message', 'S1', 'server', [['username', 'eq', 'ua']], 0, T(16)),
         R('create_server_response_future', 'S1', 'server', [['username', 'c_eq', 'ua']], 0, T(16))],
        [SEG('server', 2, s1('ua'))], 'two waiters, one message')
    add([R('create_peer_response_future', 'P1', 'p1', [['filename', 'eq', 'f/a.mp3']], 0, T(16)),
         R('create_peer_response_future', 'P1', 'p1', [], 0, T(16)),
         R('register_response_future', 'P1', 'any', [], 0, T(16), cc='peer', peer=None)],
        [SEG('p1', 2, p1m('f/a.mp3'))], 'three waiters, one message')
    # two matching frames in one segment; a later-registered waiter answered only by the second frame
    add([R('create_server_response_future', 'S1', 'server', [['username', 'eq', 'ua']], 0, T(16))],
        [SEG('server', 2, s1('ua', 1), s1('ua', 2))], 'one waiter, two matching frames back-to-back')
    add([R('create_server_response_future', 'S1', 'server', [['username', 'eq', 'ua']], 0, T(16)),
         R('create_server_response_future', 'S1', 'server', [['username', 'eq', 'ua'], ['status', 'eq', 2]], 0, T(16), o=1)],
        [SEG('server', 2, s1('ua', 1), s1('ua', 2))], 'two frames back-to-back, second waiter answered by the second frame only')
    add([R('create_peer_response_future', 'P1', 'p1', [['filename', 'eq', 'f/a.mp3']], 0, T(16)),
         R('create_peer_response_future', 'P1', 'p1', [['filename', 'eq', 'f/a.mp3'], ['place', 'c_ge', 101]], 0, T(16), o=1)],
        [SEG('p1', 2, p1m('f/a.mp3'), p1m('f/a.mp3'))], 'peer link: two frames back-to-back, second waiter')
    add([R('create_server_response_future', 'S1', 'server', [['username', 'eq', 'ua']], 0, T(16))],
        [SEG('server', 2, s1('ua', 1)), SEG('server', 3, s1('ua', 2))], 'two matching frames in separate segments')
    # matcher order
    add([R('create_server_response_future', 'S1', 'server', [['username', 'c_eq', 'ua'], ['status', 'eq', 2]], 0, T(12))],
        [SEG('server', 2, s1('ua', 1))], '(callable, exact): second field wrong')
    add([R('create_server_response_future', 'S1', 'server', [['status', 'eq', 2], ['username', 'c_eq', 'ua']], 0, T(12))],
        [SEG('server', 2, s1('ua', 1))], '(exact, callable): first field wrong')
    add([R('wait_for_peer_message', 'P2', 'p1', [['description', 'c_in', ['da']], ['upload_slots', 'c_eq', 2]], 0, T(12))],
        [SEG('p1', 2, MSG('P2', description='da', upload_slots=0, queue_size=0))], '(callable, callable): second wrong')
    add([R('create_server_response_future', 'S1', 'server', [['username', 'eq', 'ua'], ['status', 'eq', 2]], 0, T(12))],
        [SEG('server', 2, s1('ua', 1)), SEG('server', 4, s1('ub', 2)), SEG('server', 6, s1('ua', 2))],
        '(exact, exact): only the third frame matches')
    # sources
    add([R('create_peer_response_future', 'P1', 'p1', [['filename', 'eq', 'f/a.mp3']], 0, T(12))],
        [SEG('p2', 2, p1m('f/a.mp3'))], 'right fields from the other peer')
    r = R('request_place_in_queue', 'P1', '', [], 0, T(PLACE_TICKS), arg={'peer': 'p1', 'path': 'f/a.mp3'})
    implied(r)
    add([r], [SEG('p2', 2, p1m('f/a.mp3')), SEG('p1', 6, p1m('f/b.mp3')), SEG('p1', 12, p1m('f/a.mp3'))],
        'place in queue: other peer, other file, then the reply')
    add([R('register_response_future', 'P1', 'server', [['filename', 'eq', 'f/a.mp3']], 0, T(12), cc='server', peer=None)],
        [SEG('p1', 2, p1m('f/a.mp3'))], 'server connection class, peer message')
    add([R('register_response_future', 'S1', 'p1', [['username', 'eq', 'ua']], 0, T(12), cc='peer', peer='p1')],
        [SEG('server', 2, s1('ua'))], 'peer connection class, server message')
    add([R('wait_for_server_message', 'S1', 'server', [['username', 'eq', 'ua']], 0, T(12))],
        [SEG('server', 2, MSG('S2', username='ua'), MSG('S3', username='ua', ip='1.1.1.1', port=1000))],
        'right field, other types')
    # message before the request, after the end
    add([R('create_server_response_future', 'S4', 'server', [], 6, T(8))],
        [SEG('server', 0, MSG('S4', time_left=1)), SEG('server', 20, MSG('S4', time_left=2))],
        'matching frames before the call and after the deadline')

    # -- handlers / listeners that really suspend while waiters end (>= 2 waiters for one message) --------------
    chat = lambda u='ua', t='hi': MSG('S5', username=u, message=t)                     # noqa
    two = lambda end0, k0='create_server_response_future', k1='wait_for_server_message': [   # noqa
        R(k0, 'S5', 'server', [['username', 'eq', 'ua']], 0, end0, o=0),
        R(k1, 'S5', 'server', [], 0, T(24), o=1)]
    for hops in range(0, 9):
        add(two(CH(0, hops)), [SEG('server', 2, chat())],
            f'private message (handler acks through gather): first waiter cancelled {hops} loop iterations after arrival')
    for hops in (2, 3, 4):
        add(two(CH(0, hops), 'wait_for_server_message', 'create_server_response_future'), [SEG('server', 2, chat())],
            f'private message: first waiter is a wait_for_server_message task cancelled {hops} iterations after arrival')
    add(two(T(4)), [SEG('server', 2, chat())], 'private message: deadline of the first waiter == arrival')
    for cls, link, m, k0, k1, src in (
            ('S1', 'server', MSG('S1', username='ua', status=1, privileged=False), 'create_server_response_future',
             'wait_for_server_message', 'server'),
            ('P1', 'p1', MSG('P1', filename='f/a.mp3'), 'create_peer_response_future', 'wait_for_peer_message', 'p1'),
            ('P4', 'p1', MSG('P4', filename='nf/a.mp3'), 'wait_for_peer_message', 'create_peer_response_future', 'p1')):
        for hops in (1, 2, 4, 6):
            add([R(k0, cls, src, [], 0, CH(0, hops), o=0), R(k1, cls, src, [], 0, T(24), o=1),
                 R('register_response_future', cls, src if src == 'server' else 'any', [], 1, T(24), o=2,
                   cc='server' if src == 'server' else 'peer', peer=None)],
                [SEG(link, 2, m)], f'application listener suspends 5 iterations: first waiter cancelled {hops} iterations after arrival',
                listener={'c': [cls], 'yields': 5})
        # virtual-time suspension: the library timeout / a cancel lands inside it
        add([R(k1, cls, src, [], 0, T(5), o=0), R(k0, cls, src, [], 0, T(24), o=1)],
            [SEG(link, 2, m)], 'application listener suspends 2 ticks: deadline of the first waiter inside the suspension',
            listener={'c': [cls], 'ticks': 2})
        add([R(k0, cls, src, [], 0, C(5), o=0), R(k1, cls, src, [], 0, T(24), o=1)],
            [SEG(link, 2, m)], 'application listener suspends 2 ticks: first waiter cancelled inside the suspension',
            listener={'c': [cls], 'ticks': 2})

    # -- a reply processed right after the call started (zero latency, swept by zero-time yields) ----------------
    zero = {'server': 0, 'p1': 0, 'p2': 0}
    for k, c in EXEC_KINDS.items():
        if c == 'P3':
            continue
        if c in ('S1', 'S2', 'S3'):
            arg = {'username': 'ua'}
            m = {'S1': MSG('S1', username='ua', status=2, privileged=True), 'S2': MSG('S2', username='ua'),
                 'S3': MSG('S3', username='ua', ip='2.2.2.2', port=2000)}[c]
            link = 'server'
        elif c == 'S4':
            arg, m, link = {}, MSG('S4', time_left=3), 'server'
        else:
            arg, m, link = {'peer': 'p1'}, MSG('P2', description='db', upload_slots=2, queue_size=1), 'p1'
        sweep = range(0, 9) if c in ('S1', 'P2') else (1, 2, 3, 4)
        for ys in sweep:
            r = R(k, c, '', [], 1, T(8), arg=arg, y=0)
            implied(r)
            sg = SEG(link, 1, m)
            sg['y'] = ys
            add([r], [sg], f'zero latency: reply written {ys} zero-time yields after the call was started', zero)
        for yr in (1, 2, 3):
            r = R(k, c, '', [], 1, T(8), arg=arg, y=yr)
            implied(r)
            sg = SEG(link, 1, m)
            sg['y'] = 0
            add([r], [sg], f'zero latency: reply written {yr} zero-time yields before the call was started', zero)

    # -- the loop is busy across [arrival, deadline] (w.loop.stall) --------------------------------------------------
    for r, m, link in templates:
        if r['k'] == 'execute:PeerGetDirectoryContentCommand':
            continue
        place = r['k'] == 'request_place_in_queue'
        tt = PLACE_TICKS if place else 8
        # arrival one tick before the deadline; the delivery callback itself takes 20/1024 s (> 1 tick)
        ra = _copy(r)
        ra['end'] = T(tt)
        add([ra], [SEG(link, tt - 3, m)], 'slow delivery callback: reply processed first, overdue timeout right behind it',
            stalls=[{'seg': 0, 'hops': 0, 'n1024': 20}])
        # a harness callback one tick before the arrival takes 40/1024 s: arrival (D-1) and deadline inside the stall
        add([ra], [SEG(link, tt - 3, m)], 'busy loop across arrival (deadline - 1 tick) and deadline',
            stalls=[{'t': tt - 2, 'n1024': 40}])
        # the same with the arrival one tick after the deadline
        add([ra], [SEG(link, tt - 1, m)], 'busy loop across deadline and arrival (deadline + 1 tick)',
            stalls=[{'t': tt - 1, 'n1024': 40}])

    # -- the peer's P link goes away while requests to that peer are pending ----------------------------------------
    peer_templates = [(r, m, link) for r, m, link in templates if link in ('p1', 'p2') and r['src'] == link]
    for r, m, pl in peer_templates:
        place = r['k'] == 'request_place_in_queue'
        pgdc = r['k'] == 'execute:PeerGetDirectoryContentCommand'
        rr = _copy(r)
        rr['end'] = T(PLACE_TICKS if place else 24)
        for mode in ('eof', 'rst', 'local'):
            add([rr], [], f'only P link of the peer closed ({mode}) while pending, no reply: timeout at the deadline',
                closes=[{'link': pl, 't': 6, 'mode': mode}])
        add([rr], [SEG(pl + '#r', 14, m)], 'only P link closed (eof), the peer connects again and replies in time',
            closes=[{'link': pl, 't': 6, 'mode': 'eof'}], dials=[{'link': pl + '#r', 't': 9}])
        add([rr], [SEG(pl + '#2', 12, m)], 'one of two P links closed (rst), reply over the other one',
            closes=[{'link': pl, 't': 6, 'mode': 'rst'}], extra_links=[pl + '#2'])
        if not pgdc:
            add([rr], [SEG(pl + '#r', 14, m)], 'both P links closed one after the other (the second is the last established), '
                'the peer connects again and replies in time',
                closes=[{'link': pl + '#2', 't': 5, 'mode': 'eof'}, {'link': pl, 't': 7, 'mode': 'eof'}],
                dials=[{'link': pl + '#r', 't': 10}], extra_links=[pl + '#2'])
    return out


# --------------------------------------------------------------------------
# random histories

def _gen_matchers(rng: random.Random, c: str) -> list:
    dom = [(f, d) for f, d in CLASSES[c][1]]
    n = rng.choice((0, 1, 1, 1, 2, 2, 2))
    n = min(n, len(dom))
    picked = rng.sample(dom, n)
    out = []
    for f, d in picked:
        if f == 'place':
            out.append([f, rng.choice(('c_ge', 'c_ne')), 100 + rng.randrange(0, 6)])
            continue
        op = rng.choice(('eq', 'eq', 'eq', 'c_eq', 'c_eq', 'c_ne', 'c_in'))
        if op == 'c_in':
            out.append([f, op, rng.sample(list(d), rng.randrange(1, len(d) + 1 if len(d) < 3 else len(d)))])
        else:
            out.append([f, op, rng.choice(d)])
    if n == 2 and rng.random() < 0.35:          # steer towards (callable, exact)
        if out[0][0] != 'place':
            out[0][1] = 'c_eq' if out[0][1] == 'eq' else out[0][1]
        if out[1][0] != 'place' and out[1][1] != 'eq':
            out[1] = [out[1][0], 'eq', rng.choice(dict(dom)[out[1][0]])]
    return out


def _gen_request(rng: random.Random, ri: int, focus: list) -> dict:
    k = rng.choice(ALL_KINDS + ('wait_for_server_message', 'wait_for_peer_message', 'create_server_response_future',
                                'create_peer_response_future'))
    s = rng.choice((0, 0, 0, 1, 2, 3, 4, 6, 8))
    fs = [c for c in focus if c[0] == 'S'] or ['S1']
    fp = [c for c in focus if c[0] == 'P'] or ['P1']
    if k in EXEC_KINDS:
        c = EXEC_KINDS[k]
        if c in ('S1', 'S2', 'S3'):
            arg = {'username': rng.choice(USERS[:2])}
        elif c == 'S4':
            arg = {}
        elif c == 'P2':
            arg = {'peer': rng.choice(('p1', 'p1', 'p2'))}
        else:
            arg = {'peer': rng.choice(('p1', 'p1', 'p2')), 'directory': f'd/r{ri}'}
        r = R(k, c, '', [], s, {}, arg=arg)
        implied(r)
        return r
    if k == 'request_place_in_queue':
        r = R(k, 'P1', '', [], s, {}, arg={'peer': rng.choice(('p1', 'p1', 'p2')), 'path': rng.choice(PATHS)})
        implied(r)
        return r
    if k in ('wait_for_server_message', 'create_server_response_future'):
        c = rng.choice(fs + fs + ['S1', 'S2', 'S3', 'S4', 'S5'])
        return R(k, c, 'server', _gen_matchers(rng, c), s, {})
    if k in ('wait_for_peer_message', 'create_peer_response_future'):
        c = rng.choice(fp + fp + ['P1', 'P2', 'P3', 'P4', 'P5'])
        return R(k, c, rng.choice(('p1', 'p1', 'p2')), _gen_matchers(rng, c), s, {})
    # register_response_future
    v = rng.choice(('server', 'peer', 'peer', 'anypeer', 'anypeer', 'mis-server', 'mis-peer'))
    if v == 'server':
        c = rng.choice(fs + ['S1', 'S4'])
        return R(k, c, 'server', _gen_matchers(rng, c), s, {}, cc='server', peer=None)
    if v == 'peer':
        c = rng.choice(fp + ['P1', 'P2'])
        p = rng.choice(('p1', 'p2'))
        return R(k, c, p, _gen_matchers(rng, c), s, {}, cc='peer', peer=p)
    if v == 'anypeer':
        c = rng.choice(fp + ['P1', 'P2'])
        return R(k, c, 'any', _gen_matchers(rng, c), s, {}, cc='peer', peer=None)
    if v == 'mis-server':
        c = rng.choice(fp + ['P1'])
        return R(k, c, 'server', _gen_matchers(rng, c), s, {}, cc='server', peer=None)
    c = rng.choice(fs + ['S1'])
    p = rng.choice(('p1', 'p2'))
    return R(k, c, p, _gen_matchers(rng, c), s, {}, cc='peer', peer=p)


def _field_values(rng: random.Random, c: str, r: Optional[dict], ri: int, wrong: Optional[int]) -> dict:
    """Field values for a message of class c; satisfy request r's matchers except matcher index ``wrong``."""
    f = {}
    ms = {m[0]: (i, m) for i, m in enumerate(r['m'])} if r is not None and r['c'] == c else {}
    for fname, dom in CLASSES[c][1]:
        if fname == 'place':
            continue
        if fname == 'directory' and r is not None and r['k'] == 'execute:PeerGetDirectoryContentCommand':
            dom = (r['arg']['directory'],) + tuple(DIRS)
        if fname == 'ticket' and r is not None and r['k'] == 'execute:PeerGetDirectoryContentCommand':
            i, _ = ms['ticket']
            f[fname] = WRONG_TICKET if wrong == i else {'req': ri}
            continue
        if fname in ms:
            i, (_, op, value) = ms[fname]
            good = [v for v in dom if op_accepts(op, value, v)]
            bad = [v for v in dom if not op_accepts(op, value, v)]
            pool = bad if (wrong == i and bad) else (good or list(dom))
            f[fname] = rng.choice(pool)
        else:
            f[fname] = rng.choice(dom)
    return f


_WAITER_KINDS = {'server': ('wait_for_server_message', 'create_server_response_future', 'register_response_future'),
                 'peer': ('wait_for_peer_message', 'create_peer_response_future', 'register_response_future')}


def _waiter(rng: random.Random, c: str, link: str, m: dict, s: int, o: int) -> dict:
    """A waiter (not execute / place) that message m from ``link`` answers."""
    fam = CLASSES[c][0]
    k = rng.choice(_WAITER_KINDS[fam])
    ms = []
    fields = [f for f, _ in CLASSES[c][1] if f != 'place']
    if fields and rng.random() < 0.6:
        f = rng.choice(fields)
        ms.append([f, rng.choice(('eq', 'eq', 'c_eq')), m['f'][f]])
    if k == 'register_response_future':
        if fam == 'server':
            return R(k, c, 'server', ms, s, {}, o=o, cc='server', peer=None)
        anyp = rng.random() < 0.5
        return R(k, c, 'any' if anyp else link, ms, s, {}, o=o, cc='peer', peer=None if anyp else link)
    return R(k, c, 'server' if fam == 'server' else link, ms, s, {}, o=o)


def gen_suspended(rng: random.Random) -> dict:
    """2-3 waiters answered by one message whose handling really suspends; one of the earlier-registered waiters
    ends (cancel / library timeout) at the arrival instant plus 0..8 loop iterations, or inside a virtual-time
    suspension."""
    lat = {'server': rng.choice((2, 4)), 'p1': rng.choice((2, 4)), 'p2': rng.choice((2, 3))}
    mode = rng.choice(('chat', 'chat', 'yields', 'yields', 'ticks'))
    c = 'S5' if mode == 'chat' else rng.choice(('S1', 'S3', 'S4', 'S5', 'P1', 'P2', 'P4', 'P5'))
    fam = CLASSES[c][0]
    link = 'server' if fam == 'server' else rng.choice(('p1', 'p2'))
    m = {'c': c, 'f': _field_values(rng, c, None, -1, None)}
    hist: dict = {'lat': lat, 'requests': [], 'segments': [], 'family': 'suspended'}
    d = 0
    if mode == 'yields':
        hist['listener'] = {'c': [c], 'yields': rng.randrange(1, 7)}
    elif mode == 'ticks':
        d = rng.choice((1, 2, 3))
        hist['listener'] = {'c': [c], 'ticks': d, 'yields': rng.choice((0, 0, 2))}
    n = rng.choice((2, 2, 3))
    t_send = rng.choice((1, 2, 3))
    a = t_send + lat[link]
    reqs = [_waiter(rng, c, link, m, rng.choice((0, 0, 1)) if i else 0, i) for i in range(n)]
    ender = rng.choice((0, 0, 0, 1)) if n > 2 else 0          # not the last one: somebody must be left behind it
    for i, r in enumerate(reqs):
        if i != ender:
            r['end'] = T(a + 16 + 4 * d - r['s'])
            continue
        how = rng.choice(('hook', 'hook', 'hook', 'timeout', 'timer'))
        if d and how == 'hook' and rng.random() < 0.6:
            how = rng.choice(('timeout', 'timer'))
        if how == 'hook':
            r['end'] = CH(0, rng.randrange(0, 9))
        elif how == 'timeout':
            r['end'] = T(a + (rng.randrange(0, d + 1) if d else 0) - r['s'])
        else:
            r['end'] = C(a + (rng.randrange(0, d + 1) if d else 0))
            r['end']['y'] = rng.randrange(0, 5)
    hist['requests'] = reqs
    segs = [{'link': link, 't': t_send, 'msgs': [m], 'o': 1}]
    if rng.random() < 0.35:                                    # a second chance for whoever was skipped
        segs.append({'link': link, 't': t_send + rng.choice((1, 4, 6)), 'msgs': [_copy(m)], 'o': 1})
    if rng.random() < 0.3:
        c2 = rng.choice(tuple(CLASSES))
        segs.append({'link': 'server' if CLASSES[c2][0] == 'server' else rng.choice(('p1', 'p2')),
                     't': rng.randrange(0, a + 4), 'msgs': [{'c': c2, 'f': _field_values(rng, c2, None, -1, None)}], 'o': 0})
    hist['segments'] = segs
    number_messages(hist)
    return hist


def gen_callrace(rng: random.Random) -> dict:
    """Zero latency: a matching reply is written 0..8 zero-time yields before / after the call is started at the
    same virtual instant, so that it is processed while the call is still sending its request."""
    lat = {'server': 0, 'p1': 0, 'p2': 0}
    k = rng.choice(tuple(x for x in EXEC_KINDS if x != 'execute:PeerGetDirectoryContentCommand') * 3 + (
        'wait_for_server_message', 'create_peer_response_future', 'request_place_in_queue'))
    s = rng.choice((1, 2))
    if k in EXEC_KINDS:
        c = EXEC_KINDS[k]
        if c in ('S1', 'S2', 'S3'):
            arg = {'username': rng.choice(USERS[:2])}
        elif c == 'S4':
            arg = {}
        else:
            arg = {'peer': rng.choice(('p1', 'p2'))}
        r = R(k, c, '', [], s, {}, arg=arg)
        implied(r)
    elif k == 'request_place_in_queue':
        r = R(k, 'P1', '', [], s, {}, arg={'peer': rng.choice(('p1', 'p2')), 'path': rng.choice(PATHS)})
        implied(r)
    else:
        c = 'S1' if k == 'wait_for_server_message' else 'P2'
        r = R(k, c, 'server' if c == 'S1' else rng.choice(('p1', 'p2')), _gen_matchers(rng, c)[:1], s, {})
    r['end'] = T(PLACE_TICKS) if k == 'request_place_in_queue' else T(rng.choice((4, 8)))
    r['y'] = rng.choice((0, 0, 0, 1, 2, 3, 4))
    r['o'] = 1
    reqs = [r]
    m = {'c': r['c'], 'f': _field_values(rng, r['c'], r, 0, None)}
    link = r['src'] if r['src'] in ('p1', 'p2') else ('server' if r['src'] == 'server' else 'p1')
    seg = {'link': link, 't': s, 'msgs': [m], 'o': rng.choice((0, 2)), 'y': rng.randrange(0, 9)}
    segs = [seg]
    if rng.random() < 0.4:                       # a plain waiter with the same expectation, started together
        w2 = R('create_server_response_future' if CLASSES[r['c']][0] == 'server' else 'create_peer_response_future',
               r['c'], r['src'], [list(x) for x in r['m']], s, T(8), o=rng.choice((0, 2)), y=r['y'])
        reqs.append(w2)
    if rng.random() < 0.3:                       # the same reply again, one tick later
        segs.append({'link': link, 't': s + 1, 'msgs': [_copy(m)], 'o': 1})
    if rng.random() < 0.3:
        mm = {'c': r['c'], 'f': _field_values(rng, r['c'], r, 0, 0 if r['m'] else None)}
        seg['msgs'].insert(rng.randrange(0, 2), mm)
    hist = {'lat': lat, 'requests': reqs, 'segments': segs, 'family': 'callrace'}
    number_messages(hist)
    return hist


def _any_request(rng: random.Random, ri: int, peer_only: Optional[str] = None) -> tuple[dict, dict, str]:
    """(request without end, a message answering it, link) over all request kinds."""
    for _ in range(50):
        r = _gen_request(rng, ri, ['S1', 'P1'])
        if r['k'] == 'register_response_future' and ((r['cc'] == 'server') != (CLASSES[r['c']][0] == 'server')):
            continue                                   # the mismatch variants can never be answered
        if peer_only and r['src'] != peer_only:
            continue
        break
    else:
        r = R('create_peer_response_future', 'P1', peer_only or 'p1', [], 0, {})
    m = {'c': r['c'], 'f': _field_values(rng, r['c'], r, ri, None)}
    link = 'server' if r['src'] == 'server' else (r['src'] if r['src'] in ('p1', 'p2') else rng.choice(('p1', 'p2')))
    return r, m, link


def gen_stall(rng: random.Random) -> dict:
    """The loop is busy (w.loop.stall) across the arrival of the reply and/or the deadline of the request, the reply
    arriving one tick before / at / one tick after the deadline; from the delivery callback (+ hops) or from a harness
    timer shortly before."""
    lat = {'server': rng.choice((2, 4)), 'p1': rng.choice((2, 3)), 'p2': rng.choice((2, 4))}
    r, m, link = _any_request(rng, 0)
    r['s'] = rng.choice((0, 1))
    place = r['k'] == 'request_place_in_queue'
    tt = PLACE_TICKS if place else rng.choice((6, 8, 12))
    r['end'] = T(tt)
    dl = r['s'] + tt
    delta = rng.choice((-1, -1, -1, 0, 1, 1))
    a = dl + delta
    hist: dict = {'lat': lat, 'requests': [r], 'segments': [{'link': link, 't': a - lat[link], 'msgs': [m], 'o': 1}],
                  'family': 'stall'}
    if r['k'] == 'execute:PeerGetDirectoryContentCommand':
        m['f']['ticket'] = {'req': 0}
    if rng.random() < 0.55:
        hist['stalls'] = [{'seg': 0, 'hops': rng.choice((0, 0, 0, 1, 2)), 'n1024': rng.choice((4, 12, 16, 20, 20, 32))}]
    else:
        hist['stalls'] = [{'t': min(a, dl) - rng.choice((0, 1, 1)), 'n1024': rng.choice((12, 20, 32, 40, 40, 48))}]
    if rng.random() < 0.35:                      # a second waiter for the same reply with a later deadline
        w2 = _copy(r)
        if w2['k'] == 'execute:PeerGetDirectoryContentCommand':
            w2 = R('create_peer_response_future', 'P3', r['src'], [['directory', 'eq', r['arg']['directory']]], 0, {})
        w2['end'] = T(tt + rng.choice((2, 8))) if w2['k'] != 'request_place_in_queue' else T(PLACE_TICKS)
        w2['o'] = rng.choice((0, 2))
        hist['requests'].append(w2)
    if rng.random() < 0.3:                       # the reply once more, later
        hist['segments'].append({'link': link, 't': a - lat[link] + rng.choice((2, 4)), 'msgs': [_copy(m)], 'o': 1})
    number_messages(hist)
    return hist


def gen_linkloss(rng: random.Random) -> dict:
    """Requests to a peer are pending while that peer's P link is closed (EOF / RST from the peer, or disconnected by
    the client), with or without a second P link, with or without the peer connecting again and replying."""
    lat = {'server': 2, 'p1': rng.choice((2, 3)), 'p2': rng.choice((2, 3))}
    pn = rng.choice(('p1', 'p2'))
    extra = rng.random() < 0.45
    n = rng.choice((1, 2, 2, 3))
    reqs, msgs = [], []
    for ri in range(n):
        r, m, link = _any_request(rng, ri, peer_only=pn if (ri == 0 or rng.random() < 0.75) else None)
        r['s'] = rng.choice((0, 0, 1))
        r['o'] = ri
        place = r['k'] == 'request_place_in_queue'
        r['end'] = T(PLACE_TICKS if place else rng.choice((16, 20, 28)))
        reqs.append(r)
        msgs.append((m, link))
    tc = rng.choice((5, 6, 7))
    mode = rng.choice(('eof', 'eof', 'rst', 'local'))
    hist: dict = {'lat': lat, 'requests': reqs, 'segments': [], 'family': 'linkloss',
                  'closes': [{'link': pn, 't': tc, 'mode': mode, 'o': rng.choice((0, 2))}]}
    live_after = []
    if extra:
        hist['extra_links'] = [pn + '#2']
        if rng.random() < 0.4:                   # the second one goes too: now the last established one is gone
            t2 = tc + rng.choice((-2, 2))
            hist['closes'].append({'link': pn + '#2', 't': t2, 'mode': rng.choice(('eof', 'rst')), 'o': 1})
        else:
            live_after.append((pn + '#2', 0))
    if rng.random() < 0.55:
        tr = max(c['t'] for c in hist['closes']) + rng.choice((1, 3, 6))
        hist['dials'] = [{'link': pn + '#r', 't': tr}]
        live_after.append((pn + '#r', tr + 1 + lat[pn] + 1))
    t_last_close = max(c['t'] for c in hist['closes'])
    t_first_close = min(c['t'] for c in hist['closes'])
    for ri, ((m, link), r) in enumerate(zip(msgs, reqs)):
        if r['k'] == 'execute:PeerGetDirectoryContentCommand':
            m['f']['ticket'] = {'req': ri}
        how = rng.choice(('after', 'after', 'after', 'before', 'none', 'late'))
        if link != pn:
            hist['segments'].append({'link': link, 't': rng.randrange(2, 14), 'msgs': [m], 'o': 1})
            continue
        if how == 'before':
            hist['segments'].append({'link': pn, 't': max(r['s'], t_first_close - rng.choice((1, 2, 3))), 'msgs': [m], 'o': 0})
        elif how in ('after', 'late') and live_after:
            lk, tmin = rng.choice(live_after)
            t = max(tmin, t_last_close + 1) + rng.choice((0, 1, 3))
            if how == 'late' and r['k'] != 'request_place_in_queue':
                t = max(t, r['s'] + r['end']['ticks'] + rng.choice((0, 1, 2)))
            hist['segments'].append({'link': lk, 't': t, 'msgs': [m], 'o': 1})
    if rng.random() < 0.3:
        c2 = rng.choice(('S1', 'S4'))
        hist['segments'].append({'link': 'server', 't': rng.randrange(0, 12),
                                 'msgs': [{'c': c2, 'f': _field_values(rng, c2, None, -1, None)}], 'o': 0})
    number_messages(hist)
    return hist


def gen_history(seed: int, idx: int) -> dict:
    rng = random.Random(f'{seed}:{ID}:{idx}')
    fam = idx % 17
    if fam in (0, 1, 2):
        return gen_suspended(rng)
    if fam in (3, 4):
        return gen_callrace(rng)
    if fam in (5, 6):
        return gen_stall(rng)
    if fam in (7, 8):
        return gen_linkloss(rng)
    lat = {'server': rng.choice((2, 2, 4, 8)), 'p1': rng.choice((2, 2, 3, 8)), 'p2': rng.choice((2, 4, 8))}
    nreq = rng.choice((1, 2, 2, 3, 3, 4, 4))
    focus = rng.sample(['S1', 'S1', 'S3', 'S4', 'P1', 'P1', 'P2', 'P3'], 2)
    reqs = []
    for ri in range(nreq):
        if reqs and rng.random() < 0.3:           # a second request with the same expectation
            r = _copy(rng.choice(reqs))
            if r['k'] == 'execute:PeerGetDirectoryContentCommand':
                r['arg']['directory'] = f'd/r{ri}'
                implied(r)
            r['s'] = rng.choice((r['s'], r['s'], r['s'] + 1, 0))
            r['end'] = {}
        else:
            r = _gen_request(rng, ri, focus)
        r['o'] = rng.randrange(0, 3)
        reqs.append(r)
    hist = {'lat': lat, 'requests': reqs, 'segments': []}

    nmsg = rng.choice((1, 2, 2, 3, 3, 4, 5, 6, 7, 8))
    t = rng.choice((0, 0, 1, 2, 4))
    segs: list[dict] = []
    last_on_link: dict[str, dict] = {}
    for _ in range(nmsg):
        ri = rng.randrange(nreq) if rng.random() < 0.88 else None
        r = reqs[ri] if ri is not None else None
        rel = rng.choice(('match', 'match', 'match', 'match', 'wrong-last', 'wrong-last', 'wrong-first', 'other-source',
                          'other-type', 'unrelated'))
        if r is None or rel == 'unrelated':
            c = rng.choice(tuple(CLASSES))
            link = 'server' if CLASSES[c][0] == 'server' else rng.choice(('p1', 'p2'))
            m = {'c': c, 'f': _field_values(rng, c, None, -1, None)}
        else:
            c = r['c']
            fam = CLASSES[c][0]
            wrong = None
            if rel == 'wrong-last' and r['m']:
                wrong = len(r['m']) - 1
            elif rel == 'wrong-first' and r['m']:
                wrong = 0
            if rel == 'other-type':
                c = rng.choice([x for x in CLASSES if CLASSES[x][0] == fam and x != c])
                m = {'c': c, 'f': _field_values(rng, c, None, -1, None)}
                if 'username' in m['f'] and r['m'] and r['m'][0][0] == 'username' and r['m'][0][1] == 'eq':
                    m['f']['username'] = r['m'][0][2]
            else:
                m = {'c': c, 'f': _field_values(rng, c, r, ri, wrong)}
            if fam == 'server':
                link = 'server'
            else:
                want = r['src'] if r['src'] in ('p1', 'p2') else rng.choice(('p1', 'p2'))
                if r['src'] == 'server':          # mis-server variant: a peer sends it
                    want = rng.choice(('p1', 'p2'))
                link = want
                if rel == 'other-source' and r['src'] in ('p1', 'p2'):
                    link = 'p2' if want == 'p1' else 'p1'
        prev = last_on_link.get(link)
        if prev is not None and len(prev['msgs']) < 4 and rng.random() < 0.45:
            prev['msgs'].append(m)               # same write => same segment => back-to-back
        else:
            t += rng.choice((0, 0, 1, 1, 2, 3, 5))
            s = {'link': link, 't': t, 'msgs': [m], 'o': rng.randrange(0, 3)}
            segs.append(s)
            last_on_link[link] = s
    hist['segments'] = segs
    number_messages(hist)

    # ends, placed relative to the first matching arrival
    def first_match(ri):
        arr = arrivals(hist)
        best = None
        for j, s in enumerate(hist['segments']):
            if arr[j] <= hist['requests'][ri]['s']:
                continue
            if any(plan_accepts(hist, ri, j, m, arr) for m in s['msgs']):
                if best is None or arr[j] < arr[best]:
                    best = j
        return best, arr

    for ri, r in enumerate(reqs):
        j, arr = first_match(ri)
        place = r['k'] == 'request_place_in_queue'
        use_cancel = rng.random() < (0.2 if place else 0.3)
        rel = rng.choice(('before', 'at', 'at', 'after', 'after'))
        if place and not use_cancel:
            r['end'] = T(PLACE_TICKS)
            if rng.random() < 0.3:                # a reply around the 15 s deadline
                lt = lat[r['arg']['peer']]
                d = rng.choice((-1, 0, 0, 1))
                m = {'c': 'P1', 'f': {'filename': r['arg']['path']}}
                hist['segments'].append({'link': r['arg']['peer'], 't': r['s'] + PLACE_TICKS + d - lt, 'msgs': [m],
                                         'o': rng.randrange(0, 3)})
                number_messages(hist)
            continue
        if j is None:
            end = r['s'] + rng.choice((1, 2, 4, 8, 12, 20))
            r['end'] = C(max(end, r['s'] + 1)) if use_cancel else T(max(1, end - r['s']))
            continue
        a = arr[j]
        if rel == 'before':
            end = a - rng.choice((1, 1, 2, 4))
            if end <= r['s']:
                rel, end = 'at', a
        elif rel == 'after':
            end = a + rng.choice((1, 1, 2, 4, 16))
        else:
            end = a
        if use_cancel:
            if rel == 'at' and rng.random() < 0.8:
                r['end'] = CH(j, rng.choice('abbc'))
            else:
                r['end'] = C(end)
        else:
            r['end'] = T(end - r['s'])
    return hist


# --------------------------------------------------------------------------
# library-internal pending request: the upload negotiation (PeerTransferRequest -> PeerTransferReply by ticket)

N_UPLOAD = {'quick': 170, 'thorough': 20000}
REPLY_TIMEOUT_S = 30.0             # documented in constants (TRANSFER_REPLY_TIMEOUT); pinned here on purpose
UNKNOWN_TICKET = 900001


def upload_systematic() -> list[dict]:
    out = []

    def add(note, silent, stale, final, lat=2):
        out.append({'lat': lat, 'silent': silent, 'stale': stale, 'final': final, 'note': note})
    add('plain negotiation, allowed', 0, [], {'act': 'allow', 'delay': 4})
    add('plain negotiation, rejected', 0, [], {'act': 'reject', 'delay': 4})
    add('no reply at all: back to the queue at the deadline', 0, [], {'act': 'none'})
    for allowed in (False, True):
        add(f'first negotiation times out; late reply (allowed={allowed}) for the FIRST ticket during the second one',
            1, [{'during': 2, 'ticket_of': 1, 'allowed': allowed, 'delay': 64}], {'act': 'allow', 'delay': 192})
        add(f'late reply (allowed={allowed}) for the first ticket, then the second negotiation is rejected',
            1, [{'during': 2, 'ticket_of': 1, 'allowed': allowed, 'delay': 8}], {'act': 'reject', 'delay': 128})
        add(f'late reply (allowed={allowed}) for the first ticket, the second negotiation gets no reply',
            1, [{'during': 2, 'ticket_of': 1, 'allowed': allowed, 'delay': 64}], {'act': 'none'})
        add(f'reply (allowed={allowed}) with a ticket that was never issued', 0,
            [{'during': 1, 'ticket_of': 'unknown', 'allowed': allowed, 'delay': 16}], {'act': 'allow', 'delay': 96})
    add('two timeouts, late replies for both earlier tickets during the third negotiation', 2,
        [{'during': 3, 'ticket_of': 1, 'allowed': False, 'delay': 16}, {'during': 3, 'ticket_of': 2, 'allowed': False, 'delay': 48}],
        {'act': 'allow', 'delay': 128})
    return out


def gen_upload(seed: int, idx: int) -> dict:
    rng = random.Random(f'{seed}:{ID}:upl:{idx}')
    silent = rng.choice((0, 1, 1, 1, 1, 2))
    stale = []
    n_att = silent + 1
    for _ in range(rng.choice((0, 1, 1, 1, 2, 2))):
        during = rng.randrange(1, n_att + 1)
        earlier = list(range(1, during))
        tk = rng.choice(earlier + earlier + ['unknown']) if earlier else 'unknown'
        stale.append({'during': during, 'ticket_of': tk, 'allowed': rng.random() < 0.5,
                      'delay': rng.choice((0, 1, 4, 16, 64, 256, 640, 1280))})
    last = max([st['delay'] for st in stale if st['during'] == n_att] + [0])
    final = {'act': rng.choice(('allow', 'allow', 'reject', 'reject', 'none'))}
    if final['act'] != 'none':
        final['delay'] = last + rng.choice((1, 8, 64, 256))
    return {'lat': rng.choice((2, 3, 4)), 'silent': silent, 'stale': stale, 'final': final,
            'second_file': rng.random() < 0.3}


def cases(tier: str, seed: int) -> list[dict]:
    out = [{'mode': 'sys', 'hist': h} for h in systematic()]
    out += [{'mode': 'upl', 'plan': pl} for pl in upload_systematic()]
    for i in range(N_RANDOM[tier]):
        out.append({'mode': 'rand', 'seed': seed, 'idx': i})
    for i in range(N_UPLOAD[tier]):
        out.append({'mode': 'upl', 'seed': seed, 'idx': i})
    return out


def expand(params: dict) -> dict:
    if 'hist' in params:
        return _copy(params['hist'])
    return gen_history(params['seed'], params['idx'])


# --------------------------------------------------------------------------
# the reference model: one request against the observed event sequence

def judge(r: dict, matchers: list, rec: dict, events: list, stalls=()) -> dict:
    """Allowed outcomes of one request.

    events: [{'t','seq','t_done','seq_done','src','ckey','msg'}]: 't'/'seq' = instant / order number at which the
    first MessageReceivedEvent listener saw the message, 't_done'/'seq_done' = when the last listener returned (the
    library completes waiters right after it).  Order numbers come from one counter that is also read when the
    harness task is about to make the call ('seq_call').

    * registered(e): the call started before the message was seen (seq_call < e.seq) — every kind used here registers
      its waiter synchronously at the call, before its first suspension, except request_place_in_queue which sends
      first: there additionally e.t > t_call is required.
    * alive(e): the request's end instant is strictly later than e.t_done.
    * registered and alive  => the message MUST complete the request (if an earlier one has not).
    * physically impossible (call started after e.seq_done, or ended before e.t) => must not.
    * anything else => may (both outcomes accepted).
    * stalls [(a, b)]: the loop was busy from a to b (w.loop.stall): an end instant inside [a, b] takes effect at b
      at the earliest, together with everything else that came due meanwhile => it is moved to b before comparing
      (a message seen at b and an end that came due during the stall are then 'may').
    """
    t0, q0 = rec['t_call'], rec['seq_call']
    end = r['end']
    place = r['k'] == 'request_place_in_queue'
    deadline = None
    if end['type'] == 'T':
        deadline = t0 + end['ticks']
    elif place:
        deadline = t0 + PLACE_TICKS              # the 15 s wait is not a parameter
    t_end = deadline if deadline is not None else float('inf')
    if end['type'] == 'C' and rec.get('t_cancel') is not None:
        t_end = min(t_end, rec['t_cancel'])
    t_end_due = t_end
    for a, b in stalls:
        if a <= t_end <= b:
            t_end = b
    matching = []
    for i, e in enumerate(events):
        msg = e['msg']
        if why_rejected(r, matchers, e['src'], e['ckey'], lambda n, msg=msg: getattr(msg, n, _MISSING)) is None:
            matching.append(i)
    matching.sort(key=lambda i: events[i]['seq_done'])        # the order in which waiters are completed
    status = {}
    for i in matching:
        e = events[i]
        registered = q0 < e['seq'] and (not place or e['t'] > t0)
        if q0 > e['seq_done'] or t0 > e['t_done'] or t_end < e['t']:
            status[i] = 'no'
        elif registered and t_end > e['t_done']:
            status[i] = 'must'
        else:
            status[i] = 'may'
    allowed, first_must = [], None
    for i in matching:
        if status[i] == 'must':
            allowed.append(i)
            first_must = i
            break
        if status[i] == 'may':
            allowed.append(i)
    registered_at = {i: (q0 < events[i]['seq'] and (not place or events[i]['t'] > t0)) for i in matching}
    return {'t_end': t_end, 't_end_due': t_end_due, 'deadline': deadline, 'matching': matching, 'status': status,
            'allowed_values': allowed,
            'end_allowed': first_must is None, 'first_definite': first_must, 'registered_at': registered_at,
            'same_instant': any(v == 'may' for v in status.values())}


HOPS = {'a': 0, 'b': 1, 'c': 3}
TIMEOUT_EXC = {k: 'TimeoutError' for k in ALL_KINDS}
TIMEOUT_EXC['request_place_in_queue'] = 'RequestPlaceFailedError'


# --------------------------------------------------------------------------

def run_case(params: dict) -> dict:
    import async_timeout
    from aioslsk import commands as CMD
    from aioslsk.events import MessageReceivedEvent
    from aioslsk.network.connection import CloseReason, PeerConnection, PeerConnectionState, ServerConnection
    from aioslsk.network.network import ExpectedResponse
    from aioslsk.protocol import messages as M
    from aioslsk.transfer.model import Transfer, TransferDirection
    from vf.monitors import safety_net_violations
    from vf.simloop import settle
    from vf.simnet import ConnPlan
    from vf.world import World, run_world

    if params.get('mode') == 'upl':
        return run_upload_case(params)
    res = runner.new_result(params.get('case', 0))
    hist = expand(params)
    reqs, segs = hist['requests'], hist['segments']
    if not 1 <= len(reqs) <= 4 or sum(len(s['msgs']) for s in segs) > 12:
        res['inconclusive'] = 'history outside the bounds'
        return res
    cls_of = {k: msg_class(k) for k in CLASSES}
    key_of_cls = {v: k for k, v in cls_of.items()}
    recs: list[dict] = [{'i': i, 'k': r['k']} for i, r in enumerate(reqs)]
    events: list[dict] = []
    seg_info: list[dict] = [{'arrival': None} for _ in segs]
    sent: dict[str, list] = {'server': [], 'p1': [], 'p2': []}       # per link FIFO of (uid, message object)
    shared: dict[str, Any] = {}

    async def main(w: World):
        loop = w.loop

        def planner(node, host, port, attempt):
            if node in ('p1', 'p2'):
                lt = hist['lat'][node]
            else:
                lt = hist['lat']['server']
            return ConnPlan(latency=TICK, seg='whole', seg_lat=(lt * TICK, lt * TICK))
        w.net.planner = planner
        await w.start_server()
        w.server.overrides[M.GetPeerAddress.Request] = lambda s, m: True
        h = await w.add_client('me')
        client = h.client
        net = client.network
        w.net.rst_latency = w.net.fin_latency = TICK     # RST / FIN travel on the grid too
        peers, links = {}, {}
        addr_src: dict = {}
        closed_links: dict[str, str] = {}

        async def dial_link(name: str):
            lk = await peers[name.split('#')[0]].dial(h.port, 'P', host=w.net.ip_of('me'))
            links[name] = lk
            addr_src[tuple(lk.writer.get_extra_info('sockname'))] = name
            return lk

        for name in ('p1', 'p2'):
            peers[name] = await w.add_peer(name)
            await dial_link(name)
        for name in hist.get('extra_links') or []:
            await dial_link(name)
        for _ in range(40):                        # the client tracks itself after login: wait for that reply
            await settle(0.5)
            if not net._expected_response_futures:
                break
        est = [c for c in net.peer_connections if c.connection_state == PeerConnectionState.ESTABLISHED]
        if len(est) != len(links):
            raise RuntimeError(f'setup: {len(est)} established peer links')
        session = w.server.by_user['me']
        if net._expected_response_futures:
            raise RuntimeError('setup left expected responses')
        transfers = {}
        for r in reqs:
            if r['k'] == 'request_place_in_queue':
                key = (r['arg']['peer'], r['arg']['path'])
                if key not in transfers:
                    transfers[key] = await h.call(client.transfers.add(Transfer(key[0], key[1], TransferDirection.DOWNLOAD)))
        await settle(2.0)                          # adding a download makes the client track the peer (AddUser round trip)

        base = float(math.ceil(loop.time()) + 1)

        def tick_now() -> float:
            return round((loop.time() - base) / TICK, 6)

        async def sleep_until(tick: float):
            when = base + tick * TICK
            if when <= loop.time():
                await asyncio.sleep(0)
                return
            f = loop.create_future()
            loop.call_at(when, lambda: f.done() or f.set_result(None))
            await f

        def source_of(conn) -> str:
            if isinstance(conn, ServerConnection):
                return 'server'
            return addr_src.get((conn.hostname, conn.port), 'unknown')

        seq_counter = [0]

        def next_seq() -> int:
            seq_counter[0] += 1
            return seq_counter[0]

        by_event: dict[int, dict] = {}

        def on_msg(ev):                       # first listener (priority 0): the message is seen
            e = {
                't': tick_now(), 'seq': next_seq(), 'link': source_of(ev.connection),
                'src': source_of(ev.connection).split('#')[0],
                'ckey': key_of_cls.get(type(ev.message)), 'msg': ev.message, 'conn': ev.connection,
                'log_mark': len(w.log.records), 't_done': None, 'seq_done': None, 'log_mark_done': None,
                'stale_done': 0, 'stale_cancelled': 0, 'listed': 0,
            }
            by_event[id(ev)] = e
            e['_ev'] = ev                     # keeps id() unique for the case
            events.append(e)
        h.listen(MessageReceivedEvent, on_msg)

        lst = hist.get('listener') or None
        lst_classes = set(lst['c']) if lst else set()
        shared['listener_on'] = True

        async def user_listener(ev):          # an application listener that really suspends (priority 500)
            if not shared['listener_on'] or key_of_cls.get(type(ev.message)) not in lst_classes:
                return
            for _ in range(lst.get('yields', 0)):
                await asyncio.sleep(0)
            if lst.get('ticks', 0):
                await asyncio.sleep(lst['ticks'] * TICK)
        if lst:
            h._listeners.append(user_listener)
            client.events.register(MessageReceivedEvent, user_listener, priority=500)

        def on_msg_done(ev):                  # last listener: the library completes the waiters right after it
            e = by_event.get(id(ev))
            if e is None:
                return
            futs = list(net._expected_response_futures)
            e.update({
                't_done': tick_now(), 'seq_done': next_seq(), 'log_mark_done': len(w.log.records),
                'stale_done': sum(1 for f in futs if f.done() and not f.cancelled()),
                'stale_cancelled': sum(1 for f in futs if f.cancelled()),
                'listed': len(futs),
            })
        h._listeners.append(on_msg_done)
        client.events.register(MessageReceivedEvent, on_msg_done, priority=10 ** 6)

        # -- requests ---------------------------------------------------------------
        tickets: dict[int, int] = {}

        def lib_fields(r):
            return {f: lib_matcher(op, v) for f, op, v in r['m']}

        async def run_request(i: int):
            r, rec = reqs[i], recs[i]
            k = r['k']
            end = r['end']
            t_arg = end['ticks'] * TICK if end['type'] == 'T' else FAR * TICK
            cmd = None
            if k in EXEC_KINDS:
                a = r['arg']
                name = k.split(':')[1]
                if name in ('GetUserStatusCommand', 'GetUserStatsCommand', 'GetPeerAddressCommand'):
                    cmd = getattr(CMD, name)(a['username'])
                elif name == 'CheckPrivilegesCommand':
                    cmd = CMD.CheckPrivilegesCommand()
                elif name == 'PeerGetUserInfoCommand':
                    cmd = CMD.PeerGetUserInfoCommand(a['peer'])
                else:
                    cmd = CMD.PeerGetDirectoryContentCommand(a['peer'], a['directory'])
                orig = cmd.handle_response

                def capture(client_, response, orig=orig, rec=rec):
                    rec['msg'] = response
                    return orig(client_, response)
                cmd.handle_response = capture
                orig_build = cmd.build_expected_response

                def build(client_, orig_build=orig_build, rec=rec):
                    rec['lib_fut'] = orig_build(client_)      # looked at only to name the mechanism of a report
                    return rec['lib_fut']
                cmd.build_expected_response = build
            # the call starts here: nothing below suspends before the library function is entered
            rec['t_call'] = tick_now()
            rec['seq_call'] = next_seq()
            try:
                if k == 'wait_for_server_message':
                    val = await net.wait_for_server_message(cls_of[r['c']], lib_fields(r), timeout=t_arg)
                    rec['msg'] = val
                elif k == 'wait_for_peer_message':
                    val = await net.wait_for_peer_message(r['src'], cls_of[r['c']], lib_fields(r), timeout=t_arg)
                    rec['msg'] = val
                elif k in FUT_KINDS:
                    if k == 'create_server_response_future':
                        fut = net.create_server_response_future(cls_of[r['c']], lib_fields(r))
                    elif k == 'create_peer_response_future':
                        fut = net.create_peer_response_future(r['src'], cls_of[r['c']], lib_fields(r))
                    else:
                        fut = ExpectedResponse(ServerConnection if r['cc'] == 'server' else PeerConnection,
                                               cls_of[r['c']], peer=r.get('peer'), fields=lib_fields(r))
                        net.register_response_future(fut)
                    rec['fut'] = fut
                    if end['type'] == 'T':
                        async with async_timeout.timeout(t_arg):
                            val = await fut
                    else:
                        val = await fut
                    rec['conn'], rec['msg'] = val
                elif k in EXEC_KINDS:
                    val = await client.execute(cmd, response=True, timeout=t_arg)
                    rec['value'] = val
                else:
                    a = r['arg']
                    val = await client.transfers.request_place_in_queue(transfers[(a['peer'], a['path'])])
                    rec['value'] = val
                rec['outcome'] = 'value'
            except asyncio.CancelledError:
                rec['outcome'] = 'cancelled'
            except BaseException as exc:  # noqa  — judged, never swallowed as a pass
                rec['outcome'] = 'exc'
                rec['exc'] = type(exc).__name__
                rec['exc_repr'] = repr(exc)[:200]
                ctx = exc.__context__
                rec['exc_context'] = type(ctx).__name__ if ctx is not None else None
            rec['t_done'] = tick_now()
            rec['seq_end'] = next_seq()

        def do_cancel(i: int):
            rec = recs[i]
            if 't_cancel' in rec:
                return
            rec['t_cancel'] = tick_now()
            rec['seq_cancel'] = next_seq()
            if 't_done' in rec:
                rec['cancel_effective'] = False
                return
            if reqs[i]['k'] in FUT_KINDS and 'fut' in rec:
                rec['cancel_effective'] = rec['fut'].cancel()
            elif 'task' in rec:
                rec['cancel_effective'] = rec['task'].cancel()

        # -- segments -------------------------------------------------------------------
        inflight: dict[int, collections.deque] = collections.defaultdict(collections.deque)
        hook_cancels: dict[int, list] = collections.defaultdict(list)
        for i, r in enumerate(reqs):
            if r['end']['type'] == 'C' and 'seg' in r['end']:
                hook_cancels[r['end']['seg']].append((i, r['end']['order']))

        def hop(n: int, i: int):
            # do_cancel(i) n loop iterations after this one (1 = the iteration in which the reader task resumes)
            if n <= 1:
                loop.call_soon(do_cancel, i)
            else:
                loop.call_soon(hop, n - 1, i)

        def on_deliver(transport, chunk):
            if transport.owner != 'me':
                return
            q = inflight.get(transport.conn.id)
            if not q or q[0][1] != chunk:
                return
            j, _ = q.popleft()
            seg_info[j]['arrival'] = tick_now()
            for st in seg_stalls.get(j, ()):
                stall_hop(st.get('hops', 0), st)
            for i, order in hook_cancels.get(j, ()):
                hops = HOPS[order] if order in HOPS else int(order)
                if hops == 0:
                    do_cancel(i)              # before the bytes reach the stream reader
                else:
                    hop(hops, i)
        w.net.on_deliver = on_deliver

        def send_segment(j: int):
            s = segs[j]
            link = s['link']
            for ri, r in enumerate(reqs):          # tickets of request frames that have reached the peer
                if r['k'] == 'execute:PeerGetDirectoryContentCommand' and ri not in tickets:
                    for _, lk, fm in peers[r['arg']['peer']].all_frames:
                        if isinstance(fm, M.PeerDirectoryContentsRequest.Request) and fm.directory == r['arg']['directory']:
                            tickets[ri] = fm.ticket
            if link != 'server' and (link not in links or link in closed_links):
                seg_info[j]['skipped'] = True          # generator/harness: never counts against the library
                shared.setdefault('skipped_segments', []).append(j)
                return
            data = b''
            for m in s['msgs']:
                obj = build_message(m, m['uid'], tickets)
                sent.setdefault(link, []).append((m['uid'], obj))
                data += obj.serialize()
            if link == 'server':
                tr = session.writer.transport
                inflight[tr.conn.id].append((j, data))
                session.writer.write(data)
            else:
                inflight[links[link].conn.id].append((j, data))
                links[link].send_raw(data)
            seg_info[j]['sent'] = tick_now()

        # actions: (tick, zero-time yields after the tick began, order, kind rank, what, index)
        actions = []
        for i, r in enumerate(reqs):
            actions.append((r['s'], r.get('y', 0), r.get('o', 0), 0, 'req', i))
            if r['end']['type'] == 'C' and 'tick' in r['end']:
                actions.append((max(r['end']['tick'], r['s'] + 1), r['end'].get('y', 0), 3, 1, 'cancel', i))
        for j, s in enumerate(segs):
            actions.append((s['t'], s.get('y', 0), s.get('o', 1), 2, 'seg', j))
        for x, cl in enumerate(hist.get('closes') or []):
            actions.append((cl['t'], cl.get('y', 0), cl.get('o', 1), 4, 'close', x))
        for x, dl in enumerate(hist.get('dials') or []):
            actions.append((dl['t'], 0, 1, 5, 'dial', x))
        actions.sort(key=lambda a: (a[0], a[1], a[2], a[3], a[5]))

        def do_close(cl: dict):
            name = cl['link']
            if name not in links or name in closed_links:
                return
            closed_links[name] = cl['mode']
            shared.setdefault('closes_done', []).append({'link': name, 'mode': cl['mode'], 't': tick_now(), 'seq': next_seq()})
            if cl['mode'] == 'eof':
                links[name].close()
            elif cl['mode'] == 'rst':
                links[name].abort()
            else:                                      # the client itself disconnects the connection
                addr = tuple(links[name].writer.get_extra_info('sockname'))
                for c in list(net.peer_connections):
                    if (c.hostname, c.port) == addr:
                        w.spawn('me', c.disconnect(CloseReason.REQUESTED), name='c12-local-disconnect')

        # stalls: the running callback 'takes' d seconds (w.loop.stall): from the delivery callback of a segment
        # (+ hops loop iterations) or from a harness timer
        stall_log: list = []

        def do_stall(st: dict):
            a = tick_now()
            loop.stall(st['n1024'] / 1024.0)
            stall_log.append((a, tick_now()))

        def stall_hop(n: int, st: dict):
            if n <= 0:
                do_stall(st)
            else:
                loop.call_soon(stall_hop, n - 1, st)
        seg_stalls: dict[int, list] = collections.defaultdict(list)
        for st in hist.get('stalls') or []:
            if 'seg' in st:
                seg_stalls[st['seg']].append(st)
            else:
                loop.call_at(base + st['t'] * TICK, do_stall, st)
        shared['stall_log'] = stall_log
        pos = 0
        while pos < len(actions):
            tick = actions[pos][0]
            await sleep_until(tick)
            yielded = 0
            while pos < len(actions) and actions[pos][0] == tick:
                _, y, _, _, what, x = actions[pos]
                while yielded < y:
                    await asyncio.sleep(0)
                    yielded += 1
                if what == 'req':
                    recs[x]['task'] = w.spawn('me', run_request(x), name=f'c12-req-{x}')
                elif what == 'seg':
                    send_segment(x)
                elif what == 'close':
                    do_close(hist['closes'][x])
                elif what == 'dial':
                    loop.create_task(dial_link(hist['dials'][x]['link']), name='c12-dial')
                else:
                    do_cancel(x)
                pos += 1

        horizon = 8
        arr = arrivals(hist)
        for i, r in enumerate(reqs):
            e = r['end']
            horizon = max(horizon, r['s'] + e['ticks'] if e['type'] == 'T' else e.get('tick', arr[e['seg']] if 'seg' in e else 0))
        for a in arr:
            horizon = max(horizon, a)
        if lst:
            horizon += lst.get('ticks', 0) * (sum(len(s['msgs']) for s in segs) + 1)
        await sleep_until(horizon + 4)
        await settle(0.0)
        never = [i for i, rec in enumerate(recs) if 't_done' not in rec]
        if never:
            await settle(20.0)
            never = [i for i, rec in enumerate(recs) if 't_done' not in rec]
        shared['never'] = list(never)
        shared['tickets'] = {}
        for ri, r in enumerate(reqs):
            if r['k'] == 'execute:PeerGetDirectoryContentCommand':
                for _, lk, fm in peers[r['arg']['peer']].all_frames:
                    if isinstance(fm, M.PeerDirectoryContentsRequest.Request) and fm.directory == r['arg']['directory']:
                        shared['tickets'][ri] = fm.ticket
        for i in never:
            recs[i]['task'].cancel()
        await settle(0.0)

        # -- residue at quiescence ----------------------------------------------------
        shared['residue'] = [
            {'class': f.message_class.__qualname__, 'peer': f.peer, 'done': f.done(), 'cancelled': f.cancelled()}
            for f in net._expected_response_futures]
        for f in list(net._expected_response_futures):
            f.cancel()
        await settle(0.0)
        shared['n_history_events'] = len(events)
        shared['listener_on'] = False

        # -- a later good request + reply still works -----------------------------------
        fresh = [
            ('server', net.create_server_response_future(M.CheckPrivileges.Response, {'time_left': 4242}),
             M.CheckPrivileges.Response(4242)),
            ('p1', net.create_peer_response_future('p1', M.PeerPlaceInQueueReply.Request, {'filename': 'fresh/1'}),
             M.PeerPlaceInQueueReply.Request('fresh/1', 9001)),
            ('p2', net.create_peer_response_future('p2', M.PeerPlaceInQueueReply.Request, {'filename': 'fresh/2'}),
             M.PeerPlaceInQueueReply.Request('fresh/2', 9002)),
        ]
        fresh_link = {}
        for pn in ('p1', 'p2'):
            live = [n for n in links if n.split('#')[0] == pn and n not in closed_links]
            if not live:
                await dial_link(pn + '#f')
                live = [pn + '#f']
            fresh_link[pn] = live[-1]
        await settle((max(hist['lat'].values()) + 2) * TICK)
        for link, fut, msg in fresh:
            if link == 'server':
                session.writer.write(msg.serialize())
            else:
                links[fresh_link[link]].send_raw(msg.serialize())
        await settle((max(hist['lat'].values()) + 2) * TICK)
        later = []
        for link, fut, msg in fresh:
            ok = fut.done() and not fut.cancelled() and fut.exception() is None and fut.result()[1] == msg
            seen = any(e['msg'] == msg for e in events[shared['n_history_events']:])
            later.append({'link': link, 'completed': bool(ok), 'event_seen': bool(seen)})
            if not fut.done():
                fut.cancel()
        await settle(0.0)
        shared['later'] = later
        shared['residue_after'] = len(net._expected_response_futures)
        shared['dead_tasks'] = h.dead_background_tasks()
        shared['closed_links'] = dict(closed_links)
        await w.stop_clients()
        return True

    out = run_world(f"{ID}:{params.get('seed', 's')}:{params.get('idx', params.get('case', 0))}", main, wall_timeout=60)
    if out.inconclusive:
        res['inconclusive'] = out.inconclusive
        return res

    # ---------------------------------------------------------------- evaluation
    runner.add_obs(res, 'histories')
    n_hist = shared['n_history_events']
    for e in events:
        e.pop('_ev', None)
        if e['seq_done'] is None:                  # a listener raised / still suspended: no separate completion point
            e['t_done'], e['seq_done'], e['log_mark_done'] = e['t'], e['seq'] + 0.5, e['log_mark']
    hevents = events[:n_hist]
    # harness consistency: every frame sent in the history was observed, per link in order, as the same message
    per_link = {k: list(v) for k, v in sent.items()}
    for e in hevents:
        q = per_link.get(e['link'])
        if e['ckey'] is None:                      # not one of the scripted classes: cannot answer any request
            e['uid'] = None
            runner.add_obs(res, 'unscripted_messages')
            continue
        if not q or q[0][1] != e['msg']:
            res['inconclusive'] = f"event/frame association broken at {e['link']} {e['msg']!r}"
            return res
        e['uid'] = q.pop(0)[0]
    # frames in flight on a link that was closed are legitimately lost (RST / local disconnect; after a close() by
    # the peer, anything the client writes to it is answered by an RST that overtakes nothing but kills the rest)
    undelivered = {k: [u for u, _ in v] for k, v in per_link.items() if v and k not in shared['closed_links']}
    if shared.get('skipped_segments'):
        res['inconclusive'] = f"segments {shared['skipped_segments']} had no open link (generator)"
        return res
    runner.add_obs(res, 'messages_delivered', len(hevents))

    def ev_brief(i: int) -> dict:
        e = hevents[i]
        return {'event': i, 't': e['t'], 'seq': e['seq'], 't_handlers_done': e['t_done'], 'seq_handlers_done': e['seq_done'],
                'from': e['link'], 'uid': e['uid'], 'message': repr(e['msg'])[:140]}

    def witness(**extra) -> dict:
        d = {'history': {'lat_ticks': hist['lat'], 'requests': reqs, 'segments': segs, 'note': hist.get('note')},
             'tick_s': TICK,
             'events': [ev_brief(i) for i in range(len(hevents))],
             'listener': hist.get('listener'), 'extra_links': hist.get('extra_links'), 'closes': hist.get('closes'),
             'dials': hist.get('dials'), 'stalls': hist.get('stalls'), 'closes_done': shared.get('closes_done'),
             'stall_intervals_ticks': shared.get('stall_log'),
             'outcomes': [{k: v for k, v in rec.items() if k in ('i', 'k', 't_call', 'seq_call', 't_done', 'seq_end',
                                                                   't_cancel', 'seq_cancel', 'outcome',
                                                                   'exc', 'exc_repr', 'exc_context', 'completed_by',
                                                                   'cancel_effective')} for rec in recs]}
        d.update(extra)
        return d

    # which event completed which request (value identity)
    for rec, r in zip(recs, reqs):
        rec['completed_by'] = None
        if rec.get('outcome') != 'value':
            continue
        if r['k'] == 'request_place_in_queue':
            hits = [i for i, e in enumerate(hevents) if e['ckey'] == 'P1' and e['msg'].place == rec['value']]
            rec['completed_by'] = hits[0] if len(hits) == 1 else None
        else:
            for i, e in enumerate(hevents):
                if e['msg'] is rec.get('msg'):
                    rec['completed_by'] = i
                    break

    # the model's matchers per request
    req_matchers = []
    for i, r in enumerate(reqs):
        ms = [list(m) for m in r['m']]
        if r['k'] == 'execute:PeerGetDirectoryContentCommand':
            # the ticket of the frame the peer received (harness observation at the end of the history)
            ms[0] = ['ticket', 'eq', shared['tickets'].get(i, -1)]
        req_matchers.append(ms)

    def accepted(i: int, e: dict) -> bool:
        msg = e['msg']
        return why_rejected(reqs[i], req_matchers[i], e['src'], e['ckey'],
                            lambda n, msg=msg: getattr(msg, n, _MISSING)) is None

    # callback errors: the record is written right after the last listener of the event returned
    points = sorted([(e['seq'], e['log_mark']) for e in events] + [(e['seq_done'], e['log_mark_done']) for e in events])
    cb_error: dict[int, str] = {}
    for i, e in enumerate(hevents):
        hi = next((m for q, m in points if q > e['seq_done']), len(out.log_records))
        for lr in out.log_records[e['log_mark_done']:hi]:
            if lr['level'] == 'ERROR' and 'error during callback' in lr['msg']:
                ended_during = [x for x, rec in enumerate(recs) if accepted(x, e) and any(
                    rec.get(q) is not None and e['seq'] < rec[q] < e['seq_done'] for q in ('seq_cancel', 'seq_end'))]
                if ended_during:
                    mech = 'waiter-ended-while-handlers-were-suspended'
                elif e['stale_done'] and not e['stale_cancelled']:
                    mech = 'completed-waiter-not-yet-removed'
                elif e['stale_cancelled'] and not e['stale_done']:
                    mech = 'cancelled-waiter-not-yet-removed'
                elif e['stale_done'] and e['stale_cancelled']:
                    mech = 'ended-waiters-not-yet-removed'
                else:
                    mech = 'other'
                cb_error[i] = mech
                runner.add_obs(res, 'callback_errors_seen')
                runner.violation(res, f"callback-error:{lr['exc_type']}:{mech}", witness=witness(
                    at=ev_brief(i), log={k: lr[k] for k in ('msg', 'exc', 'tb')}, ended_during_the_handlers=ended_during,
                    listed_waiters=e['listed'], already_completed=e['stale_done'], already_cancelled=e['stale_cancelled']))
    late_cb = [lr for lr in out.log_records[(events[n_hist]['log_mark'] if n_hist < len(events) else len(out.log_records)):]
               if lr['level'] == 'ERROR' and 'error during callback' in lr['msg']]
    for lr in late_cb:
        runner.violation(res, f"callback-error:{lr['exc_type']}:after-history", witness=witness(
            log={k: lr[k] for k in ('msg', 'exc', 'tb')}))

    judged = 0
    timing_classes, same_instant = [], False
    for i, (r, rec) in enumerate(zip(reqs, recs)):
        k = r['k']
        if 't_call' not in rec:
            continue                     # cancelled before its first step: not a request
        matchers = req_matchers[i]
        if r['end']['type'] == 'C' and 't_cancel' not in rec:
            res['inconclusive'] = f'the cancellation of request {i} was never issued (generator/harness)'
            continue
        j = judge(r, matchers, rec, hevents, shared.get('stall_log') or ())
        rec['model'] = {'allowed_values': j['allowed_values'], 'end_allowed': j['end_allowed'],
                        't_end': j['t_end'] if j['t_end'] != float('inf') else None}
        same_instant = same_instant or j['same_instant']
        first = j['matching'][0] if j['matching'] else None
        if first is None:
            tc = 'none'
        else:
            ft = min((hevents[x]['t'] for x in j['matching'] if hevents[x]['t'] > rec['t_call']), default=None)
            tc = 'none' if ft is None else ('before' if j['t_end'] < ft else 'at' if j['t_end'] == ft else 'after')
        timing_classes.append(f"{r['end']['type']}{r['end'].get('order', '')}:{tc}")
        if 'order' in r['end']:
            if r['end']['order'] in HOPS:
                runner.add_obs(res, f"cancel_at_arrival_order_{r['end']['order']}")
            else:
                runner.add_obs(res, 'cancel_at_arrival_plus_hops')
        for cd in shared.get('closes_done') or ():
            if r['src'] == cd['link'].split('#')[0] and rec['seq_call'] < cd['seq'] < rec.get('seq_end', 0):
                runner.add_obs(res, 'peer_link_closed_while_pending')
                runner.add_cover(res, 'link_loss', f"{k}:{cd['mode']}:{'last' if not [n for n in (hist.get('extra_links') or []) if n.split('#')[0] == r['src']] else 'one-of-two'}")
        if rec.get('completed_by') is not None and '#' in hevents[rec['completed_by']]['link'] \
                and (shared.get('closes_done') or ()):
            runner.add_obs(res, 'completed_over_another_link_after_a_close')
        for x in j['matching']:
            e = hevents[x]
            if e['t'] == rec['t_call'] and j['status'][x] == 'must':
                runner.add_obs(res, 'judged_by_order_at_the_call_instant')
            if any(rec.get(q) is not None and e['seq'] < rec[q] < e['seq_done'] for q in ('seq_cancel', 'seq_end')):
                runner.add_obs(res, 'requests_ended_while_handlers_suspended')
        if j['deadline'] is not None and j['deadline'] == j['t_end_due']:
            if j['t_end'] != j['t_end_due']:
                runner.add_obs(res, 'deadline_inside_a_stall')
                if any(hevents[x]['t'] == j['t_end'] for x in j['matching']):
                    runner.add_obs(res, 'reply_and_deadline_inside_one_stall')
            hits = [x for x in j['matching'] if hevents[x]['t'] == j['deadline']]
            if hits:
                runner.add_obs(res, 'deadline_at_arrival')
                if any(hevents[x]['stale_cancelled'] for x in hits):
                    # informational only (depends on how the library removes ended waiters): the frame was
                    # processed while the timed-out waiter was still listed
                    runner.add_obs(res, 'deadline_at_arrival_processed_before_removal')
        if i in shared['never']:
            runner.violation(res, f'request-never-ended:{k}', witness=witness(request=i))
            judged += 1
            continue
        outcome = rec.get('outcome')
        judged += 1
        cancelled_by_workload = r['end']['type'] == 'C' and rec.get('cancel_effective')

        def ignored(expected: int):
            lib_fields = getattr(rec.get('lib_fut'), 'fields', None) or {}
            if expected in cb_error:
                mech = 'after-callback-error'
            elif any(v is None for v in lib_fields.values()):
                mech = 'expected-value-unset-when-the-matcher-was-built'
            elif hevents[expected]['t'] == rec['t_call']:
                mech = 'processed-at-the-call-instant-after-the-call-started'
            elif any(o.get('completed_by') == expected for o in recs):
                mech = 'other-waiter-completed'
            else:
                mech = f'no-waiter-completed:{k}'
            runner.violation(res, f'matching-message-ignored:{mech}', witness=witness(
                request=i, expected=ev_brief(expected), model=rec['model']))

        if outcome == 'value':
            cb = rec['completed_by']
            if cb is None:
                runner.violation(res, 'completed-by-wrong-message:unknown-object', witness=witness(request=i))
                continue
            e = hevents[cb]
            if cb not in j['matching']:
                msg = e['msg']
                why = why_rejected(r, matchers, e['src'], e['ckey'], lambda n, msg=msg: getattr(msg, n, _MISSING))
                runner.violation(res, f'completed-by-wrong-message:{why}', witness=witness(
                    request=i, completed_by=ev_brief(cb), model=rec['model']))
            elif j['status'][cb] == 'no':
                runner.violation(res, 'completed-outside-window', witness=witness(
                    request=i, completed_by=ev_brief(cb), model=rec['model']))
            else:
                # the request was evidently still pending when event cb was completed: an earlier matching message
                # that was seen after the call started should have completed it
                earlier = [x for x in j['matching'][:j['matching'].index(cb)] if j['registered_at'][x]]
                if any(x in cb_error for x in earlier):
                    ignored(next(x for x in earlier if x in cb_error))
                elif earlier:
                    runner.violation(res, 'not-first-matching-message', witness=witness(
                        request=i, completed_by=ev_brief(cb), earlier=[ev_brief(x) for x in earlier], model=rec['model']))
            # the value handed to the caller is the one the message carries
            msg = hevents[cb]['msg']
            bad = None
            if k in FUT_KINDS and rec.get('conn') is not hevents[cb]['conn']:
                bad = 'connection'
            elif k in EXEC_KINDS:
                v = rec.get('value')
                try:
                    if k == 'execute:GetUserStatusCommand':
                        okv = (v.status.value, v.privileged) == (msg.status, msg.privileged)
                    elif k == 'execute:GetUserStatsCommand':
                        us = msg.user_stats
                        okv = tuple(v) == (us.avg_speed, us.uploads, us.shared_file_count, us.shared_folder_count)
                    elif k == 'execute:GetPeerAddressCommand':
                        okv = tuple(v) == (msg.ip, msg.port, msg.obfuscated_port)
                    elif k == 'execute:CheckPrivilegesCommand':
                        okv = v == msg.time_left
                    elif k == 'execute:PeerGetUserInfoCommand':
                        okv = v.description == msg.description and v.upload_slots == msg.upload_slots
                    else:
                        okv = v == msg.directories
                except Exception:  # noqa
                    okv = False
                if not okv:
                    bad = 'value'
            if bad:
                runner.violation(res, f'wrong-value:{k}', witness=witness(request=i, what=bad, value=repr(rec.get('value'))[:200]))
        elif outcome == 'cancelled':
            if not cancelled_by_workload:
                runner.violation(res, f'wrong-exception:CancelledError:{k}', witness=witness(request=i, model=rec['model']))
            elif not j['end_allowed']:
                ignored(j['first_definite'])
        elif outcome == 'exc':
            is_timeout = rec['exc'] == TIMEOUT_EXC[k] and j['deadline'] is not None and j['deadline'] == j['t_end_due']
            if not is_timeout:
                runner.violation(res, f"wrong-exception:{rec['exc']}:{k}", witness=witness(request=i, model=rec['model']))
            if is_timeout and not (rec['t_done'] == j['t_end'] or j['t_end_due'] <= rec['t_done'] <= max(
                    [b for a, b in (shared.get('stall_log') or ()) if a <= rec['t_done'] <= b or a <= j['t_end_due'] <= b]
                    + [j['t_end']])):
                res['inconclusive'] = (f"timeout of request {i} ({k}) observed at tick {rec['t_done']}, model deadline "
                                       f"{j['t_end']}: timing assumption of the model broken")
            if not j['end_allowed'] and rec['t_done'] >= j['t_end']:
                ignored(j['first_definite'])
        else:
            res['inconclusive'] = f'request {i} has no outcome'

    runner.add_obs(res, 'requests_judged', judged)
    if same_instant:
        runner.add_obs(res, 'same_instant_cases')
    for jx, s in enumerate(segs):
        if len(s['msgs']) >= 2 and seg_info[jx]['arrival'] is not None:
            runner.add_obs(res, 'back_to_back_segments')
    for rec in recs:
        if rec.get('outcome') == 'exc':
            runner.add_cover(res, 'exceptions', f"{rec['k']}:{rec['exc']}")
        runner.add_cover(res, 'outcomes', f"{rec['k']}:{rec.get('outcome')}")

    if undelivered:
        runner.violation(res, 'later-delivery-broken:frame-of-the-history-not-reported', witness=witness(undelivered=undelivered))
    runner.add_obs(res, 'residue_checks')
    if shared['residue']:
        runner.violation(res, 'residue:expected-response-left', witness=witness(left=shared['residue']))
    if shared['residue_after']:
        runner.violation(res, 'residue:expected-response-left', witness=witness(after_fresh_requests=shared['residue_after']))
    runner.add_obs(res, 'later_delivery_checks')
    if not all(x['completed'] and x['event_seen'] for x in shared['later']):
        runner.violation(res, 'later-delivery-broken', witness=witness(later=shared['later']))
    if shared['dead_tasks']:
        runner.violation(res, 'safety:background-task-ended', witness=witness(tasks=shared['dead_tasks']))
    for sig, detail in safety_net_violations(out, allow_msgs=('error during callback',)):
        runner.violation(res, 'safety:' + sig, detail=detail, witness=witness())

    # coverage / distinctness
    pattern = []
    for e in hevents:
        n = 0
        for r, rec in zip(reqs, recs):
            msg = e['msg']
            if why_rejected(r, r['m'] if r['k'] != 'execute:PeerGetDirectoryContentCommand' else r['m'][1:], e['src'], e['ckey'],
                            lambda nme, msg=msg: getattr(msg, nme, _MISSING)) is None:
                n += 1
        pattern.append(f"{e['ckey']}:{min(n, 2)}")
    seg_shape = sorted(len(s['msgs']) for s in segs)
    if judged:
        res['csigs'].append('|'.join([
            '+'.join(sorted(r['k'] for r in reqs)), ','.join(pattern), str(seg_shape), ','.join(sorted(timing_classes))]))
    for r in reqs:
        runner.add_cover(res, 'kinds', r['k'])
    for tc in timing_classes:
        runner.add_cover(res, 'timing_classes', tc)
    runner.add_cover(res, 'segment_sizes', max(seg_shape) if seg_shape else 0)
    res['sample'] = {'params': {k: v for k, v in params.items() if k != 'hist'}, 'history': hist,
                     'events': [ev_brief(i) for i in range(len(hevents))][:8],
                     'outcomes': [{k: v for k, v in rec.items() if k in ('k', 't_call', 't_done', 'outcome', 'exc', 'completed_by', 'model')}
                                  for rec in recs]}
    return res


# --------------------------------------------------------------------------
# upload negotiation: a reply carrying ticket T only affects the negotiation that sent ticket T

def run_upload_case(params: dict) -> dict:
    from aioslsk.events import TransferAddedEvent
    from aioslsk.protocol import messages as M
    from vf.monitors import safety_net_violations
    from vf.simloop import settle
    from vf.simnet import ConnPlan
    from vf.uploads import make_share, remote_paths
    from vf.world import World, run_world

    res = runner.new_result(params.get('case', 0))
    plan = _copy(params['plan']) if 'plan' in params else gen_upload(params['seed'], params['idx'])
    n_att = plan['silent'] + 1
    lat = plan['lat'] * TICK
    obs: dict[str, Any] = {'requests': [], 'replies': [], 'flinks': [], 'edges': []}

    async def main(w: World):
        rng = random.Random(f"{params.get('seed', 0)}:{params.get('idx', 0)}:share")
        w.net.planner = lambda node, host, port, attempt: ConnPlan(latency=TICK, seg='whole', seg_lat=(lat, lat))
        await w.start_server()
        share, files = make_share(w, 2 if plan.get('second_file') else 1, rng, size_range=(2000, 6000))
        me = await w.add_client('me', w.make_settings('me', shared=[share]), scan=True)
        peer = await w.add_peer('dl')
        rp = remote_paths(me.client)
        names = sorted(rp.values())
        fn = names[0]
        accepted: dict[int, str] = {}

        class Listener:
            async def on_transfer_state_changed(self, transfer, old, new):
                obs['edges'].append({'t': round(w.now, 6), 'file': transfer.remote_path, 'old': old.name, 'new': new.name,
                                     'fail_reason': transfer.fail_reason})
        listener = Listener()

        def on_added(ev):
            ev.transfer.state_listeners.append(listener)
        me.listen(TransferAddedEvent, on_added)

        def send_reply(link, ticket, allowed, reason, kind, attempt):
            tr = [t for t in me.client.transfers.transfers if t.remote_path == fn]
            obs['replies'].append({'t': round(w.now, 6), 'ticket': ticket, 'allowed': allowed, 'reason': reason,
                                   'kind': kind, 'during_attempt': attempt,
                                   'state_when_sent': tr[0].state.VALUE.name if tr else None})
            if allowed and kind == 'match':
                accepted[ticket] = fn
            link.send(M.PeerTransferReply.Request(ticket, allowed, reason=None if allowed else reason))

        async def script(link, j, msg):
            mine = sorted([st for st in plan['stale'] if st['during'] == j], key=lambda st: st['delay'])
            t0 = w.loop.time()
            events = [(st['delay'], 'stale', st) for st in mine]
            if j == n_att and plan['final']['act'] != 'none':
                events.append((plan['final']['delay'], 'final', plan['final']))
            events.sort(key=lambda e: e[0])
            for x, (d, kind, item) in enumerate(events):
                when = t0 + d * TICK
                if when > w.loop.time():
                    await asyncio.sleep(when - w.loop.time())
                if kind == 'stale':
                    tk = UNKNOWN_TICKET if item['ticket_of'] == 'unknown' else [
                        r for r in obs['requests'] if r['file'] == fn][item['ticket_of'] - 1]['ticket']
                    send_reply(link, tk, item['allowed'], f'Stale-{j}-{x}', 'stale', j)
                else:
                    send_reply(link, msg.ticket, item['act'] == 'allow', 'Final-reason', 'match', j)

        def on_frame(link, msg):
            if isinstance(msg, M.PeerTransferRequest.Request) and msg.direction == 1:
                mine = [r for r in obs['requests'] if r['file'] == msg.filename]
                obs['requests'].append({'t': round(w.now, 6), 'ticket': msg.ticket, 'file': msg.filename, 'attempt': len(mine) + 1})
                if msg.filename == fn and len(mine) + 1 <= n_att:
                    w.spawn('dl', script(link, len(mine) + 1, msg), name='c12-dl-script')

        async def on_link(link):
            if link.typ != 'F':
                return
            raw = await link.read_exactly(4)
            if raw is None:
                return                                  # the losing connection of a connect race
            ticket = int.from_bytes(raw, 'little')
            obs['flinks'].append({'t': round(w.now, 6), 'ticket': ticket, 'accepted': ticket in accepted})
            if ticket not in accepted:
                link.close()
                return
            link.send_raw((0).to_bytes(8, 'little'))
            size = len(files[[k for k, v in rp.items() if v == accepted[ticket]][0]])
            got = 0
            while got < size:
                data = await link.read_some(65536)
                if data is None:
                    break
                got += len(data)
            link.close()
        peer.on_frame, peer.on_link = on_frame, on_link
        link = await peer.dial(me.port, 'P', host=w.net.ip_of('me'))
        await settle(1.0)
        link.send(*[M.PeerTransferQueue.Request(n) for n in names])
        bound = n_att * REPLY_TIMEOUT_S + 45.0
        t_stop = w.loop.time() + bound
        while w.loop.time() < t_stop:
            await settle(1.0)
            mine = [r for r in obs['requests'] if r['file'] == fn]
            last = [e for e in obs['edges'] if e['file'] == fn]
            if last and last[-1]['new'] in ('COMPLETE', 'FAILED'):
                break
            if len(mine) > n_att:
                break                                   # the planned history is over: the next negotiation began
        await settle(1.0)
        obs['t_end'] = round(w.now, 6)
        tr = [t for t in me.client.transfers.transfers if t.remote_path == fn]
        obs['final_state'] = tr[0].state.VALUE.name if tr else None
        me.client.transfers  # noqa
        await w.stop_clients()
        return fn

    out = run_world(f"{ID}:upl:{params.get('seed', 's')}:{params.get('idx', params.get('case', 0))}", main, wall_timeout=120)
    if out.inconclusive:
        res['inconclusive'] = out.inconclusive
        return res
    fn = out.result
    runner.add_obs(res, 'upload_histories')
    reqs = [r for r in obs['requests'] if r['file'] == fn]
    edges = [e for e in obs['edges'] if e['file'] == fn and e['t'] <= obs['t_end']]
    replies = obs['replies']

    def witness(**extra):
        d = {'plan': plan, 'requests_seen_by_the_downloader': obs['requests'], 'replies_sent': replies,
             'file_connections': obs['flinks'], 'transfer_edges': edges, 'final_state': obs['final_state']}
        d.update(extra)
        return d

    if not reqs:
        res['inconclusive'] = 'the upload was never negotiated'
        return res
    by_reason = {r['reason']: r for r in replies if not r['allowed']}
    # the k-th entry into INITIALIZING starts the k-th negotiation (= the k-th PeerTransferRequest the downloader saw);
    # the edge that leaves INITIALIZING next is the end of that negotiation
    k_neg = 0
    end_of: dict[int, dict] = {}
    for e in edges:
        if e['new'] == 'INITIALIZING':
            k_neg += 1
            continue
        if e['old'] != 'INITIALIZING' or not 1 <= k_neg <= len(reqs):
            continue
        cur = reqs[k_neg - 1]
        end_of[k_neg] = e
        runner.add_obs(res, 'upload_negotiations_judged')
        own = [r for r in replies if r['ticket'] == cur['ticket'] and r['t'] + lat <= e['t']]
        deadline = cur['t'] - lat + REPLY_TIMEOUT_S
        if e['new'] == 'FAILED':
            src = by_reason.get(e['fail_reason'])
            if src is None or src['ticket'] != cur['ticket']:
                runner.violation(res, 'upload-negotiation:completed-by-reply-for-another-ticket', witness=witness(
                    edge=e, pending=cur, reply=src))
        elif e['new'] == 'UPLOADING':
            if not any(r['allowed'] for r in own):
                runner.violation(res, 'upload-negotiation:completed-by-reply-for-another-ticket', witness=witness(
                    edge=e, pending=cur))
        elif e['new'] == 'QUEUED':
            if e['t'] < deadline - 1.0 and not own:
                runner.violation(res, 'upload-negotiation:ended-before-its-deadline-without-its-reply', witness=witness(
                    edge=e, pending=cur, deadline=deadline))
    for fl in obs['flinks']:
        ok = any(r['allowed'] and r['ticket'] == fl['ticket'] and r['kind'] == 'match' and r['t'] <= fl['t'] for r in replies)
        if not ok:
            runner.violation(res, 'upload-negotiation:file-connection-for-a-ticket-never-accepted', witness=witness(link=fl))
    # the reply that does answer the pending negotiation takes effect; without one it times out at the deadline
    final = plan['final']
    if len(reqs) >= n_att:
        cur = reqs[n_att - 1]
        deadline = cur['t'] - lat + REPLY_TIMEOUT_S
        after = [end_of[n_att]] if n_att in end_of else []
        if final['act'] == 'allow':
            good = any(fl['ticket'] == cur['ticket'] for fl in obs['flinks']) and obs['final_state'] == 'COMPLETE'
            if not good:
                runner.violation(res, 'matching-reply-ignored:upload-negotiation', witness=witness(pending=cur))
        elif final['act'] == 'reject':
            if not (after and after[0]['new'] == 'FAILED' and after[0]['fail_reason'] == 'Final-reason'):
                runner.violation(res, 'matching-reply-ignored:upload-negotiation', witness=witness(pending=cur))
        else:
            ok = after and after[0]['new'] == 'QUEUED' and abs(after[0]['t'] - deadline) <= 1.0
            if not ok and not any(v['sig'].startswith('upload-negotiation:') for v in res['violations']):
                runner.violation(res, 'upload-negotiation:no-timeout-at-the-deadline', witness=witness(pending=cur, deadline=deadline))
    else:
        if not res['violations']:
            runner.violation(res, 'upload-negotiation:not-renegotiated-after-timeout', witness=witness())
    for r in replies:
        if r['kind'] == 'stale':
            runner.add_obs(res, 'stale_replies_sent')
            if r['state_when_sent'] == 'INITIALIZING':
                runner.add_obs(res, 'stale_replies_while_negotiation_pending')
    for sig, detail in safety_net_violations(out):
        runner.violation(res, 'safety:' + sig, detail=detail, witness=witness())
    res['csigs'].append('upl|%d|%s|%s|%s' % (
        plan['silent'], sorted((st['during'], str(st['ticket_of']), st['allowed'], st['delay']) for st in plan['stale']),
        sorted(final.items()), bool(plan.get('second_file'))))
    runner.add_cover(res, 'kinds', 'upload-negotiation')
    res['sample'] = {'params': {k: v for k, v in params.items() if k != 'plan'}, 'plan': plan, 'edges': edges[:12],
                     'replies': replies, 'file_connections': obs['flinks']}
    return res
