"""C11 — connecting to a peer succeeds iff a path works; nothing is left behind (DESIGN §4 C11)."""
from __future__ import annotations

import itertools
import random

from .. import runner
from ..netcases import DIRECT, INDIRECT, c11_params, run_c11_case, run_connect_back_case

ID = 'C11'
LEVEL = 'fault_enumeration'
QUICK_SCALE = 7.5      # the quick tier was enlarged by this factor after MIN_OBS['quick'] was measured
RULE = ("One real logged-in client asks for a peer connection to a scripted peer. The scenario fixes whether each path "
        "can work: direct in {fast, slow(<10 s), refused, hang(->10 s timeout), reset while sending the init message, "
        "server has no address}, indirect in {peer pierces fast, pierces slowly(<60 s), cannot-connect relayed, silence"
        "(->60 s timeout), server link down, server link being re-established (the connection object exists but is not open: "
        "every send to the server fails at once)}; x connect mode {race, fallback} x port availability {clear, obfuscated, "
        "both} x obfuscation preference x type {P,F,D} x cancellation of the request after k loop steps / t seconds x "
        "server answers with / without the optional obfuscated-port fields. "
        "The mode x direct x indirect grid (72 cells) is enumerated in every run, the rest is seeded. Oracle: result "
        "== (direct works or indirect works) else PeerConnectionError; the returned connection is initialised and "
        "carries a message each way; 120 virtual seconds later: registry == {returned}, open sockets of the client "
        "== that connection's, no ticket waiter, no cannot-connect waiter, no live connect task. kind=connect-back: "
        "the server relays a ConnectToPeer to the client; exactly one of {PeerPierceFirewall(ticket) reaches the "
        "peer, CannotConnect(ticket) reaches the server}. Non-trivial: the request ran to a judged outcome; distinct "
        "= full parameter cell + outcome.")
ASSUMPTIONS = [
    "direct 'works' = the simulated connect completes within 10 s and the init frame is accepted; indirect 'works' = "
    "server link up and the scripted peer pierces with the right ticket within 60 s",
    "when the request is cancelled only the residue rules are judged",
]
MIN_OBS = {'quick': {'requests': 400, 'usable_checks': 100, 'residue_checks': 400, 'connect_back_judged': 60,
                     'requests_while_server_reconnecting': 40},
           'thorough': {'requests': 9000, 'usable_checks': 2500, 'residue_checks': 9000, 'connect_back_judged': 1500,
                        'requests_while_server_reconnecting': 10000}}
SHARD_TIMEOUT = {'quick': 900, 'thorough': 7200}


def cases(tier: str, seed: int) -> list[dict]:
    out = []
    reps = 1 if tier == 'quick' else 3
    for rep in range(reps):
        for mode, d, i in itertools.product(['race', 'fallback'], DIRECT, INDIRECT):
            out.append({'kind': 'request', 'seed': seed, 'n': len(out), 'cell': {'mode': mode, 'direct': d, 'indirect': i,
                                                                                  'cancel': None}})
    # both attempts succeed within the same virtual instant: everything has zero latency, the scripted peer
    # pierces after k zero-time yields (k enumerated), so every relative order of the two outcomes at loop-step
    # granularity occurs
    for typ in ('P', 'D', 'F'):
        for j in range(0, 40):
            out.append({'kind': 'request', 'seed': seed, 'n': len(out),
                        'cell': {'mode': 'race', 'direct': 'fast', 'indirect': 'pierce-fast', 'cancel': None, 'typ': typ,
                                 'same_instant': True, 'i_yields': 0, 'd_yields': j, 'ports': 'clear',
                                 'prefer_obf': False}})
    # rendezvous: one path waits at a known phase for the other one, then a swept number of loop steps
    for typ in ('P', 'F'):
        for j in range(0, 16):
            out.append({'kind': 'request', 'seed': seed, 'n': len(out),
                        'cell': {'mode': 'race', 'direct': 'fast', 'indirect': 'pierce-fast', 'cancel': None, 'typ': typ,
                                 'same_instant': True, 'rendezvous': 'direct-waits-for-pierce-accept', 'd_yields': j,
                                 'i_yields': 0, 'ports': 'clear', 'prefer_obf': False}})
            out.append({'kind': 'request', 'seed': seed, 'n': len(out),
                        'cell': {'mode': 'race', 'direct': 'fast', 'indirect': 'pierce-fast', 'cancel': None, 'typ': typ,
                                 'same_instant': True, 'rendezvous': 'pierce-waits-for-direct-connect', 'd_yields': 0,
                                 'i_yields': j, 'ports': 'clear', 'prefer_obf': False}})
    # the peer pierces twice with the same ticket in the same virtual instant (the second message is handled in the
    # loop step in which the first one completed the waiter, before the waiter has been removed)
    for typ in ('P', 'D', 'F'):
        for mode in ('race', 'fallback'):
            for j in range(0, 6):
                out.append({'kind': 'request', 'seed': seed, 'n': len(out),
                            'cell': {'mode': mode, 'direct': 'refused', 'indirect': 'pierce-fast', 'cancel': None, 'typ': typ,
                                     'same_instant': True, 'i_yields': j, 'd_yields': 0, 'ports': 'clear', 'prefer_obf': False,
                                     'dup_pierce': 0.0, 'my_listen': 'both', 'pierce_init_delay': 0.0}})
    # a contradictory peer: cannot-connect relayed by the server and a pierce message within the same virtual instant
    for typ in ('P', 'F'):
        for mode in ('race', 'fallback'):
            for j in range(0, 6):
                out.append({'kind': 'request', 'seed': seed, 'n': len(out),
                            'cell': {'mode': mode, 'direct': 'refused', 'indirect': 'cannot', 'cancel': None, 'typ': typ,
                                     'same_instant': True, 'i_yields': 0, 'd_yields': 0, 'ports': 'clear', 'prefer_obf': False,
                                     'also_pierce': j, 'dup_pierce': None, 'my_listen': 'both', 'pierce_init_delay': 0.0}})
    n_rand = 4000 if tier == 'quick' else 150000
    for _ in range(n_rand):
        out.append({'kind': 'request', 'seed': seed, 'n': len(out), 'cell': None})
    n_cb = 800 if tier == 'quick' else 25000
    for _ in range(n_cb):
        out.append({'kind': 'connect-back', 'seed': seed, 'n': len(out)})
    return out


def run_case(params: dict) -> dict:
    res = runner.new_result(params['case'])
    rng = random.Random(f"{params['seed']}:C11:{params['n']}")
    if params['kind'] == 'request':
        p = c11_params(rng, params.get('cell'))
        run_c11_case(res, p, f"{params['seed']}:C11:{params['n']}", judge_c10=False, judge_c11=True)
    else:
        run_connect_back_case(res, rng, f"{params['seed']}:C11:cb:{params['n']}", judge_c10=False)
    return res
