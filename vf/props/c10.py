"""C10 — connection life cycle is monotone; the registry is exact (DESIGN §4 C10)."""
from __future__ import annotations

import random

from .. import runner
from ..netcases import c11_params, run_c10_endings_case, run_c11_case, run_connect_back_case

ID = 'C10'
LEVEL = 'fault_enumeration'
QUICK_SCALE = 8      # the quick tier was enlarged by this factor after MIN_OBS['quick'] was measured
RULE = ("A per-connection automaton is fed by the client's ConnectionStateChangedEvent / MessageReceivedEvent stream: "
        "states only move forward (UNINITIALIZED < CONNECTING < CONNECTED < CLOSING < CLOSED; only the server "
        "connection may go CLOSED -> CONNECTING), CLOSED exactly once per connection that ever reported a state, "
        "nothing after it, no message delivered after it, a send after it puts no byte on the tap. At quiescent "
        "moments the registry of peer connections is compared with the simulated network's ground truth (open "
        "endpoints owned by the client) and with the tasks that created the connections. kind=endings: 1-3 "
        "connections per run, incoming (9 init behaviours incl. EOF/RST/silence/garbage/unknown pierce ticket) or "
        "outgoing, plain or obfuscated, type P/D/F, ended by local disconnect (1-3 concurrent calls), remote EOF, "
        "RST, read timeout, write timeout (peer stops reading; also with queued messages, whose failing task cancels "
        "itself), local+remote together, client stop, disconnect() while still CONNECTING (at 1 s, or aimed at the "
        "instant the 3 s connect completes), cancellation of the task running disconnect() or of the connecting "
        "request after 0-10 loop steps / 20-200 ms; optionally an application listener for state changes that "
        "suspends (1-3 loop steps or 50 ms), so that every notification is a suspension point; in a third of the runs "
        "the last act is Network.disconnect() overlapped, 0-7 loop steps / 1-10 ms in, by a request with a known "
        "address or a peer dialling in: whatever is opened meanwhile has to be registered while it is open. kind=request / "
        "connect-back: the C11 scenarios (refused, hanging, reset, cancelled after k loop steps ...) judged with "
        "the C10 rules. Non-trivial: >= 1 connection reached CLOSED under observation; distinct = full spec + result.")
ASSUMPTIONS = [
    "an endpoint whose close() is in progress (FIN not yet confirmed) is not a leak",
    "a registry entry in CONNECTING/CLOSING state is legitimate while the task that created it is still running",
]
MIN_OBS = {'quick': {'conns_closed': 800, 'conn_events': 3000, 'registry_checks': 600, 'endings_judged': 100,
                     'opened_during_disconnect': 80},
           'thorough': {'conns_closed': 40000, 'conn_events': 150000, 'registry_checks': 30000, 'endings_judged': 5000,
                        'opened_during_disconnect': 15000}}
SHARD_TIMEOUT = {'quick': 900, 'thorough': 7200}


def cases(tier: str, seed: int) -> list[dict]:
    out = []
    n_end, n_req, n_cb = (3000, 2000, 400) if tier == 'quick' else (150000, 80000, 15000)
    for _ in range(n_end):
        out.append({'kind': 'endings', 'seed': seed, 'n': len(out)})
    for _ in range(n_req):
        out.append({'kind': 'request', 'seed': seed, 'n': len(out)})
    for _ in range(n_cb):
        out.append({'kind': 'connect-back', 'seed': seed, 'n': len(out)})
    return out


def run_case(params: dict) -> dict:
    res = runner.new_result(params['case'])
    rng = random.Random(f"{params['seed']}:C10:{params['n']}")
    sd = f"{params['seed']}:C10:{params['n']}"
    if params['kind'] == 'endings':
        run_c10_endings_case(res, rng, sd)
    elif params['kind'] == 'request':
        p = c11_params(rng)
        # cancellation of the connecting task at every await: bias towards step-wise cancels
        if rng.random() < 0.5:
            p['cancel'] = 'steps'
        run_c11_case(res, p, sd, judge_c10=True, judge_c11=False)
        # strip the c10: prefix the shared runner adds
        for v in res['violations']:
            if v['sig'].startswith('c10:'):
                v['sig'] = v['sig'][4:]
    else:
        run_connect_back_case(res, rng, sd, judge_c10=True)
        for v in res['violations']:
            if v['sig'].startswith('c10:'):
                v['sig'] = v['sig'][4:]
    return res
