"""C19 — room and user views equal the fold of the server's announcements.

A real logged-in client runs on the simulated world; the scripted server pushes
a sequence of well-formed notifications.  After every notification the monitor
compares the client's room / user view with ``vf.roommodel`` (a fold written
from the statement), checks the events that the notification caused, and
watches the global safety nets (logged handler exceptions, loop exceptions).

The library stores ``User`` objects weakly.  Cases therefore run in one of two
reference modes: 'hold' (the harness keeps the three users alive, so every
announced value stays comparable) and 'release' (the harness keeps no User /
Room / event object between notifications, collects garbage before comparing
and looks users up afresh), in which a user that nothing references may forget
status and statistics but must remember what was announced about privileges.
``UserManager.privileged_users`` is compared with the fold in both modes.
"""
from __future__ import annotations

import copy
import gc
import random
from typing import Any, Optional

from vf import roommodel as rm
from vf import runner

ID = 'C19'
LEVEL = 'exploration'
QUICK_SCALE = 3.5      # the quick tier was enlarged by this factor after MIN_OBS['quick'] was measured
QUICK_FIXED = ('kinds_covered', 'exhaustive_sequences')      # counters of fixed-size parts (coverage, enumerations): not scaled
ME = 'me'
USERS = ('me', 'u1', 'u2')
ROOMS = ('r1', 'r2')          # r1 public-ish, r2 private-ish (only biases the generator)
MAX_LEN = 12

RULE = (
    "One case = one simulated world: real SoulSeekClient 'me' logged in to the scripted server, which pushes one "
    "sequence (length 1..12, non-decreasing with the case number so the lowest-numbered witness is a shortest one) "
    "drawn from random.Random(f'{seed}:C19:{case}') over 25 notification kinds x rooms {r1,r2} x users {me,u1,u2} "
    "with seeded arguments and a seeded block list for u1/u2 (none, PRIVATE_MESSAGES, ROOM_MESSAGES, IGNORE, ALL, "
    "SEARCHES|UPLOADS) fixed at client creation. Before the random cases every sequence of length 1 (quick) resp. <= 2 "
    "(thorough) over a fixed alphabet (every kind x both rooms, chat from an unblocked and a blocked user; block list "
    "u2:ALL) is enumerated, each once per reference mode. Reference mode (seeded per case): 'hold' = the harness keeps "
    "strong references to the three User objects (every announced status/stats value stays comparable); 'release' = "
    "the harness keeps no reference to any User, Room or event object between notifications (events are reduced to "
    "plain values inside the listener) and runs gc.collect() before every comparison, so users live and die exactly as "
    "the library's weak store dictates and are looked up afresh for each comparison. About 15 % of the random cases of "
    "length >= 5 embed a privilege-lifetime history (announce privileges -> make the user referenced -> announce the "
    "opposite by list / single-user update -> last reference goes away by UserLeftRoom / LeaveRoom / RoomList -> the "
    "user is referenced again) padded with random notifications. After each notification "
    "(settled): every field of every room the model knows, status/stats/privileged of the three users and "
    "UserManager.privileged_users are compared "
    "with the fold; events recorded since the push are checked for target, chat events for block filtering, private "
    "messages for the acknowledgement. After a reported divergence the model adopts the observed value so later "
    "steps judge only new divergences. A case is non-trivial when >= 2 notifications changed the model state; "
    "distinct = distinct kind sequences of such cases."
)
ASSUMPTIONS = [
    "The fold in vf/roommodel.py is the reading of the statement: join adds, leave removes (own leave empties the "
    "user list), grant adds, revoke removes (membership revoke also drops operator), member/operator/ticker lists "
    "replace; RoomList: known rooms := public+private+owned lists, own owner/member/operator flags as listed, "
    "private := not in the public list, other users' memberships/operators, joined flag, user list and tickers of "
    "rooms that stay known untouched.",
    "Readings left open by the statement are all accepted: the user list of our own join may be added to or replace "
    "the users already known in the room; order of the user list and of tickers is not judged (duplicates are); a "
    "room the library does not hold equals a default room; privacy is judged only when determined by a join "
    "(owner present), a room list, or a first mention through a private-room notification, and becomes unjudged "
    "when a private-room notification arrives for a room last seen as public.",
    "Not judged: Room.user_count, whether a Room object exists for rooms only mentioned by chat or no longer listed, "
    "User.country / slots_free, which event class a notification produces, whether non-chat notifications produce an "
    "event at all (only that emitted events name the announced room/user).",
    "The library stores users weakly. In 'release' cases a user that nothing references any more (observed through "
    "UserManager.users after gc.collect()) may have forgotten status and statistics (the fold forgets them too: "
    "'unknown' makes no false claim) but not privileges: a user looked up again must carry the privileged flag the "
    "announcements imply. In 'hold' cases the harness's own references keep all three users alive.",
    "UserManager.privileged_users is read as the library's public view of who is privileged and is compared with the "
    "set of users the fold holds privileged (all user names used are among the three users).",
    "Every pushed frame is built with the repository's message classes and verified to round-trip through the "
    "codec before it is sent (parallel arrays of equal length); the codec itself is trusted here.",
    "Virtual time; 0.05 virtual seconds after a push the client has handled it (segment latency <= 4 ms per direction).",
]
MIN_OBS = {
    'quick': {'sequences': 1400, 'notifications_applied': 8000, 'state_comparisons': 30000, 'events_checked': 6000,
              'chat_blocked_judged': 100, 'chat_unblocked_judged': 300, 'acks_checked': 150, 'kinds_covered': 25, 'exhaustive_sequences': 90, 'rereferenced_privilege_checks': 3000,
              'privileged_set_comparisons': 8000, 'users_released': 100, 'lifetime_histories': 30},
    'thorough': {'sequences': 60000, 'notifications_applied': 350000, 'state_comparisons': 1200000,
                 'events_checked': 250000, 'chat_blocked_judged': 4000, 'chat_unblocked_judged': 12000,
                 'acks_checked': 6000, 'kinds_covered': 25, 'exhaustive_sequences': 5000,
                 'rereferenced_privilege_checks': 120000, 'privileged_set_comparisons': 350000, 'users_released': 4000,
                 'lifetime_histories': 1200},
}
SHARD_TIMEOUT = {'quick': 600, 'thorough': 5400}
N_RANDOM = {'quick': 6000, 'thorough': 600000}
WHAT_FAILS = {
    'state:user-privileged:rereferenced-after': 'a user that was released and is looked up again carries a privileged '
                                                'flag other than the one last announced (by the named kind)',
    'state:privileged-set': 'UserManager.privileged_users differs from the users announced as privileged',
    'state:': 'a room/user field differs from the fold of the announcements after the named notification kind',
    'event:wrong-target': 'an event names a room/user other than the one the notification announced',
    'event:missing': 'a chat message from a user not blocked for that kind produced no event',
    'event:unexpected-blocked': 'a chat message from a user blocked for that kind was reported',
    'ack:missing': 'a private chat message was not acknowledged to the server',
    'handler-exception': 'handling a well-formed notification raised',
}

# --------------------------------------------------------------------------
# block list

_BLOCK_CHOICES = ('none', 'none', 'PRIVATE_MESSAGES', 'ROOM_MESSAGES', 'IGNORE', 'ALL', 'SEARCHES|UPLOADS')
_FLAG_BITS = {'NONE': 0, 'PRIVATE_MESSAGES': 1, 'ROOM_MESSAGES': 2, 'SEARCHES': 4, 'SHARES': 8, 'INFO': 16,
              'UPLOADS': 32, 'IGNORE': 3, 'ALL': 63}   # the documented meaning of the flags (not read from the library)


def _flag_value(spec: str) -> int:
    v = 0
    for part in spec.split('|'):
        v |= _FLAG_BITS[part.strip().upper() if part != 'none' else 'NONE']
    return v


def is_blocked(blocked: dict, user: str, what: str) -> bool:
    return bool(_flag_value(blocked.get(user, 'none')) & _FLAG_BITS[what])


# --------------------------------------------------------------------------
# generation

_TEXTS = ('hello', 'wall text', 'zzz', 'x')
_COUNTRIES = ('DE', 'US', 'NL')


def _stats(rng):
    return [rng.randrange(0, 5000), rng.randrange(0, 100), rng.randrange(0, 1000), rng.randrange(0, 50)]


def _subset(rng, items, p=0.5):
    out = [x for x in items if rng.random() < p]
    rng.shuffle(out)
    return out


def gen_note(rng: random.Random, kind: str, chat_id: int) -> dict:
    room = rng.choice(ROOMS)
    user = rng.choice(USERS)
    n: dict = {'k': kind}
    if kind == 'RoomList':
        cats = {'public': [], 'owned': [], 'private': [], 'operated': []}
        weights = {'r1': (60, 10, 10, 20), 'r2': (15, 25, 40, 20)}
        for r in ROOMS:
            cat = rng.choices(('public', 'owned', 'private', 'absent'), weights[r])[0]
            if cat != 'absent':
                cats[cat].append(r)
            p_op = {'public': 0.05, 'owned': 0.3, 'private': 0.5, 'absent': 0.1}[cat]
            if rng.random() < p_op:
                cats['operated'].append(r)
        n.update(cats)
        n['counts'] = [rng.randrange(0, 40) for _ in range(6)]
    elif kind == 'JoinRoom':
        users = _subset(rng, USERS, 0.6)
        if rng.random() < 0.7 and ME not in users:
            users.append(ME)
        n['room'] = room
        n['users'] = [[u, rng.randrange(0, 3), _stats(rng), rng.randrange(0, 4), rng.choice(_COUNTRIES)] for u in users]
        if rng.random() < (0.75 if room == 'r2' else 0.15):
            n['owner'] = rng.choice(USERS)
            n['operators'] = _subset(rng, [u for u in USERS if u != n['owner']], 0.5)
        else:
            n['owner'], n['operators'] = None, None
    elif kind in ('LeaveRoom', 'PrivateRoomMembershipGranted', 'PrivateRoomMembershipRevoked',
                  'PrivateRoomOperatorGranted', 'PrivateRoomOperatorRevoked'):
        n['room'] = room
    elif kind == 'UserJoinedRoom':
        n.update(room=room, user=user, status=rng.randrange(0, 3), stats=_stats(rng), slots=rng.randrange(0, 4),
                 country=rng.choice(_COUNTRIES))
    elif kind in ('UserLeftRoom', 'RoomTickerRemoved', 'PrivateRoomGrantMembership', 'PrivateRoomRevokeMembership',
                  'PrivateRoomGrantOperator', 'PrivateRoomRevokeOperator'):
        n.update(room=room, user=user)
    elif kind == 'RoomTickers':
        n.update(room=room, tickers=[[u, rng.choice(_TEXTS)] for u in _subset(rng, USERS, 0.5)])
    elif kind == 'RoomTickerAdded':
        n.update(room=room, user=user, text=rng.choice(_TEXTS))
    elif kind in ('PrivateRoomMembers', 'PrivateRoomOperators'):
        n.update(room=room, users=_subset(rng, USERS, 0.5))
    elif kind == 'GetUserStatus':
        n.update(user=user, status=rng.randrange(0, 3), privileged=rng.random() < 0.5)
    elif kind == 'GetUserStats':
        n.update(user=user, stats=_stats(rng))
    elif kind == 'PrivilegedUsers':
        n['users'] = _subset(rng, USERS, 0.4)
    elif kind == 'AddPrivilegedUser':
        n['user'] = user
    elif kind in ('RoomChatMessage', 'PublicChatMessage'):
        n.update(room=room, user=user, text=f'{rng.choice(_TEXTS)} #{chat_id}')
    elif kind == 'PrivateChatMessage':
        n.update(chat_id=chat_id, ts=1_700_000_000 + chat_id, user=rng.choice(USERS[1:] + USERS[1:] + (ME,)),
                 text=f'{rng.choice(_TEXTS)} #{chat_id}', direct=rng.random() < 0.5)
    else:
        raise ValueError(kind)
    return n


def gen_life(rng: random.Random) -> list:
    """A privilege-lifetime history of one user (4..6 notifications): privileges announced, the opposite announced,
    the last reference to the user goes away, the user is referenced again."""
    u = rng.choice(USERS[1:])
    other = [x for x in USERS[1:] if x != u]
    r = rng.choice(ROOMS)
    ends_privileged = rng.random() < 0.3

    def status(priv):
        return {'k': 'GetUserStatus', 'user': u, 'status': rng.randrange(0, 3), 'privileged': priv}

    def plist(with_u):
        names = ([u] if with_u else []) + _subset(rng, other + [ME], 0.4)
        rng.shuffle(names)
        return {'k': 'PrivilegedUsers', 'users': names}

    def user_joined(room):
        return {'k': 'UserJoinedRoom', 'room': room, 'user': u, 'status': rng.randrange(0, 3), 'stats': _stats(rng),
                'slots': rng.randrange(0, 4), 'country': rng.choice(_COUNTRIES)}

    def we_joined(room):
        users = [u] + _subset(rng, [x for x in USERS if x != u], 0.5)
        rng.shuffle(users)
        return {'k': 'JoinRoom', 'room': room,
                'users': [[x, rng.randrange(0, 3), _stats(rng), rng.randrange(0, 4), rng.choice(_COUNTRIES)]
                          for x in users], 'owner': None, 'operators': None}

    def announce(priv):
        if priv:
            return rng.choice((plist(True), {'k': 'AddPrivilegedUser', 'user': u}, status(True)))
        return rng.choice((plist(False), status(False), status(False)))

    notes = []
    first = announce(not ends_privileged)
    live = rng.random() < 0.75
    enter = rng.choice((user_joined, we_joined))(r) if live else None
    head = [x for x in (first, enter) if x is not None]
    if rng.random() < 0.5:
        head.reverse()
    notes.extend(head)
    notes.append(announce(ends_privileged))
    if live:
        other_room = [x for x in ROOMS if x != r]
        notes.append(rng.choice((
            {'k': 'UserLeftRoom', 'room': r, 'user': u},
            {'k': 'LeaveRoom', 'room': r},
            {'k': 'RoomList', 'public': other_room if rng.random() < 0.5 else [], 'owned': [], 'private': [],
             'operated': [], 'counts': [rng.randrange(0, 40) for _ in range(6)]})))
    r2 = rng.choice(ROOMS)
    notes.append(rng.choice((
        user_joined(r2), we_joined(r2),
        {'k': 'GetUserStats', 'user': u, 'stats': _stats(rng)},
        {'k': 'RoomTickerAdded', 'room': r2, 'user': u, 'text': rng.choice(_TEXTS)},
        {'k': 'PrivateRoomGrantMembership', 'room': r2, 'user': u})))
    if rng.random() < 0.5:
        notes.append(user_joined(rng.choice(ROOMS)))
    return notes


def gen_random(seed: int, idx: int, length: int) -> tuple[dict, list, bool, bool]:
    """(blocked, notes, hold, has a lifetime history)"""
    rng = random.Random(f'{seed}:{ID}:{idx}')
    blocked = {}
    for u in USERS[1:]:
        spec = rng.choice(_BLOCK_CHOICES)
        if spec != 'none':
            blocked[u] = spec
    hold = rng.random() < 0.4
    if length >= 5 and rng.random() < 0.15:
        core = gen_life(rng)[:length]
        slots = sorted(rng.randrange(0, len(core) + 1) for _ in range(length - len(core)))
        notes = []
        fill = 0
        for pos in range(len(core) + 1):
            while fill < len(slots) and slots[fill] == pos:
                notes.append(gen_note(rng, rng.choice(rm.KINDS), 2000 + fill))
                fill += 1
            if pos < len(core):
                notes.append(core[pos])
        return blocked, notes, hold and rng.random() < 0.5, True
    # bias a case towards a subset of kinds so that related notifications meet more often
    kinds = list(rm.KINDS)
    if rng.random() < 0.5:
        focus = rng.sample(kinds, rng.randrange(4, 10))
        weights = [6 if k in focus else 1 for k in kinds]
    else:
        weights = [1] * len(kinds)
    notes = []
    for i in range(length):
        kind = rng.choices(kinds, weights)[0]
        notes.append(gen_note(rng, kind, 1000 + i))
    return blocked, notes, hold, False


def _alphabet() -> list[dict]:
    """Fixed argument choice per kind (x both rooms; chat from an unblocked and a blocked user)."""
    st = [1200, 7, 300, 12]
    letters: list[dict] = []
    letters.append({'k': 'RoomList', 'public': ['r1'], 'owned': [], 'private': ['r2'], 'operated': ['r2'],
                    'counts': [3, 0, 2, 0, 0, 0]})
    letters.append({'k': 'RoomList', 'public': ['r2'], 'owned': ['r1'], 'private': [], 'operated': [],
                    'counts': [5, 1, 0, 0, 0, 0]})
    letters.append({'k': 'RoomList', 'public': [], 'owned': [], 'private': [], 'operated': [], 'counts': [0] * 6})
    for r in ROOMS:
        letters.append({'k': 'JoinRoom', 'room': r, 'users': [['me', 2, st, 1, 'DE'], ['u1', 1, [10, 1, 2, 3], 0, 'US']],
                        'owner': 'u1' if r == 'r2' else None, 'operators': ['u2'] if r == 'r2' else None})
        letters.append({'k': 'LeaveRoom', 'room': r})
        letters.append({'k': 'UserJoinedRoom', 'room': r, 'user': 'u2', 'status': 2, 'stats': [99, 9, 8, 7], 'slots': 2,
                        'country': 'NL'})
        letters.append({'k': 'UserLeftRoom', 'room': r, 'user': 'u1'})
        letters.append({'k': 'RoomTickers', 'room': r, 'tickers': [['u1', 'wall'], ['me', 'mine']]})
        letters.append({'k': 'RoomTickerAdded', 'room': r, 'user': 'u1', 'text': 'added'})
        letters.append({'k': 'RoomTickerRemoved', 'room': r, 'user': 'u1'})
        letters.append({'k': 'PrivateRoomMembers', 'room': r, 'users': ['u1', 'me']})
        letters.append({'k': 'PrivateRoomOperators', 'room': r, 'users': ['u1']})
        letters.append({'k': 'PrivateRoomGrantMembership', 'room': r, 'user': 'u1'})
        letters.append({'k': 'PrivateRoomRevokeMembership', 'room': r, 'user': 'u1'})
        letters.append({'k': 'PrivateRoomMembershipGranted', 'room': r})
        letters.append({'k': 'PrivateRoomMembershipRevoked', 'room': r})
        letters.append({'k': 'PrivateRoomGrantOperator', 'room': r, 'user': 'u1'})
        letters.append({'k': 'PrivateRoomRevokeOperator', 'room': r, 'user': 'u1'})
        letters.append({'k': 'PrivateRoomOperatorGranted', 'room': r})
        letters.append({'k': 'PrivateRoomOperatorRevoked', 'room': r})
    for u in ('u1', 'u2'):
        letters.append({'k': 'RoomChatMessage', 'room': 'r1', 'user': u, 'text': 'room chat'})
        letters.append({'k': 'PublicChatMessage', 'room': 'r1', 'user': u, 'text': 'public chat'})
        letters.append({'k': 'PrivateChatMessage', 'chat_id': 0, 'ts': 1_700_000_123, 'user': u, 'text': 'private chat',
                        'direct': True})
    letters.append({'k': 'GetUserStatus', 'user': 'u1', 'status': 1, 'privileged': True})
    letters.append({'k': 'GetUserStatus', 'user': 'u1', 'status': 2, 'privileged': False})
    letters.append({'k': 'GetUserStatus', 'user': 'me', 'status': 1, 'privileged': False})
    letters.append({'k': 'GetUserStats', 'user': 'u1', 'stats': [4321, 5, 6, 7]})
    letters.append({'k': 'PrivilegedUsers', 'users': ['u1']})
    letters.append({'k': 'PrivilegedUsers', 'users': []})
    letters.append({'k': 'AddPrivilegedUser', 'user': 'u1'})
    return letters


ALPHABET = _alphabet()
EXH_BLOCKED = {'u2': 'ALL'}
EXHAUSTIVE = {'quick': False, 'thorough': False}   # exhaustive only up to length 2; the claim is the sampled one


def _length_for(i: int, n: int) -> int:
    """Non-decreasing in i: ~3 % length 1, ~6 % length 2, the rest spread over 3..12."""
    f = i / max(1, n)
    if f < 0.03:
        return 1
    if f < 0.09:
        return 2
    return min(MAX_LEN, 3 + int((f - 0.09) / 0.91 * 10))


def cases(tier: str, seed: int) -> list[dict]:
    out: list[dict] = []
    na = len(ALPHABET)
    for a in range(na):                       # every single notification: shortest witnesses come first
        for hold in (True, False):
            out.append({'mode': 'exh', 'seq': [a], 'hold': hold})
    if tier == 'thorough':
        for a in range(na):
            for b in range(na):
                for hold in (True, False):
                    out.append({'mode': 'exh', 'seq': [a, b], 'hold': hold})
    n = N_RANDOM[tier]
    for i in range(n):
        out.append({'mode': 'rand', 'seed': seed, 'idx': i, 'len': _length_for(i, n)})
    return out


def expand(params: dict) -> tuple[dict, list, bool, bool]:
    """(blocked, notes, hold, lifetime history) of a case; explicit 'notes' (replay of a hand-written witness) win."""
    if 'notes' in params:
        return (dict(params.get('blocked') or {}), copy.deepcopy(params['notes']), bool(params.get('hold', False)),
                False)
    if params['mode'] == 'exh':
        notes = [copy.deepcopy(ALPHABET[a]) for a in params['seq']]
        for i, n in enumerate(notes):
            if n['k'] == 'PrivateChatMessage':
                n['chat_id'] = 500 + i
        return dict(EXH_BLOCKED), notes, bool(params.get('hold', True)), False
    return gen_random(params['seed'], params['idx'], params['len'])


# --------------------------------------------------------------------------
# abstract notification -> wire message

def to_message(n: dict):
    from aioslsk.protocol import messages as M
    from aioslsk.protocol.primitives import RoomTicker, UserStats
    k = n['k']
    if k == 'RoomList':
        c = n.get('counts') or [0] * 6
        pub, own, prv = list(n['public']), list(n['owned']), list(n['private'])
        return M.RoomList.Response(
            rooms=pub, rooms_user_count=[c[i % 6] for i in range(len(pub))],
            rooms_private_owned=own, rooms_private_owned_user_count=[c[(i + 2) % 6] for i in range(len(own))],
            rooms_private=prv, rooms_private_user_count=[c[(i + 4) % 6] for i in range(len(prv))],
            rooms_private_operated=list(n['operated']))
    if k == 'JoinRoom':
        us = n['users']
        kw = {}
        if n.get('owner') is not None:
            kw = {'owner': n['owner'], 'operators': list(n.get('operators') or [])}
        return M.JoinRoom.Response(
            room=n['room'], users=[u[0] for u in us], users_status=[u[1] for u in us],
            users_stats=[UserStats(*u[2]) for u in us], users_slots_free=[u[3] for u in us],
            users_countries=[u[4] for u in us], **kw)
    if k == 'LeaveRoom':
        return M.LeaveRoom.Response(n['room'])
    if k == 'UserJoinedRoom':
        return M.UserJoinedRoom.Response(n['room'], n['user'], n['status'], UserStats(*n['stats']), n['slots'],
                                         n['country'])
    if k == 'UserLeftRoom':
        return M.UserLeftRoom.Response(n['room'], n['user'])
    if k == 'RoomTickers':
        return M.RoomTickers.Response(n['room'], [RoomTicker(u, t) for u, t in n['tickers']])
    if k == 'RoomTickerAdded':
        return M.RoomTickerAdded.Response(n['room'], n['user'], n['text'])
    if k == 'RoomTickerRemoved':
        return M.RoomTickerRemoved.Response(n['room'], n['user'])
    if k in ('PrivateRoomMembers', 'PrivateRoomOperators'):
        return getattr(M, k).Response(n['room'], list(n['users']))
    if k in ('PrivateRoomGrantMembership', 'PrivateRoomRevokeMembership', 'PrivateRoomGrantOperator',
             'PrivateRoomRevokeOperator'):
        return getattr(M, k).Response(n['room'], n['user'])
    if k in ('PrivateRoomMembershipGranted', 'PrivateRoomMembershipRevoked', 'PrivateRoomOperatorGranted',
             'PrivateRoomOperatorRevoked'):
        return getattr(M, k).Response(n['room'])
    if k == 'GetUserStatus':
        return M.GetUserStatus.Response(n['user'], n['status'], bool(n['privileged']))
    if k == 'GetUserStats':
        return M.GetUserStats.Response(n['user'], UserStats(*n['stats']))
    if k == 'PrivilegedUsers':
        return M.PrivilegedUsers.Response(list(n['users']))
    if k == 'AddPrivilegedUser':
        return M.AddPrivilegedUser.Response(n['user'])
    if k in ('RoomChatMessage', 'PublicChatMessage'):
        return getattr(M, k).Response(n['room'], n['user'], n['text'])
    if k == 'PrivateChatMessage':
        return M.PrivateChatMessage.Response(n['chat_id'], n['ts'], n['user'], n['text'], bool(n.get('direct', True)))
    raise ValueError(k)


def frame_is_legal(msg) -> Optional[str]:
    """The scripted server must not break the protocol: the frame has to decode
    to an equal message, and parallel arrays have to be parallel."""
    name = type(msg).__qualname__
    if name == 'JoinRoom.Response':
        if len({len(msg.users), len(msg.users_status), len(msg.users_stats), len(msg.users_slots_free),
                len(msg.users_countries)}) != 1:
            return 'JoinRoom arrays not parallel'
        if len(set(msg.users)) != len(msg.users):
            return 'JoinRoom duplicate user'
        if (msg.owner is None) != (msg.operators is None):
            return 'JoinRoom owner/operators optional fields inconsistent'
    if name == 'RoomList.Response':
        if (len(msg.rooms) != len(msg.rooms_user_count)
                or len(msg.rooms_private_owned) != len(msg.rooms_private_owned_user_count)
                or len(msg.rooms_private) != len(msg.rooms_private_user_count)):
            return 'RoomList arrays not parallel'
    try:
        back = type(msg).deserialize(0, msg.serialize())
    except Exception as exc:  # noqa
        return f'frame does not decode: {exc!r}'
    if back != msg:
        return f'frame does not round-trip: {back!r}'
    return None


# --------------------------------------------------------------------------
# observation of the real client

def real_room(client, name: str) -> Optional[dict]:
    room = client.rooms.rooms.get(name)
    if room is None:
        return None
    return {'joined': room.joined, 'users': [u.name for u in room.users], 'owner': room.owner,
            'members': set(room.members), 'operators': set(room.operators), 'tickers': dict(room.tickers),
            'private': room.private}


def real_user(user) -> dict:
    return {'status': user.status.value, 'privileged': user.privileged, 'avg_speed': user.avg_speed,
            'uploads': user.uploads, 'shared_file_count': user.shared_file_count,
            'shared_folder_count': user.shared_folder_count}


def _room_field_equal(field: str, model, real) -> bool:
    if field == 'users':
        return sorted(model) == sorted(real)
    if field == 'private':
        return model is None or bool(model) == bool(real)
    return model == real


_SINGLE_USER_ATTRS = ('user', 'member', 'current', 'before')
_LIST_USER_ATTRS = ('users', 'members', 'operators')


def event_targets(ev) -> tuple[list, list, bool]:
    """(room names, user names, has an unset optional user/member) named by an event."""
    rooms, users, unset = [], [], False
    carrier = ev
    msg = getattr(ev, 'message', None)
    if msg is not None and not isinstance(msg, str):   # RoomMessageEvent / PrivateMessageEvent wrap a message object
        carrier = msg
    room = getattr(carrier, 'room', None)
    if room is not None:
        rooms.append(room.name)
    for r in getattr(ev, 'rooms', None) or []:
        rooms.append(r.name)
    for attr in _SINGLE_USER_ATTRS:
        if hasattr(carrier, attr):
            u = getattr(carrier, attr)
            if u is None:
                unset = True
            else:
                users.append(u.name)
    for attr in _LIST_USER_ATTRS:
        for u in getattr(ev, attr, None) or []:
            users.append(u.name)
    tick = getattr(ev, 'tickers', None)
    if isinstance(tick, dict):
        users.extend(tick.keys())
    return rooms, users, unset


_FROZEN = False
_CHAT_EVENTS = ('RoomMessageEvent', 'PublicMessageEvent', 'PrivateMessageEvent')
_OPTIONAL_TARGET_EVENTS = ('RoomJoinedEvent', 'RoomLeftEvent', 'RoomMembershipGrantedEvent',
                           'RoomMembershipRevokedEvent', 'RoomOperatorGrantedEvent', 'RoomOperatorRevokedEvent')


def _event_brief(ev) -> dict:
    """An event reduced to plain values: the harness must not keep the event
    (and with it Room / User objects) alive."""
    rooms, users, unset = event_targets(ev)
    brief = {'event': type(ev).__name__, 'rooms': rooms, 'users': users, 'optional_user_unset': unset}
    if brief['event'] in _CHAT_EVENTS:
        brief['text'] = ev.message if isinstance(ev.message, str) else ev.message.message
    return brief


# --------------------------------------------------------------------------

def run_case(params: dict) -> dict:
    from aioslsk import events as E
    from aioslsk.protocol.messages import PrivateChatMessageAck
    from aioslsk.settings import UsersSettings
    from aioslsk.user.model import BlockingFlag
    from vf.simloop import settle
    from vf.world import World, run_world

    res = runner.new_result(params.get('case', 0))
    blocked, notes, hold, life = expand(params)
    global _FROZEN
    if not hold and not _FROZEN:
        # 'release' cases run a full collection before every comparison; with the interpreter's long-lived objects
        # (modules, classes, pydantic schemas) moved out of the collector's view such a collection costs ~1 ms
        # instead of ~50 ms. Only affects this (shard) process.
        gc.collect()
        gc.freeze()
        _FROZEN = True
    if not 1 <= len(notes) <= MAX_LEN:
        res['inconclusive'] = f'sequence length {len(notes)} outside 1..{MAX_LEN}'
        return res

    recorded = (
        E.RoomListEvent, E.RoomMessageEvent, E.RoomTickersEvent, E.RoomTickerAddedEvent, E.RoomTickerRemovedEvent,
        E.RoomJoinedEvent, E.RoomLeftEvent, E.RoomMembershipGrantedEvent, E.RoomMembershipRevokedEvent,
        E.RoomOperatorGrantedEvent, E.RoomOperatorRevokedEvent, E.RoomOperatorsEvent, E.RoomMembersEvent,
        E.PrivateMessageEvent, E.PublicMessageEvent,
        E.UserStatusUpdateEvent, E.UserStatsUpdateEvent, E.PrivilegedUsersEvent, E.PrivilegedUserAddedEvent,
    )
    chat_event = {'RoomChatMessage': ('RoomMessageEvent', 'ROOM_MESSAGES'),
                  'PublicChatMessage': ('PublicMessageEvent', 'ROOM_MESSAGES'),
                  'PrivateChatMessage': ('PrivateMessageEvent', 'PRIVATE_MESSAGES')}
    trace: list = []
    changed_kinds: list = []

    def witness(i: int, **extra) -> dict:
        d = {'blocked': blocked, 'references': 'hold' if hold else 'release', 'notifications': notes[:i + 1],
             'step': i}
        d.update(extra)
        return rm.jsonable(d)

    async def main(w: World):
        await w.start_server()
        settings = w.make_settings(ME, users=UsersSettings(
            blocked={u: BlockingFlag(_flag_value(spec)) for u, spec in blocked.items()}))
        h = await w.add_client(ME, settings)
        client = h.client
        await settle(0.5)
        # 'hold': strong refs for the whole case; 'release': none at all (users live and die as in the library)
        held = {name: client.users.get_user_object(name) for name in USERS} if hold else None
        events: list[dict] = []          # plain values only

        def on_event(ev):
            events.append(_event_brief(ev))

        for cls in recorded:
            h.listen(cls, on_event)

        def observe_user(name: str) -> dict:
            user = held[name] if held is not None else client.users.get_user_object(name)
            return real_user(user)       # the temporary reference ends here

        model = rm.new_state(ME, {name: observe_user(name) for name in USERS})
        last_privilege_kind = {name: 'initial' for name in USERS}
        set_diff_known = rm.privileged_set(model) ^ set(client.users.privileged_users)

        for i, n in enumerate(notes):
            kind = n['k']
            msg = to_message(n)
            why = frame_is_legal(msg)
            if why:
                raise RuntimeError(f'harness built an illegal frame for {kind}: {why}')
            ev0, log0, exc0, fr0 = len(events), len(w.log.records), len(w.loop.exceptions), len(w.server.frames)
            w.server.push(ME, msg)
            del msg
            await settle(0.05)
            runner.add_obs(res, 'notifications_applied')
            runner.add_cover(res, 'kinds', kind)

            # -- the fold ------------------------------------------------------
            nxt = rm.apply(model, n)
            if kind == 'JoinRoom':
                alt = rm.apply(model, n, join_replaces=True)
                real = real_room(client, n['room'])
                if (real is not None
                        and sorted(alt['rooms'][n['room']]['users']) != sorted(nxt['rooms'][n['room']]['users'])
                        and sorted(real['users']) == sorted(alt['rooms'][n['room']]['users'])):
                    nxt = alt
                    runner.add_cover(res, 'join_user_list_reading', 'replace')
            if nxt['rooms'] != model['rooms'] or nxt['users'] != model['users']:
                changed_kinds.append(kind)
            model = nxt
            if kind == 'PrivilegedUsers':
                for name in USERS:
                    last_privilege_kind[name] = kind
            elif kind in rm.PRIVILEGE_KINDS:
                last_privilege_kind[n['user']] = kind

            # -- safety nets -----------------------------------------------------
            bad_logs = [r for r in w.log.records[log0:] if r['level'] in ('ERROR', 'CRITICAL') and r['exc_type']]
            bad_loop = w.loop.exceptions[exc0:]
            if bad_logs or bad_loop:
                runner.violation(res, f'handler-exception:{kind}', witness=witness(
                    i, log=[{k: r[k] for k in ('logger', 'msg', 'exc', 'tb')} for r in bad_logs[:2]],
                    loop_exceptions=bad_loop[:2]))

            # -- state: rooms -------------------------------------------------------
            for name in sorted(model['rooms']):
                mroom = model['rooms'][name]
                real = real_room(client, name)
                missing = real is None
                if missing:
                    real = rm.new_room()
                for field in rm.ROOM_FIELDS:
                    if missing and field == 'private':
                        continue
                    runner.add_obs(res, 'state_comparisons')
                    if not _room_field_equal(field, mroom[field], real[field]):
                        runner.violation(res, f'state:{field}:{kind}', witness=witness(
                            i, room=name, field=field, expected=mroom[field], observed=real[field],
                            room_object_missing=missing))
                        mroom[field] = copy.deepcopy(real[field])       # adopt, judge only new divergences

            # -- state: who is privileged (public view of the user manager) ------------
            runner.add_obs(res, 'privileged_set_comparisons')
            exp_set, obs_set = rm.privileged_set(model), set(client.users.privileged_users)
            diff = exp_set ^ obs_set
            if diff - set_diff_known:
                runner.violation(res, f'state:privileged-set:{kind}', witness=witness(
                    i, expected=exp_set, observed=obs_set))
            set_diff_known = diff

            # -- state: users ------------------------------------------------------------
            if held is None:
                gc.collect()             # nothing but the library decides which users are still referenced
                alive = set(client.users.users)
            else:
                alive = set(USERS)
            for name in USERS:
                referenced = name in alive
                if not referenced:
                    runner.add_cover(res, 'released_after', kind)
                    before = model['users'].get(name)
                    model = rm.forget_user(model, name)
                    if before != model['users'][name]:
                        runner.add_obs(res, 'users_released')
                muser = model['users'].get(name) or rm.new_user()
                real = observe_user(name)
                for group, fields in (('user-status', ('status',)), ('user-privileged', ('privileged',)),
                                      ('user-stats', rm.STAT_FIELDS)):
                    runner.add_obs(res, 'state_comparisons')
                    sig = f'state:{group}:{kind}'
                    if group == 'user-privileged' and not referenced:
                        # a user nothing referenced, looked up again: privileges must be remembered
                        runner.add_obs(res, 'rereferenced_privilege_checks')
                        sig = f'state:user-privileged:rereferenced-after:{last_privilege_kind[name]}'
                    exp = {f: muser[f] for f in fields}
                    obs = {f: real[f] for f in fields}
                    if exp != obs:
                        runner.violation(res, sig, witness=witness(
                            i, user=name, referenced_by_library=referenced, expected=exp, observed=obs,
                            privileges_last_announced_by=last_privilege_kind[name]))
                        model['users'].setdefault(name, muser).update(obs)
            # values adopted above are consequences of divergences already reported: not a new set divergence
            set_diff_known = rm.privileged_set(model) ^ obs_set

            # -- events -------------------------------------------------------------
            new_events = events[ev0:]
            ann_rooms, ann_users = rm.announced(n, ME)
            other_targeted = 'user' in n and kind not in rm.CHAT_KINDS
            for ev in new_events:
                runner.add_obs(res, 'events_checked')
                runner.add_cover(res, 'kind->event', f"{kind}->{ev['event']}")
                wrong = ([r for r in ev['rooms'] if r not in ann_rooms]
                         + [u for u in ev['users'] if u not in ann_users])
                if other_targeted and ev['optional_user_unset'] and ev['event'] in _OPTIONAL_TARGET_EVENTS:
                    wrong.append('user unset: reads as the own user')
                if wrong:
                    runner.violation(res, f'event:wrong-target:{kind}', witness=witness(
                        i, event=ev, not_announced=wrong))
            if kind in chat_event:
                cls_name, flag = chat_event[kind]
                evs = [e for e in new_events if e['event'] == cls_name]
                if is_blocked(blocked, n['user'], flag):
                    runner.add_obs(res, 'chat_blocked_judged')
                    if evs:
                        runner.violation(res, f'event:unexpected-blocked:{kind}', witness=witness(i, events=evs))
                else:
                    runner.add_obs(res, 'chat_unblocked_judged')
                    if not evs:
                        runner.violation(res, f'event:missing:{kind}', witness=witness(i))
                    elif len(evs) > 1:
                        runner.violation(res, f'event:duplicate:{kind}', witness=witness(i, events=evs))
                    elif evs[0]['text'] != n['text']:
                        runner.violation(res, f'event:wrong-text:{kind}', witness=witness(i, text=evs[0]['text']))
                if kind == 'PrivateChatMessage':
                    runner.add_obs(res, 'acks_checked')
                    acks = [m for _, u, m in w.server.frames[fr0:]
                            if u == ME and isinstance(m, PrivateChatMessageAck.Request) and m.chat_id == n['chat_id']]
                    if not acks:
                        runner.violation(res, 'ack:missing', witness=witness(
                            i, frames=[repr(m)[:120] for _, _, m in w.server.frames[fr0:]]))
            if len(trace) < 12:
                trace.append({'step': i, 'kind': kind, 'events': [e['event'] for e in new_events]})

        await w.stop_clients()
        return rm.jsonable(model['rooms'])

    out = run_world(f"{ID}:{params.get('seed', 0)}:{params.get('idx', params.get('seq'))}", main, wall_timeout=60)
    if out.inconclusive:
        res['inconclusive'] = out.inconclusive
        return res
    runner.add_obs(res, 'sequences')
    runner.add_cover(res, 'reference_modes', 'hold' if hold else 'release')
    if params.get('mode') == 'exh':
        runner.add_obs(res, 'exhaustive_sequences')
    if life:
        runner.add_obs(res, 'lifetime_histories')
    if len(changed_kinds) >= 2:
        res['csigs'].append(('hold:' if hold else 'release:') + '>'.join(n['k'] for n in notes))
    res['sample'] = {'params': {k: v for k, v in params.items() if k != 'notes'}, 'blocked': blocked,
                     'references': 'hold' if hold else 'release', 'notifications': notes, 'trace': trace,
                     'final_model_rooms': out.result}
    return res


def finish(total: dict, tier: str, seed: int) -> None:
    total['obs']['kinds_covered'] = len(total['cover'].get('kinds', []))
