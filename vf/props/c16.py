"""C16 — session life cycle: login advertises the settings, loss resets, stop is final (DESIGN §4 C16).

One case = one simulated world with one real ``SoulSeekClient`` ('me') whose settings are drawn from the product
named in the quantifier, the scripted server, scripted peers where pending work is needed, and ONE seeded point at
which the server connection is lost (with a close reason) or ``stop()`` is issued.  Three monitors:

* login  — the frames the scripted server received on the session after a successful login are compared with an
           oracle computed from the settings, the ports that really listen (SimNet) and the files on disk;
* loss   — SessionDestroyedEvent count / order, what is left of users, rooms, tracking and the server-sent
           distributed parameters, and whether a new connection + login follows (SimNet connect log, server frames);
* stop   — SimNet endpoints / listeners of the client, ``asyncio.all_tasks()`` and everything the client does in the
           virtual hour after ``stop()`` returned.
"""
from __future__ import annotations

import asyncio
import os
import random
from typing import Any, Optional

from .. import runner
from ..monitors import safety_net_violations
from ..simloop import settle
from ..simnet import ConnPlan
from ..world import World, run_world

ID = 'C16'
LEVEL = 'fault_enumeration'
QUICK_SCALE = 4      # the quick tier was enlarged by this factor after MIN_OBS['quick'] was measured
QUICK_FIXED = ('pending_work_kinds', 'burst_cut_points', 'burst_stop_points', 'port_cfgs', 'client_burst_cut_points')      # counters of fixed-size parts (coverage, enumerations): not scaled
ME = 'me'
RECONNECT_TIMEOUT = 5            # settings.network.server.reconnect.timeout in every case
RECONNECT_BOUND = RECONNECT_TIMEOUT + 1.0 + 0.5 + 1.0      # timeout + 1 s + watchdog period + slack
LOGIN_WAIT = 700.0               # SERVER_READ_TIMEOUT is 600 s
CLOSE_WAIT = 1300.0              # a silently lost link is given up by the (simulated) kernel after 900 s
HOUR = 3600.0

FRIENDS = ('f1', 'f2', 'f3')
LIKED = ('jazz', 'rock')
HATED = ('polka', 'noise')
FAVS = ('lobby', 'den')
BURST_LEN = 9
CLIENT_BURST_MAX = 18            # the reset strikes at the k-th frame the client writes after its Login frame, k = 1..18
PENDING_KINDS = ('download-hang', 'download-slow', 'search', 'parent-hang', 'parent-slow', 'parent-slow-in-stop',
                 'app-connect-slow', 'app-connect-in-stop', 'connect-back-hang', 'tracking-retry',
                 'incoming-silent', 'incoming-partial')
RELOGIN_DELAYS = (0.2, 1.0, 3.0)         # the server answers the Login of the automatic re-login this late


def relogin_wait_variants(delay: float) -> list:
    # stop() k loop steps / t seconds after that Login frame arrived at the server (always before the answer)
    return [['y', 0], ['y', 2], ['y', 5], ['s', round(delay / 2, 3)]]
SLOW_CLOSE = 1.0                 # '-in-stop' kinds: an application listener takes this long to handle the CLOSING of the
#                                  server connection, i.e. the disconnect phase of stop() lasts that long
APP_PEER = 'erin'                # peer of the application-level create_peer_connection() call
# name -> (clear port configured, obfuscated port configured, ports whose bind fails, error mode)
PORT_CFGS = {
    'both': (True, True, (), 'clear'),
    'clear-only': (True, False, (), 'clear'),
    'obf-only:all': (False, True, (), 'all'),
    'none:any': (False, False, (), 'any'),
    'obf-fails': (True, True, ('obf',), 'clear'),
    'clear-fails:all': (True, True, ('clear',), 'all'),
    'clear-fails': (True, True, ('clear',), 'clear'),          # documented: start() raises
    'obf-fails:any': (True, True, ('obf',), 'any'),            # documented: start() raises
    'both-fail:all': (True, True, ('clear', 'obf'), 'all'),    # documented: start() raises
}
WORKING_PORT_CFGS = ('both', 'both', 'both', 'clear-only', 'obf-only:all', 'none:any', 'obf-fails', 'clear-fails:all')

RULE = (
    "One case = one simulated world: real SoulSeekClient 'me', scripted server, scripted peers for pending work. Settings "
    "per case from random.Random(f'{seed}:C16:{case}') over the product: listening ports (both / clear only / obfuscated "
    "only / none / one or both fail to bind, with the error mode that lets start() pass or makes it raise), 0-3 friends, "
    "0-2 liked and hated interests, 0-2 favourite rooms, auto_join, private_room_invites, reconnect.auto (timeout 5 s), "
    "0-2 shared directories with files (scanned before login). Login answered accept / reject / undecodable / other "
    "message / EOF / RST / silence; an accepted login is followed by the 9-frame burst a server sends (room list, parent "
    "speed values, the deprecated distributed parameters, wishlist interval, privileged users, excluded phrases). Point: "
    "loss (server FIN, RST, silent loss ending in ETIMEDOUT after 900 s, an unanswered login, requested "
    "disconnect_server()) before login, at login, right after frame k of the burst in the same instant (k = 0..9 "
    "exhaustive), a reset that strikes at the k-th frame the client itself writes after its Login frame, i.e. inside the "
    "dispatch of SessionInitializedEvent (k = 1..18 exhaustive; the following write fails with a write error), idle, idle "
    "with the server unreachable for the next 12 s (reconnect attempts fail), or with pending work (download whose peer connect hangs / is slow, search with timeout, "
    "potential-parent connect hanging / slow (1.3-5 s: completes after a stop() issued 1 s after it began) / completing "
    "inside a disconnect phase of stop() that lasts 1 s because an application listener handles the CLOSING of the server "
    "connection slowly, an application task awaiting client.network.create_peer_connection() with the same two slow "
    "variants, connect-back hanging, tracking retry scheduled); or stop() before login, "
    "while login() blocks, after a failed login, after frame k of a burst sent at 50 ms spacing (k = 0..9 exhaustive), "
    "right after login() returned, idle, with each kind of pending work, while the reconnect wait runs, after a requested "
    "disconnect / server EOF, after an automatic re-login, while the automatic re-login waits for the server's answer (the "
    "server answers that Login 0.2 / 1 / 3 s late; stop() 0 / 2 / 5 loop steps or half that delay after the frame arrived), "
    "with a peer that dialled each listening port and sent no / a partial init message, and inside an unrequested loss (RST): awaited by an application "
    "listener of the CLOSING notification of the server connection, or by an application task k = 0..5 loop steps after that "
    "notification, with and without an application listener that suspends for 8 loop steps and so stretches the window between "
    "CLOSING and CLOSED. In every case an ordinary async application listener of SessionDestroyedEvent checks the session and "
    "probes a command at delivery; in the server-unreachable loss cases it then suspends for 3 loop steps or 1 / 7 / 15 s (long "
    "enough for refused reconnect attempts to report CLOSED again meanwhile). The systematic part (every point x reason, both reconnect "
    "settings; every port configuration x auto_join x invites) comes first, random combinations fill up. Every case ends "
    "with stop() and the stop rules. Non-trivial = at least one of the three monitors judged something; distinct = "
    "(settings signature, login mode, kind:point, reason)."
)
ASSUMPTIONS = [
    "Oracle of the login rule: SetListenPort with the ports that really listen according to SimNet (0 for a port that is not "
    "configured or failed to bind; the optional obfuscated part may be omitted when there is none); SetStatus(2); "
    "SharedFoldersFiles with (#directories that contain files, #files) counted on disk below the shared directories, "
    "judged only when client.shares.get_stats() agrees with the disk (index correctness is C07); AddUser for every friend "
    "(and optionally for the own name); AddInterest / AddHatedInterest exactly for the configured items; "
    "TogglePrivateRoomInvites(setting); JoinRoom for every favourite iff rooms.auto_join (docs/source/SETTINGS.rst: "
    "'Automatically rejoin rooms when logon is successful') and for no other room; BranchLevel(0), BranchRoot(own name), "
    "ToggleParentSearch(True). Duplicates of required frames and any other frame class are accepted. Judged on the frames "
    "that arrived on that server session within 2 virtual seconds after login() returned (after the automatic re-login: "
    "after the Login frame), only if the session was still alive then.",
    "A loss is what the client reports: the CLOSED notification of its server connection. A loss the client never notices "
    "within 1300 virtual seconds is counted (loss_unnoticed) and not judged. Expectations about reconnecting follow the "
    "INJECTED reason (server FIN = 'server-side EOF', requested = disconnect_server(); RST, ETIMEDOUT and a read timeout are "
    "unrequested losses), whatever reason the library derives; the derived reason is part of the witness.",
    "At the moment SessionDestroyedEvent is delivered to an application listener the session is gone: client.session is None "
    "and execute() raises InvalidSessionError (reading of 'destroyed exactly once ... commands are refused without a session'; "
    "the unchanged library clears the session before it emits the event).",
    "stop() inside a loss: the listener that stretches the CLOSING..CLOSED window suspends for loop steps only, so that the "
    "close in progress completes within the instant in which stop() returns (a listener that lets virtual time pass would "
    "keep the server endpoint open after stop() returned; whether that is the library's business is left open).",
    "Residue is looked at 1 s after the CLOSED notification (before the 5 s reconnect timeout). A user the transfer manager "
    "has a local reason to track (the peer of the pending download) is not counted as residue.",
    "Reconnect bound: connect attempt and Login frame within timeout + 1 s + 0.5 s (watchdog period) + 1 s slack after the "
    "CLOSED notification; 'never' = not within one virtual hour.",
    "stop(): judged after stop() returned and the instant has settled; endpoints that are closing with the FIN in flight get "
    "0.1 s. A task is the harness's if its name starts with vf- / peer- / sim-accept (the accept callbacks of the client's "
    "own listeners run in sim-accept tasks and are counted as the library's); everything else pending is the library's. "
    "Tasks that have been cancelled but are not awaited by stop() are accepted if they end within that instant (the count "
    "at the very return is recorded as an observation only). A stop() that does not return within 300 virtual seconds makes "
    "the case inconclusive (the statement starts 'after stop() returns').",
    "SimNet ground truth (open endpoints owned by the client) is read right after stop() returned, 8 s later (every connect "
    "pending at stop() has completed by then) and at the end of the window; connections established after stop() are read "
    "from SimNet's connection list whether or not they are still open. A connect begun before stop() whose TCP handshake "
    "completes later and which the client closes within the same instant without writing a byte is accepted. The two "
    "attempts of the application's own race-mode create_peer_connection() call are the application's tasks.",
    "After stop(): connect attempts are read from SimNet's connect log, frames from the write log of the client's server "
    "connections (written after stop() returned), for one virtual hour (700 s when the case already spent an hour waiting "
    "for a reconnect that must not happen).",
    "Which exception login() raises when it fails is not part of the statement: the outcome is recorded, residue is judged. "
    "ERROR log records whose exception is one of the library's NetworkError classes, and the documented bind failure, are "
    "the library reporting the injected fault; other logged exceptions / loop exceptions are reported as safety:*.",
    "UPnP disabled; run_until_stopped not covered; one client per world; the scripted server answers AddUser with 'exists' "
    "for friends and peers, 'does not exist' for the user of the tracking-retry case.",
    "Observation outside the statement: a server that goes silent on a live TCP connection is never noticed by the client "
    "(every ping sent shifts the read deadline by another 600 s); login() against a server that never answers is still "
    "blocked after 700 virtual seconds for the same reason (outcome 'silent->blocked', counted as loss_unnoticed, not "
    "judged). The TIMEOUT close reason is therefore produced by the kernel giving up (ETIMEDOUT) only.",
    "TCP delivers in order: in the cases that inject a server FIN, a reset provoked by the client's own later write takes "
    "0.5 s (SimNet.rst_latency) so that it cannot overtake the FIN and the frames sent before it; with the default 2 ms "
    "the library sees READ_ERROR instead of EOF and reconnects, which is an artefact of the simulated net.",
]
MIN_OBS = {
    'quick': {'logins_judged': 150, 'required_frames_checked': 1800, 'losses_judged': 90, 'stops_judged': 250,
              'reconnects_judged': 90, 'execute_checks': 250, 'pending_work_kinds': len(PENDING_KINDS),
              'burst_cut_points': BURST_LEN + 1, 'burst_stop_points': BURST_LEN + 1, 'port_cfgs': len(PORT_CFGS),
              'client_burst_cut_points': 10, 'stops_inside_a_loss': 3, 'destroyed_listener_suspensions': 8,
              'stops_while_relogin_awaits_its_answer': 3, 'silent_incoming_peers_at_stop': 2,
              'destroyed_deliveries_checked': 150},
    'thorough': {'logins_judged': 6000, 'required_frames_checked': 60000, 'losses_judged': 3500, 'stops_judged': 9000,
                 'reconnects_judged': 3500, 'execute_checks': 9000, 'pending_work_kinds': len(PENDING_KINDS),
                 'burst_cut_points': BURST_LEN + 1, 'burst_stop_points': BURST_LEN + 1, 'port_cfgs': len(PORT_CFGS),
                 'client_burst_cut_points': 10, 'stops_inside_a_loss': 300, 'destroyed_listener_suspensions': 300,
                 'stops_while_relogin_awaits_its_answer': 300, 'silent_incoming_peers_at_stop': 100,
                 'destroyed_deliveries_checked': 6000},
}
SHARD_TIMEOUT = {'quick': 600, 'thorough': 5400}
N_TOTAL = {'quick': 1200, 'thorough': 60000}
EXHAUSTIVE = {'quick': False, 'thorough': False}
WHAT_FAILS = {
    'login:favourites-joined-although-auto-join-off': 'rooms.auto_join is False but the favourite rooms were joined after login',
    'login:favourites-not-joined-although-auto-join-on': 'rooms.auto_join is True but a favourite room was not joined after login',
    'login:missing:': 'a frame the settings require was not sent to the server after a successful login',
    'login:contradicting:': 'a frame contradicting the settings was sent to the server after a successful login',
    'execute-without-session:': 'client.execute() without a session did not raise InvalidSessionError / wrote to the server',
    'loss:session-destroyed-count:': 'number of SessionDestroyedEvents for a lost session is not exactly one',
    'loss:session-set-when-destroyed-event-delivered': 'client.session is still set while SessionDestroyedEvent is delivered '
                                                       'to the listeners',
    'loss:destroyed-before-closed': 'SessionDestroyedEvent emitted before the CLOSED notification of the server connection',
    'loss:residue:': 'server-derived state left after the server connection closed',
    'loss:residue:tracking:reset-while-sending': 'the connection is lost inside the dispatch of SessionInitializedEvent (a '
        'write of an earlier handler fails): the CLOSED notification clears tracking, then the remaining handlers run for the '
        'already destroyed session and UserManager tracks the own name and the friends again',
    'loss:session-destroyed-count:0:reset-while-sending': 'the connection is lost inside the dispatch of '
        'SessionInitializedEvent but no SessionDestroyedEvent follows',
    'loss:no-reconnect:': 'auto-reconnect on, unrequested loss, but no new connection / login within the bound',
    'loss:reconnect-although:': 'a new connection to the server although the loss was requested / a server EOF / auto-reconnect is off',
    'stop:open-endpoint': 'a connection of the client is open after stop() returned',
    'stop:open-endpoint:accepted-peer-awaiting-init': 'an accepted incoming peer connection whose peer has not (completely) '
                                                      'sent its init message is still open after stop() returned',
    'stop:listener-left': 'a listening port of the client is open after stop() returned',
    'stop:pending-task:': 'a task started by the library is pending after stop() returned',
    'stop:pending-task:potential-parent': 'DistributedNetwork is not one of client.services: its stop() is never called, '
                                          'potential-parent connection tasks survive stop()',
    'stop:pending-task:search-timer': 'the timeout timers of search requests are not cancelled by stop()',
    'stop:pending-task:watchdog': 'the reconnect watchdog survives a stop() issued while the server connection is CLOSED',
    'stop:connect-after-stop:server': 'the client connects to the server (and logs in) again after stop() returned: stop() '
                                      'issued while the server connection is already CLOSED (reconnect wait running) does '
                                      'not stop the reconnect watchdog',
    'stop:connect-after-stop:peer': 'the client starts a connection attempt to a peer after stop() returned',
    'stop:connection-established-after-stop': 'a connection attempt begun before stop() completes after it: the connection is open',
    'stop:frame-after-stop': 'the client writes to a server connection after stop() returned',
}


# --------------------------------------------------------------------------
# generation

def _subset(rng: random.Random, items, lo: int, hi: int) -> list:
    n = rng.randint(lo, min(hi, len(items)))
    return sorted(rng.sample(list(items), n))


def gen_cfg(rng: random.Random) -> dict:
    return {
        'ports': rng.choice(WORKING_PORT_CFGS),
        'friends': _subset(rng, FRIENDS, 0, 3),
        'liked': _subset(rng, LIKED, 0, 2),
        'hated': _subset(rng, HATED, 0, 2),
        'favs': _subset(rng, FAVS, 0, 2),
        'auto_join': rng.random() < 0.5,
        'invites': rng.random() < 0.5,
        'auto': rng.random() < 0.5,
        'shared': rng.choice((0, 1, 1, 2)),
        'files': rng.randint(1, 4),
        'lat': round(rng.random(), 3),      # position of a slow connect's latency within its range
    }


def cfg_sig(cfg: dict) -> str:
    return (f"{cfg['ports']}|fr{len(cfg['friends'])}|li{len(cfg['liked'])}|ha{len(cfg['hated'])}|fav{len(cfg['favs'])}"
            f"|aj{int(cfg['auto_join'])}|inv{int(cfg['invites'])}|rc{int(cfg['auto'])}|sh{cfg['shared']}")


LOSS_REASONS = {
    'pre-login': ('eof', 'rst', 'requested'),
    'at-login': ('eof', 'rst', 'silent'),
    'burst': ('eof', 'rst'),
    'client-burst': ('reset-while-sending',),
    'idle': ('eof', 'rst', 'etimedout', 'requested'),
    'idle-down': ('rst', 'etimedout'),
    'pending': ('eof', 'rst', 'etimedout', 'requested'),
}
STOP_POINTS = ('before-login', 'during-login', 'failed-login:reject', 'failed-login:garbage', 'failed-login:other',
               'burst', 'inflight', 'idle', 'pending', 'reconnect-wait', 'after-requested', 'after-eof', 'relogged',
               'in-loss', 'in-loss', 'relogin-wait', 'relogin-wait')
IN_LOSS_STEPS = 6                # stop() k = 0..5 loop steps after the CLOSING notification of an unrequested loss
# how long the application's (async) listener of SessionDestroyedEvent suspends: loop steps or virtual seconds
SUSPENSIONS = (['y', 3], ['s', 1.0], ['s', 7.0], ['s', 15.0])


def in_loss_variant(rng: random.Random) -> dict:
    if rng.random() < 0.3:
        return {'via': 'listener', 'stretch': 0}
    return {'via': 'task', 'stretch': rng.choice((0, 8))}


def cases(tier: str, seed: int) -> list[dict]:
    out: list[dict] = []

    def add(kind: str, point: str, reason: Optional[str] = None, *, k: Optional[int] = None,
            work: Optional[str] = None, **over):
        i = len(out)
        cfg = gen_cfg(random.Random(f'{seed}:{ID}:{i}'))
        cfg.update(over)
        out.append({'kind': kind, 'point': point, 'reason': reason, 'k': k, 'work': work, 'cfg': cfg,
                    'seed': seed, 'idx': i})

    minimal = dict(ports='both', friends=[], liked=[], hated=[], shared=0, invites=True, auto=False)
    # -- smallest witnesses first -------------------------------------------------------------
    add('stop', 'idle', favs=['lobby'], auto_join=False, **minimal)
    add('stop', 'idle', favs=['lobby'], auto_join=True, **minimal)
    add('stop', 'pending', work='search', favs=[], auto_join=True, **minimal)
    add('stop', 'pending', work='parent-hang', favs=[], auto_join=True, **minimal)
    add('stop', 'pending', work='parent-slow', favs=[], auto_join=True, **minimal)
    add('stop', 'reconnect-wait', favs=[], auto_join=True, **dict(minimal, auto=True))
    # -- login block: every port configuration x auto_join x invites ----------------------
    for n, ports in enumerate(PORT_CFGS):
        for aj in (True, False):
            for inv in (True, False):
                add('stop', 'idle', ports=ports, auto_join=aj, invites=inv,
                    favs=list(FAVS[:1 + (n + aj) % 2]), friends=list(FRIENDS[:(n + inv) % 4]),
                    shared=(n + aj + inv) % 3)
    # -- stop block ---------------------------------------------------------------------------------
    for auto in (False, True):
        for point in ('before-login', 'during-login', 'failed-login:reject', 'failed-login:garbage',
                      'failed-login:other', 'inflight', 'after-requested', 'after-eof'):
            add('stop', point, auto=auto)
        for work in PENDING_KINDS:
            add('stop', 'pending', work=work, auto=auto)
    add('stop', 'reconnect-wait', auto=True)
    add('stop', 'relogged', auto=True)
    for delay in RELOGIN_DELAYS:
        for after in relogin_wait_variants(delay):
            add('stop', 'relogin-wait', 'rst', auto=True, delay=delay, after=after)
    for work in ('incoming-silent', 'incoming-partial'):
        for ports in ('both', 'clear-only', 'obf-only:all'):
            add('stop', 'pending', work=work, ports=ports)
    for auto in (True, False):
        add('stop', 'in-loss', 'rst', auto=auto, via='listener', stretch=0)
        for stretch in (0, 8):
            for k in range(IN_LOSS_STEPS):
                add('stop', 'in-loss', 'rst', k=k, auto=auto, via='task', stretch=stretch)
    for k in range(BURST_LEN + 1):
        add('stop', 'burst', k=k)
    # -- loss block -----------------------------------------------------------------------------------
    for auto in (False, True):
        for point in ('pre-login', 'at-login', 'idle'):
            for reason in LOSS_REASONS[point]:
                add('loss', point, reason, auto=auto)
        for k in range(BURST_LEN + 1):
            for reason in LOSS_REASONS['burst']:
                add('loss', 'burst', reason, k=k, auto=auto)
        for k in range(1, CLIENT_BURST_MAX + 1):
            add('loss', 'client-burst', 'reset-while-sending', k=k, auto=auto)
    for reason in LOSS_REASONS['idle-down']:
        add('loss', 'idle-down', reason, auto=True)
        for susp in SUSPENSIONS:
            add('loss', 'idle-down', reason, auto=True, susp=list(susp))
    n = 0
    for work in PENDING_KINDS:
        for reason in LOSS_REASONS['pending']:
            add('loss', 'pending', reason, work=work, auto=bool(n % 2))
            n += 1
    if tier == 'thorough':
        for work in PENDING_KINDS:
            for reason in LOSS_REASONS['pending']:
                for auto in (False, True):
                    for ports in ('both', 'clear-only', 'none:any'):
                        add('loss', 'pending', reason, work=work, auto=auto, ports=ports)
    # -- random combinations ---------------------------------------------------------------------------
    while len(out) < N_TOTAL[tier]:
        i = len(out)
        rng = random.Random(f'{seed}:{ID}:pick:{i}')
        if rng.random() < 0.5:
            point = rng.choice(STOP_POINTS)
            extra = {'auto': True} if point in ('reconnect-wait', 'relogged') else {}
            if point == 'in-loss':
                extra = in_loss_variant(rng)
                extra['auto'] = rng.random() < 0.8
            if point == 'relogin-wait':
                delay = rng.choice(RELOGIN_DELAYS)
                extra = {'auto': True, 'delay': delay, 'after': rng.choice(relogin_wait_variants(delay))}
            add('stop', point, 'rst' if point in ('in-loss', 'relogin-wait') else None,
                k=(rng.randint(0, BURST_LEN) if point == 'burst' else
                   rng.randrange(IN_LOSS_STEPS) if point == 'in-loss' and extra['via'] == 'task' else None),
                work=rng.choice(PENDING_KINDS) if point == 'pending' else None, **extra)
        else:
            point = rng.choice(('pre-login', 'at-login', 'burst', 'burst', 'client-burst', 'client-burst', 'idle',
                                'idle-down', 'pending', 'pending'))
            add('loss', point, rng.choice(LOSS_REASONS[point]),
                k=(rng.randint(0, BURST_LEN) if point == 'burst' else
                   rng.randint(1, CLIENT_BURST_MAX) if point == 'client-burst' else None),
                work=rng.choice(PENDING_KINDS) if point == 'pending' else None,
                **({'auto': True, 'susp': list(rng.choice(SUSPENSIONS + (None,)) or []) or None}
                   if point == 'idle-down' else {}))
    return out


# --------------------------------------------------------------------------
# login oracle (pure)

def count_shares(dirs: list) -> tuple[int, int]:
    """(#directories that contain at least one file, #files) below the shared directories, from the disk."""
    folders = files = 0
    for root in dirs:
        for _, _, names in os.walk(root):
            if names:
                folders += 1
                files += len(names)
    return folders, files


def login_expectation(cfg: dict, port: int, obf_port: int, listening: set, shares: Optional[tuple]) -> dict:
    return {
        'port': port if port in listening else 0,
        'obf_port': obf_port if obf_port in listening else 0,
        'shares': shares,
        'friends': sorted(cfg['friends']), 'liked': sorted(cfg['liked']), 'hated': sorted(cfg['hated']),
        'favs': sorted(cfg['favs']), 'auto_join': bool(cfg['auto_join']), 'invites': bool(cfg['invites']),
        'optional_users': [ME],
    }


def judge_login(frames: list, exp: dict) -> tuple[list, int]:
    """frames: decoded messages of one server session after the login.  -> ([(sig, detail)], #required frames checked)"""
    by: dict = {}
    for m in frames:
        by.setdefault(type(m).__qualname__, []).append(m)
    viol: list = []
    checked = 0

    def seen(cls: str) -> list:
        return by.get(cls + '.Request', [])

    def require(cls: str, pred, want, values=lambda m: repr(m)):
        nonlocal checked
        checked += 1
        got = seen(cls)
        if not any(pred(m) for m in got):
            viol.append((f'login:missing:{cls}', {'expected': want, 'received': [values(m) for m in got]}))
        bad = [values(m) for m in got if not pred(m)]
        if bad:
            viol.append((f'login:contradicting:{cls}', {'expected': want, 'received': bad}))

    def port_ok(m) -> bool:
        obf = m.obfuscated_port or 0
        amount = m.obfuscated_port_amount or 0
        return m.port == exp['port'] and obf == exp['obf_port'] and (amount > 0) == (obf > 0)
    require('SetListenPort', port_ok, {'port': exp['port'], 'obfuscated_port': exp['obf_port']})
    require('SetStatus', lambda m: m.status == 2, {'status': 2})
    if exp['shares'] is not None:
        require('SharedFoldersFiles',
                lambda m: (m.shared_folder_count, m.shared_file_count) == tuple(exp['shares']),
                {'shared_folder_count': exp['shares'][0], 'shared_file_count': exp['shares'][1]})
    require('TogglePrivateRoomInvites', lambda m: bool(m.enable) == exp['invites'], {'enable': exp['invites']})
    require('BranchLevel', lambda m: m.level == 0, {'level': 0})
    require('BranchRoot', lambda m: m.username == ME, {'username': ME})
    require('ToggleParentSearch', lambda m: bool(m.enable) is True, {'enable': True})

    def name_set(cls: str, attr: str, wanted: list, optional: tuple = ()):
        nonlocal checked
        got = sorted({getattr(m, attr) for m in seen(cls)})
        for w_ in wanted:
            checked += 1
            if w_ not in got:
                viol.append((f'login:missing:{cls}', {'expected': wanted, 'received': got, 'missing': w_}))
        extra = [g for g in got if g not in wanted and g not in optional]
        if extra:
            viol.append((f'login:contradicting:{cls}', {'expected': wanted, 'received': got, 'not_configured': extra}))
    name_set('AddUser', 'username', exp['friends'], optional=tuple(exp.get('optional_users') or (ME,)))
    name_set('AddInterest', 'interest', exp['liked'])
    name_set('AddHatedInterest', 'hated_interest', exp['hated'])

    joined = sorted({m.room for m in seen('JoinRoom')})
    favs = exp['favs']
    checked += max(1, len(favs))
    if exp['auto_join']:
        missing = [r for r in favs if r not in joined]
        if missing:
            viol.append(('login:favourites-not-joined-although-auto-join-on',
                         {'favorites': favs, 'joined': joined, 'missing': missing}))
        extra = [r for r in joined if r not in favs]
    else:
        hit = [r for r in joined if r in favs]
        if hit:
            viol.append(('login:favourites-joined-although-auto-join-off', {'favorites': favs, 'joined': joined}))
        extra = [r for r in joined if r not in favs]
    if extra:
        viol.append(('login:contradicting:JoinRoom', {'favorites': favs, 'joined': joined, 'not_a_favourite': extra}))
    return viol, checked


# --------------------------------------------------------------------------
# tasks

_HARNESS_PREFIXES = ('vf-', 'peer-')
_COARSE = (
    ('potential-parent', 'potential-parent'), ('direct-connect-', 'peer-connect-attempt'),
    ('indirect-connect-', 'peer-connect-attempt'), ('connect-to-peer-', 'connect-back'),
    ('queue-remotely-', 'queue-remotely'), ('initialize-upload-', 'upload'), ('queue-message-task-', 'queued-message'),
    ('server-connection-watchdog-task', 'watchdog'), ('server-ping-task', 'server-ping'),
    ('transfer-management-task', 'transfer-management'), ('transfer-progress-task', 'transfer-progress'),
    ('user-management-task', 'user-management'), ('wishlist-task', 'wishlist'), ('upnp-task', 'upnp'),
    ('log-connections-task', 'log-connections'),
)
_BY_CORO = {
    'Timer.runner': 'search-timer', 'UserTrackingManager._tracking_task': 'tracking',
    'UserTrackingManager._request_retry': 'tracking-retry', 'DataConnection._message_reader_loop': 'reader',
    'ListeningConnection.accept': 'accept', 'SoulSeekClient.login': 'login', 'SharesManager.scan': 'scan',
}


def _coro_name(task: asyncio.Task) -> str:
    coro = task.get_coro()
    return getattr(coro, '__qualname__', None) or type(coro).__name__


def is_library_task(task: asyncio.Task) -> bool:
    name = task.get_name()
    if name.startswith(_HARNESS_PREFIXES):
        return False
    if name.startswith('sim-accept'):
        return _coro_name(task).startswith('ListeningConnection.')
    return True


def task_kind(task: asyncio.Task) -> str:
    name = task.get_name()
    for prefix, kind in _COARSE:
        if name.startswith(prefix):
            return kind
    cn = _coro_name(task)
    if cn in _BY_CORO:
        return _BY_CORO[cn]
    return 'other:' + cn.replace('<locals>.', '')[:50]


def library_tasks() -> list:
    cur = asyncio.current_task()
    # (the two attempts of a race-mode connect belong to the call that started them: those of the APPLICATION's own
    # create_peer_connection() call, which nobody cancels, are the application's)
    return [t for t in asyncio.all_tasks() if t is not cur and not t.done() and is_library_task(t)
            and f'-connect-{APP_PEER}-' not in t.get_name()]


def describe(task: asyncio.Task) -> dict:
    return {'name': task.get_name(), 'coroutine': _coro_name(task), 'cancel_requested': bool(task.cancelling())}


_NETWORK_ERRORS = ('ConnectionWriteError', 'ConnectionReadError', 'ConnectionFailedError', 'PeerConnectionError',
                   'ListeningConnectionFailedError', 'NetworkError')


# --------------------------------------------------------------------------

def run_case(params: dict) -> dict:
    from aioslsk.commands import JoinRoomCommand
    from aioslsk.events import ConnectionStateChangedEvent, SessionDestroyedEvent, SessionInitializedEvent
    from aioslsk.exceptions import InvalidSessionError
    from aioslsk.network.connection import ConnectionState, ServerConnection
    from aioslsk.network.network import ListeningConnectionErrorMode
    from aioslsk.protocol import messages as M
    from aioslsk.protocol.primitives import PotentialParent
    from aioslsk.settings import (
        InterestsSettings, ListeningSettings, NetworkSettings, ReconnectSettings, RoomsSettings, SearchSendSettings,
        SearchSettings, ServerSettings, SharedDirectorySettingEntry, SharesSettings, UpnpSettings, UsersSettings)

    res = runner.new_result(params.get('case', 0))
    cfg = params['cfg']
    kind, point, reason, k, work = params['kind'], params['point'], params.get('reason'), params.get('k'), params.get('work')
    viol: list = []                # (sig, detail)
    obs: dict = {}
    cover: list = []               # (key, value)
    trace: list = []
    info: dict = {'login_outcome': None, 'start': None}

    def add(key: str, n: int = 1):
        obs[key] = obs.get(key, 0) + n

    def note(what: str, **kw):
        if len(trace) < 60:
            kw['what'] = what
            trace.append(kw)

    def violation(sig: str, **detail):
        detail.setdefault('case', {'kind': kind, 'point': point, 'reason': reason, 'k': k, 'work': work, 'cfg': cfg})
        viol.append((sig, detail))

    login_mode = 'accept'
    if point == 'during-login':
        login_mode = 'silent'
    elif point.startswith('failed-login:'):
        login_mode = point.split(':', 1)[1]
    elif kind == 'loss' and point == 'at-login':
        login_mode = reason                      # eof | rst | silent

    async def main(w: World):
        now = lambda: round(w.now, 6)   # noqa: E731
        # TCP delivers in order: a reset provoked by the client's own write into a connection the server has closed
        # must not overtake the FIN (and the frames) the server sent before.  Seeded segmentation can keep a burst in
        # flight for some 100 ms (<= 4 ms per segment), hence a reset takes 0.5 s in the cases that inject a server FIN.
        # (In the other cases the default 2 ms stays: an injected RST then hits the client while it is still sending
        # its own post-login frames.)
        if reason == 'eof' or point == 'after-eof':
            w.net.rst_latency = 0.5
        await w.start_server()
        server = w.server
        burst = [
            M.RoomList.Response(['lobby', 'den', 'big'], [12, 7, 30], [], [], [], [], []),
            M.ParentMinSpeed.Response(1), M.ParentSpeedRatio.Response(50), M.ParentInactivityTimeout.Response(300),
            M.MinParentsInCache.Response(10), M.DistributedAliveInterval.Response(60), M.WishlistInterval.Response(720),
            M.PrivilegedUsers.Response(['vip1', 'f1']), M.ExcludedSearchPhrases.Response(['banned phrase']),
        ]
        assert len(burst) == BURST_LEN
        server.user_answer = lambda session, username: 'notexists' if username == 'ghost' else 'exists'

        # -- settings ---------------------------------------------------------------------------------
        has_clear, has_obf, failing, mode = PORT_CFGS[cfg['ports']]
        p_clear, p_obf = w.alloc_ports()
        port, obf_port = (p_clear if has_clear else 0), (p_obf if has_obf else 0)
        if 'clear' in failing:
            w.net.bind_fail.add(p_clear)
        if 'obf' in failing:
            w.net.bind_fail.add(p_obf)
        shared_dirs = []
        for d in range(cfg['shared']):
            root = os.path.join(w.tmp, f'shared{d}')
            layout = [('', 'top%d.mp3'), ('albums/first', 'a%d.mp3'), ('albums/second', 'b%d.flac'), ('misc', 'note%d.txt')]
            for i in range(cfg['files'] + d):
                sub, pat = layout[i % len(layout)]
                os.makedirs(os.path.join(root, sub), exist_ok=True)
                with open(os.path.join(root, sub, pat % i), 'wb') as fh:
                    fh.write(b'x' * (10 + i))
            shared_dirs.append(root)
        base = os.path.join(w.tmp, ME)
        os.makedirs(os.path.join(base, 'dl'), exist_ok=True)
        settings = w.make_settings(
            ME,
            network=NetworkSettings(
                server=ServerSettings(hostname='srv', port=server.port,
                                      reconnect=ReconnectSettings(auto=bool(cfg['auto']), timeout=RECONNECT_TIMEOUT)),
                listening=ListeningSettings(port=port, obfuscated_port=obf_port,
                                            error_mode=ListeningConnectionErrorMode(mode)),
                upnp=UpnpSettings(enabled=False)),
            shares=SharesSettings(scan_on_start=False, download=os.path.join(base, 'dl'),
                                  directories=[SharedDirectorySettingEntry(path=p) for p in shared_dirs]),
            users=UsersSettings(friends=set(cfg['friends'])),
            rooms=RoomsSettings(auto_join=bool(cfg['auto_join']), private_room_invites=bool(cfg['invites']),
                                favorites=set(cfg['favs'])),
            interests=InterestsSettings(liked=set(cfg['liked']), hated=set(cfg['hated'])),
            searches=SearchSettings(send=SearchSendSettings(request_timeout=30)),
        )
        h = await w.add_client(ME, settings, start=False)
        client = h.client
        dn = client.distributed_network
        tm = client.users._tracking_manager
        h.record(ConnectionStateChangedEvent, SessionInitializedEvent, SessionDestroyedEvent)
        st: dict = {'closed_waiters': [], 'closed': [], 'spent_hour': False, 'hang': set(), 'slow': {},
                    'exclude_users': set(), 'first_session_cut': None, 'stop_done': False}
        keep: list = []

        def closed_last(ev):
            if isinstance(ev.connection, ServerConnection) and ev.state == ConnectionState.CLOSED:
                st['closed'].append((now(), ev.close_reason.name if ev.close_reason is not None else None))
                for fut in st['closed_waiters']:
                    if not fut.done():
                        fut.set_result(None)
                st['closed_waiters'].clear()
        keep.append(closed_last)
        client.events.register(ConnectionStateChangedEvent, closed_last, priority=10 ** 6)

        def server_state_first(ev):
            # first listener of every state change of the server connection
            if not isinstance(ev.connection, ServerConnection):
                return
            if ev.state == ConnectionState.CLOSED:
                st.setdefault('closed_first', []).append((now(), ev.close_reason.name if ev.close_reason else None))
            elif ev.state == ConnectionState.CLOSING and st.get('closing_fut') is not None and not st['closing_fut'].done():
                st['closing_reason'] = ev.close_reason.name if ev.close_reason else None
                st['closing_fut'].set_result(None)
        keep.append(server_state_first)
        client.events.register(ConnectionStateChangedEvent, server_state_first, priority=-10 ** 6)

        async def stretching_application_listener(ev):
            # an application listener that suspends for some loop steps while the server connection is CLOSING
            # (stretches the window between CLOSING and CLOSED without letting virtual time pass)
            if st.get('stretch') and isinstance(ev.connection, ServerConnection) and ev.state == ConnectionState.CLOSING:
                for _ in range(st['stretch']):
                    await asyncio.sleep(0)
        keep.append(stretching_application_listener)
        client.events.register(ConnectionStateChangedEvent, stretching_application_listener, priority=10 ** 6 - 2)

        async def stopping_application_listener(ev):
            # an application that stops the client from inside its listener when the server connection starts closing
            fn = st.get('stop_in_listener')
            if fn is not None and isinstance(ev.connection, ServerConnection) and ev.state == ConnectionState.CLOSING:
                st['stop_in_listener'] = None
                st['closing_reason'] = ev.close_reason.name if ev.close_reason else None
                await fn()
        keep.append(stopping_application_listener)
        client.events.register(ConnectionStateChangedEvent, stopping_application_listener)

        async def destroyed_application_listener(ev):
            # an ordinary (async) application listener: when the destroyed event is delivered the session is gone and
            # commands are refused; it may suspend for loop steps / seconds before it returns
            add('destroyed_deliveries_checked')
            wit_ = {'t': now(), 'server_connection': client.network.server_connection.state.name,
                    'closed_notifications_so_far': list(st.get('closed_first', []))[-4:]}
            if client.session is not None:
                violation('loss:session-set-when-destroyed-event-delivered', **wit_)
            try:
                await client.execute(JoinRoomCommand('zz-probe-in-listener'))
                outcome = 'no-exception'
            except InvalidSessionError:
                outcome = 'refused'
            except Exception as exc:  # noqa
                outcome = 'raised-' + type(exc).__name__
            if outcome != 'refused':
                violation(f'execute-without-session:{outcome}', at='inside-a-listener-of-SessionDestroyedEvent', **wit_)
            susp = cfg.get('susp')
            if susp:
                add('destroyed_listener_suspensions')
                if susp[0] == 'y':
                    for _ in range(int(susp[1])):
                        await asyncio.sleep(0)
                else:
                    await asyncio.sleep(float(susp[1]))
        keep.append(destroyed_application_listener)
        client.events.register(SessionDestroyedEvent, destroyed_application_listener)

        async def slow_application_listener(ev):
            # an application that takes its time to handle the closing of the server connection ('-in-stop' kinds)
            if st.get('slow_close') and isinstance(ev.connection, ServerConnection) and ev.state == ConnectionState.CLOSING:
                await asyncio.sleep(st['slow_close'])
        keep.append(slow_application_listener)
        client.events.register(ConnectionStateChangedEvent, slow_application_listener, priority=10 ** 6 - 1)

        def planner(node, host, prt, attempt):
            if node == ME and prt in st['hang']:
                return ConnPlan(connect='hang')
            if node == ME and prt in st['slow']:
                return ConnPlan(latency=st['slow'][prt])
            return ConnPlan(latency=w.net.rng.uniform(0.001, 0.03))
        w.net.planner = planner

        # -- scripted server: login mode of the FIRST attempt, burst, cut after k frames ------------------
        def n_login_frames() -> int:
            return sum(1 for s in server.sessions for _, m in s.frames if isinstance(m, M.Login.Request))

        def mode_of(username):
            # only the FIRST login attempt of the case is answered with the case's login mode
            if n_login_frames() <= 1 and login_mode in ('reject', 'garbage', 'other', 'eof', 'silent'):
                return login_mode
            return 'accept'
        server.login_mode = mode_of

        def rst_on_first_login(session, msg):
            if login_mode == 'rst' and n_login_frames() <= 1:
                session.username = msg.username
                session.close('rst')
                return True
            if kind == 'stop' and point == 'relogin-wait' and n_login_frames() == 2:
                # the Login of the automatic re-login: answered cfg['delay'] seconds later
                session.username = msg.username
                st['relogin_frame_at'] = now()

                def answer():
                    st['relogin_answered_at'] = now()
                    if session.open:
                        session.logged_in = True
                        server.by_user[msg.username] = session
                        session.send(M.Login.Response(success=True, greeting='hello', ip='1.2.3.4', md5hash='abc',
                                                      privileged=False), *burst)
                w.loop.call_later(float(cfg['delay']), answer)
                fut = st.get('relogin_fut')
                if fut is not None and not fut.done():
                    fut.set_result(None)
                return True
            return False
        server.overrides[M.Login.Request] = rst_on_first_login

        spaced = kind == 'stop' and point == 'burst'

        def post_login(session):
            first = len([s for s in server.sessions if s.logged_in]) <= 1
            if first and kind == 'loss' and point == 'burst':
                st['first_session_cut'] = session.no
                w.loop.call_soon(session.close, reason)          # same instant, right after frame k
                return burst[:k]
            if first and spaced:
                async def drip():
                    for i in range(k):
                        await asyncio.sleep(0.05)
                        if session.open:
                            session.send(burst[i])
                w.spawn('server', drip(), name='vf-burst')
                return []
            return list(burst)
        server.post_login = post_login

        # -- the reset that strikes while the client is sending its own post-login frames -------------------------
        # (the server resets right after its login reply: the client learns it at its k-th write after the Login frame.
        # That write is still accepted, the connection is dead from the next loop step on: the following write of
        # the SessionInitialized handlers fails with a write error INSIDE the dispatch of that event.)
        if kind == 'loss' and point == 'client-burst':
            def on_write(tr, data):
                if not st.get('arm') or tr.owner != ME or tr.conn.src != ME or tr.conn.port != server.port:
                    return
                st['writes'] = st.get('writes', 0) + 1
                if st['writes'] == k + 1:                   # write #1 is the Login frame
                    st['arm'] = False
                    st['t_cut'] = now()
                    st['session_at_cut'] = client.session is not None
                    w.net.cut_now(tr.conn, 'rst')
            w.net.on_write = on_write

        # -- helpers ----------------------------------------------------------------------------------------
        def server_conns():
            return [c for c in w.net.conns if c.src == ME and c.port == server.port]

        def harness_accept_tasks() -> set:
            """Names of the SimNet accept tasks that run the scripted server's / peers' handlers."""
            names = {f'sim-accept-{c.id}' for c in w.net.conns if c.dst != ME}
            info['harness_accept_tasks'] = sorted(names)
            return names

        def bytes_to_server() -> int:
            return sum(len(d) for c in server_conns() for _, dr, d in c.wlog if dr == 'a2b')

        def n_events(cls) -> int:
            return sum(1 for _, e in h.events if isinstance(e, cls))

        def login_frames_since(session, t0: float) -> list:
            return [m for t, m in session.frames if t >= t0 and not isinstance(m, M.Login.Request)]

        async def check_execute(label: str):
            """execute() at a point where there is no session (before login, after a failed login, 1 s after a loss,
            after stop()): InvalidSessionError and nothing written."""
            cmd = JoinRoomCommand('zz-probe')

            async def probe():
                n0 = bytes_to_server()
                try:
                    await client.execute(cmd)
                    outcome = 'no-exception'
                except InvalidSessionError:
                    outcome = 'refused'
                except Exception as exc:  # noqa
                    outcome = 'raised-' + type(exc).__name__
                return outcome, bytes_to_server() - n0
            outcome, written = await h.call(probe())
            await settle(0.05)
            probes = [m for s in server.sessions for _, m in s.frames
                      if isinstance(m, M.JoinRoom.Request) and m.room == 'zz-probe']
            add('execute_checks')
            cover.append(('execute_points', label))
            if outcome != 'refused':
                violation(f'execute-without-session:{outcome}', at=label, t=now(),
                          server_connection=client.network.server_connection.state.name)
            elif written or probes:
                violation('execute-without-session:refused-but-written', at=label, t=now(), bytes=written)

        async def do_login() -> str:
            task = w.spawn(ME, client.login(), name='vf-login')
            done, _ = await asyncio.wait({task}, timeout=LOGIN_WAIT)
            if not done:
                task.cancel()
                await asyncio.gather(task, return_exceptions=True)
                return 'blocked'
            if task.cancelled():
                return 'cancelled'
            exc = task.exception()
            return 'ok' if exc is None else type(exc).__name__

        async def judge_login_of(session, t0: float, label: str):
            """2 virtual seconds after the login: compare what the server got with the settings."""
            await settle(2.0)
            if client.session is None or not session.open:
                cover.append(('login_not_judged', f'{label}:session-gone'))
                return
            listening = {lst.port for lst in w.net.listeners_of(ME)}
            disk = count_shares(shared_dirs)
            idx = tuple(client.shares.get_stats())
            shares = disk
            if idx != disk:
                cover.append(('share_count_cross_check', f'index{idx}!=disk{disk}'))
                shares = None
            exp = login_expectation(cfg, port, obf_port, listening, shares)
            exp['optional_users'] = sorted({ME} | st['exclude_users'])     # users tracked for a local reason (transfer)
            frames = login_frames_since(session, t0)
            v, n = judge_login(frames, exp)
            add('logins_judged')
            add('required_frames_checked', n)
            cover.append(('logins', label))
            note('login-judged', label=label, t=now(), frames=[type(m).__qualname__.split('.')[0] for m in frames][:30])
            for sig, detail in v:
                if sig == 'login:missing:AddUser' and detail.get('missing') in st.get('residue_tracked', ()):
                    # consequence of the tracking entry that was left over from the lost session (reported there): the
                    # entry already carries the FRIEND reason, so the new login does not send AddUser; the entry's own
                    # retry does, 10 s + 10 s after its last attempt
                    st['residue_detail'].setdefault('consequence_after_the_next_login', []).append(
                        f"AddUser({detail['missing']}) not sent within 2 s after the new login")
                    continue
                violation(sig, at=label, settings=exp, frames=[repr(m)[:90] for m in frames][:30], **detail)

        async def wait_closed(t_from: float, bound: float) -> Optional[tuple]:
            for t, r in st['closed']:
                if t >= t_from:
                    return t, r
            fut = w.loop.create_future()
            st['closed_waiters'].append(fut)
            try:
                await asyncio.wait_for(fut, bound)
            except asyncio.TimeoutError:
                return None
            return st['closed'][-1]

        def slow_or_hang(which: str, peer):
            """Connects of the client to this peer hang, or take 1.3 .. 5 s (complete after a stop() issued 1 s after the
            attempt began), or 1.1 .. 1.9 s with a disconnect phase of stop() that lasts 1 s (complete inside it)."""
            ports = {peer.port, peer.obf_port}
            if which.endswith('hang'):
                st['hang'] |= ports
                return
            frac = float(cfg.get('lat', 0.5))
            if which.endswith('in-stop'):
                lat = 1.1 + 0.8 * frac
                st['slow_close'] = SLOW_CLOSE
            else:
                lat = 1.3 + 3.7 * frac
            for prt in ports:
                st['slow'][prt] = lat
            note('slow-connect', peer=peer.name, latency=round(lat, 3), disconnect_phase_lasts=st.get('slow_close', 0))

        async def start_work(which: str):
            add_peer = w.add_peer
            if which.startswith('download'):
                bob = await add_peer('bob')
                bob.on_connect_to_peer = lambda msg: None
                slow_or_hang(which, bob)
                st['exclude_users'].add('bob')
                await h.call(client.transfers.download('bob', 'music\\album\\song.mp3'))
            elif which == 'search':
                await h.call(client.searches.search('some rare record'))
            elif which.startswith('parent'):
                carol = await add_peer('carol')
                carol.on_connect_to_peer = lambda msg: None
                slow_or_hang(which, carol)
                server.push(ME, M.PotentialParents.Response([PotentialParent('carol', carol.ip, carol.port)]))
            elif which.startswith('app-connect'):
                # an application task that asks for a peer connection and is still awaiting it; nobody cancels it
                erin = await add_peer(APP_PEER)
                erin.on_connect_to_peer = lambda msg: None
                slow_or_hang(which, erin)
                st['app_task'] = w.spawn(ME, client.network.create_peer_connection(APP_PEER, 'P'), name='vf-app-connect')
            elif which == 'connect-back-hang':
                dave = await add_peer('dave')
                st['hang'] |= {dave.port, dave.obf_port}
                server.push(ME, M.ConnectToPeer.Response('dave', 'P', dave.ip, dave.port, 4242, False, 1, dave.obf_port))
            elif which == 'tracking-retry':
                await h.call(client.users.track_user('ghost'))
            elif which.startswith('incoming'):
                # a peer that has connected to a listening port of the client and has not (completely) sent its
                # initialization message
                frank = await add_peer('frank', listen=False)
                lports = sorted(x.port for x in w.net.listeners_of(ME))
                if not lports:
                    cover.append(('incoming_peer_without_listening_port', cfg['ports']))
                init = None if which == 'incoming-silent' else M.PeerInit.Request('frank', 'P', 0).serialize()[:7]
                for lp in lports:
                    await frank.dial(lp, 'P', obfuscated=False, init=init, manual=True)
                st['incoming'] = len(lports)
            else:
                raise ValueError(which)
            await settle(1.0)
            cover.append(('pending_work_kinds', which))
            note('work-started', which=which, t=now(), library_tasks=sorted({task_kind(t) for t in library_tasks()}))

        def inject(why: str):
            """Lose the current server connection."""
            sess = server.sessions[-1]
            if why in ('eof', 'rst'):
                sess.close(why)
            elif why == 'etimedout':
                w.net.cut_now(sess.writer.transport.conn, 'timeout')
            else:
                raise ValueError(why)

        # -- the loss monitor -------------------------------------------------------------------------------
        async def judge_loss(t_inject: float, why: str, n_init0: int, n_destr0: int, label: str, down: bool = False):
            closed = await wait_closed(t_inject, CLOSE_WAIT)
            if closed is None:
                add('loss_unnoticed')
                cover.append(('loss_unnoticed', f'{label}:{why}'))
                note('loss-unnoticed', label=label, reason=why, t=now(),
                     state=client.network.server_connection.state.name)
                return
            t_closed, derived = closed
            # (a suspending listener delays the END of the CLOSED dispatch; the connection is CLOSED, and the reconnect
            # timeout runs, from the first delivery on)
            first = [x for x in st.get('closed_first', []) if x[0] >= t_inject]
            t_done = t_closed
            if first:
                t_closed, derived = first[0]
            await settle(1.0)
            n_destr = n_events(SessionDestroyedEvent) - n_destr0
            n_sessions = n_events(SessionInitializedEvent) - n_destr0      # sessions not yet destroyed before the loss
            add('losses_judged')
            cover.append(('loss_points', f'{label}:{why}'))
            cover.append(('derived_close_reasons', f'{why}->{derived}'))
            wit = {'at': label, 'injected': why, 'derived_close_reason': derived, 't_inject': t_inject,
                   't_closed': t_closed, 'sessions_open_before_loss': n_sessions}
            if cfg.get('susp'):
                wit['destroyed_listener_suspends'] = cfg['susp']
                wit['closed_dispatch_ended_at'] = t_done
                wit['closed_notifications'] = list(st.get('closed_first', []))[:6]
            note('loss', **wit)
            if n_destr != min(1, max(0, n_sessions)):
                violation(f'loss:session-destroyed-count:{n_destr}{"" if n_sessions else "-without-session"}:{why}',
                          **wit, session_destroyed_events=n_destr)
            # order: the nearest server-connection state before a SessionDestroyedEvent is CLOSED
            last_state = None
            for _, ev in h.events:
                if isinstance(ev, ConnectionStateChangedEvent):
                    if isinstance(ev.connection, ServerConnection):
                        last_state = ev.state.name
                elif isinstance(ev, SessionDestroyedEvent) and last_state != 'CLOSED':
                    violation('loss:destroyed-before-closed', **wit, server_connection_state_then=last_state)
            # residue
            add('residue_checks')
            if client.session is not None:
                violation(f'loss:residue:session:{why}', **wit)
            users = sorted(n for n in client.users.users if n not in st['exclude_users'])
            tracked = sorted(n for n in tm._tracked_users if n not in st['exclude_users'])
            if tracked:
                # (the tracking entries hold the User objects: users that are only there because they are still
                # tracked belong to this finding)
                violation(f'loss:residue:tracking:{why}', **wit, tracked_users={
                    n: {'flags': str(tm._tracked_users[n].flags), 'state': tm._tracked_users[n].state.name}
                    for n in tracked}, users_left=users,
                    session_of_the_user_manager_still_set=client.users._session is not None)
                st['residue_tracked'] = set(tracked)
                st['residue_detail'] = viol[-1][1]
            users = [n for n in users if n not in tracked]
            if users:
                violation(f'loss:residue:users:{why}', **wit, users=users)
            if client.rooms.rooms:
                violation(f'loss:residue:rooms:{why}', **wit, rooms=sorted(client.rooms.rooms))
            params_left = {a: getattr(dn, a) for a in ('parent_min_speed', 'parent_speed_ratio', 'min_parents_in_cache',
                                                       'parent_inactivity_timeout', 'distributed_alive_interval')
                           if getattr(dn, a) is not None}
            if params_left:
                violation(f'loss:residue:distributed-params:{why}', **wit, left=params_left)
            await check_execute(f'after-loss:{label}')

            # reconnect
            def attempts_after():
                return [e for e in w.net.connect_log if e['node'] == ME and e['port'] == server.port and e['t'] >= t_closed]

            def logins_after():
                return [(round(t, 4), s.no) for s in server.sessions for t, m in s.frames
                        if isinstance(m, M.Login.Request) and t >= t_closed]
            expect = bool(cfg['auto']) and why in ('rst', 'etimedout', 'silent', 'reset-while-sending')
            add('reconnects_judged')
            cover.append(('reconnect_cells', f"{why}:auto-{'on' if cfg['auto'] else 'off'}"))
            if expect:
                t_ref = t_closed
                if down:
                    # the server is unreachable for a while: the attempts fail (CLOSED again and again); the lost
                    # session must not be destroyed a second time
                    await settle(12.0)
                    failed = attempts_after()
                    n_again = n_events(SessionDestroyedEvent) - n_destr0
                    add('failed_reconnect_attempts', len(failed))
                    if n_again != n_destr:
                        violation(f'loss:session-destroyed-count:{n_again}:{why}', **wit, session_destroyed_events=n_again,
                                  after_failed_reconnect_attempts=[e['t'] for e in failed],
                                  closed_events=st['closed'][:8])
                    await server.start()
                    t_ref = now()
                left = t_ref + RECONNECT_BOUND - w.now
                if left > 0:
                    await settle(left)
                att = [e for e in attempts_after() if e['t'] >= t_ref]
                logs = [x for x in logins_after() if x[0] >= t_ref]
                note('reconnect', attempts=[e['t'] for e in att], logins=logs)
                if not att or not logs:
                    violation(f'loss:no-reconnect:{why}', **wit, bound_s=RECONNECT_BOUND,
                              connect_attempts=[e['t'] for e in att], login_frames=logs,
                              watchdog_running=client.network._connection_watchdog_task.is_running())
                else:
                    sess = server.sessions[logs[0][1]]
                    if sess.logged_in:
                        await judge_login_of(sess, logs[0][0], f'relogin-after:{label}')
            else:
                await settle(HOUR)
                st['spent_hour'] = True
                att = attempts_after()
                if att:
                    violation('loss:reconnect-although:' + (f'{why}:seen-as-{derived}' if cfg['auto'] else 'auto-off'), **wit,
                              reconnect_auto=bool(cfg['auto']), connect_attempts=[e['t'] for e in att][:5],
                              login_frames=logins_after()[:5])

        # -- the stop monitor ---------------------------------------------------------------------------------
        async def stop_and_judge(label: str, in_loss: Optional[dict] = None):
            at_return: list = []

            async def stopper():
                st['state_at_stop'] = client.network.server_connection.state.name
                st['accepted_open_at_stop'] = len([tr for tr in w.net.open_transports(owner=ME) if tr.side == 'b'])
                if point == 'relogin-wait':
                    st['relogin_pending_at_stop'] = (st.get('relogin_frame_at') is not None and
                                                     st.get('relogin_answered_at') is None and client.session is None)
                await client.stop()
                at_return.extend(describe(t) for t in library_tasks())
            if in_loss is None:
                task = w.spawn(ME, stopper(), name='vf-stop')
            else:
                # stop() inside an unrequested loss: k loop steps after the CLOSING notification of the server connection
                # (an application task), or awaited by an application listener of that notification
                st['stretch'] = int(in_loss.get('stretch') or 0)
                if in_loss['via'] == 'listener':
                    stopped = w.loop.create_future()

                    async def from_listener():
                        await stopper()
                        stopped.set_result(None)
                    st['stop_in_listener'] = from_listener

                    async def wait_stopped():
                        await stopped
                    task = w.spawn(ME, wait_stopped(), name='vf-stop')
                else:
                    st['closing_fut'] = w.loop.create_future()

                    async def after_closing():
                        await st['closing_fut']
                        for _ in range(int(in_loss['k'])):
                            await asyncio.sleep(0)
                        await stopper()
                    task = w.spawn(ME, after_closing(), name='vf-stop')
                await asyncio.sleep(0)
                inject(in_loss['reason'])
            done, _ = await asyncio.wait({task}, timeout=300.0)
            if not done:
                info['stop_hung'] = {'at': label, 'library_tasks': [describe(t) for t in library_tasks()][:12]}
                task.cancel()
                return
            task.result()
            st['stop_done'] = True
            t_stop = w.now
            n_exc0 = len(w.loop.exceptions)
            await settle(0)
            if any(tr._closing for tr in w.net.open_transports(owner=ME)):
                await settle(0.1)
            add('stops_judged')
            cover.append(('stop_points', label))
            wit = {'at': label, 't_stop': round(t_stop, 6)}
            if in_loss is not None:
                wit['server_connection_state_when_stop_was_called'] = st.get('state_at_stop')
                wit['close_reason_of_the_loss'] = st.get('closing_reason')
                wit['stop_issued'] = dict(in_loss)
                cover.append(('in_loss_state_at_stop', f"{in_loss['via']}:k{in_loss.get('k')}:stretch{in_loss.get('stretch')}"
                                                       f"->{st.get('state_at_stop')}"))
                if st.get('state_at_stop') == 'CLOSING':
                    add('stops_inside_a_loss')
            if at_return:
                add('tasks_pending_at_the_very_return', len(at_return))
            if st.get('incoming') and st.get('accepted_open_at_stop'):
                add('silent_incoming_peers_at_stop', st['accepted_open_at_stop'])
            if point == 'relogin-wait':
                wit['relogin'] = {'login_frame_at_server': st.get('relogin_frame_at'), 'server_answers_after_s': cfg.get('delay'),
                                  'stop_issued': cfg.get('after'), 'login_unanswered_when_stop_was_called':
                                  st.get('relogin_pending_at_stop')}
                if st.get('relogin_pending_at_stop'):
                    add('stops_while_relogin_awaits_its_answer')
            open_now = w.net.open_transports(owner=ME)
            if open_now:
                accepted_only = all(tr.side == 'b' for tr in open_now)
                violation('stop:open-endpoint' + (':accepted-peer-awaiting-init' if accepted_only and st.get('incoming')
                                                  else ''), **wit, when='after stop() returned',
                          endpoints=[{'conn': tr.conn.id, 'to_port': tr.conn.port, 'dialer': tr.conn.src,
                                      'acceptor': tr.conn.dst, 'closing': tr._closing} for tr in open_now][:6])
            lst = w.net.listeners_of(ME)
            if lst:
                violation('stop:listener-left', **wit, ports=[x.port for x in lst])
            survivors = library_tasks()
            by_kind: dict = {}
            for t in survivors:
                by_kind.setdefault(task_kind(t), []).append(t)
            if 'potential-parent' in by_kind and 'peer-connect-attempt' in by_kind:
                # race mode: the two attempts of a distributed ('D') connection are children of the potential-parent task
                children = [t for t in by_kind['peer-connect-attempt'] if '-D-' in t.get_name()]
                by_kind['potential-parent'] += children
                by_kind['peer-connect-attempt'] = [t for t in by_kind['peer-connect-attempt'] if t not in children]
                if not by_kind['peer-connect-attempt']:
                    del by_kind['peer-connect-attempt']
            if open_now and 'accept' in by_kind and len(by_kind['accept']) <= len(open_now):
                # the accept handler that still waits for the init message of an open accepted connection: same finding
                viol[-1 if not lst else -2][1]['accept_tasks_of_the_open_connections'] = [
                    describe(t) for t in by_kind.pop('accept')][:6]
            if open_now and 'reader' in by_kind and len(by_kind['reader']) <= len(open_now):
                # the reader task of a connection that is still open is part of that finding
                viol[-1 if not lst else -2][1]['reader_tasks_of_the_open_connections'] = [
                    describe(t) for t in by_kind.pop('reader')][:6]
            gone = sorted({d['name'].rstrip('0123456789') + ':' + d['coroutine'] for d in at_return
                           if d['name'] not in {t.get_name() for t in survivors}})
            for g in gone:
                cover.append(('pending_at_the_very_return_but_gone_within_the_instant', g))
            note('stop', **wit, pending=sorted(by_kind), at_return=[d['name'] for d in at_return][:8])

            window = 700.0 if st['spent_hour'] else HOUR
            # SimNet ground truth again some seconds later: every connect that was pending at stop() (latency <= 5 s)
            # has completed by then
            # (8 s: every connect pending at stop(), latency <= 5 s, has completed; 12 s >= reconnect timeout + 5 s: a
            # reconnect watchdog that survived has connected again)
            await asyncio.sleep(8.0)
            await settle(0)
            open_8s = [tr for tr in w.net.open_transports(owner=ME) if tr not in open_now]
            await asyncio.sleep(4.0)
            await settle(0)
            open_8s += [tr for tr in w.net.open_transports(owner=ME) if tr not in open_now and tr not in open_8s]
            st['attempts_12s'] = [e['t'] for e in w.net.connect_log if e['node'] == ME and e['t'] > t_stop]
            await asyncio.sleep(window - 12.0)
            await settle(0)
            for kd, tasks in sorted(by_kind.items()):
                fates = []
                for t in tasks:
                    if not t.done():
                        fates.append('still pending')
                    elif t.cancelled():
                        fates.append('cancelled later')
                    else:
                        exc = t.exception()
                        fates.append('returned later' if exc is None else f'raised {type(exc).__name__} later')
                violation(f'stop:pending-task:{kd}', **wit, tasks=[describe(t) for t in tasks][:6],
                          fate_within_the_following_s=window, fates=fates[:6])
            att = [e for e in w.net.connect_log if e['node'] == ME and e['t'] > t_stop]
            server_att = [e for e in att if e['port'] == server.port]
            peer_att = [e for e in att if e['port'] != server.port]
            late = [t for t in library_tasks() if t not in survivors]
            late_kinds = sorted({task_kind(t) for t in late})
            wrote = [(round(t - 1000.0, 4), len(d)) for c in server_conns() for t, dr, d in c.wlog
                     if dr == 'a2b' and t - 1000.0 > t_stop]
            open_later = [tr for tr in w.net.open_transports(owner=ME) if tr not in open_now]
            open_later += [tr for tr in open_8s if tr not in open_later]

            def instantly_dropped(c) -> bool:
                # the TCP connect of an attempt begun before stop() completes and the client closes it within the same
                # instant without having written a byte: accepted ('no connection is open')
                return (c.a.closed_at is not None and c.a.closed_at - c.opened <= 1e-9
                        and not c.stream('a2b', delivered=False))
            est_all = [c for c in w.net.conns if c.src == ME and c.opened - 1000.0 > t_stop and
                       not any(e.get('conn') == c.id for e in att)]
            est = [c for c in est_all if not instantly_dropped(c)]
            if len(est_all) > len(est):
                add('connects_completed_after_stop_and_dropped_at_once', len(est_all) - len(est))
            st['reconnected_after_stop'] = bool(server_att)
            if server_att:
                # one finding: the client connects to the server again; a new login, its frames, the tasks of the new
                # session and the open connection are consequences
                violation('stop:connect-after-stop:server', **wit,
                          attempts=[{k_: e[k_] for k_ in ('t', 'host', 'port', 'outcome')} for e in server_att][:6],
                          watchdog_task_survived_stop='watchdog' in by_kind,
                          attempts_within_12_s_after_stop=st.get('attempts_12s'),
                          server_connection_state_at_stop=st.get('state_at_stop'),
                          consequences={'session_object_set_at_the_end': client.session is not None,
                                        'writes_to_the_server': wrote[:6], 'tasks_started_later': late_kinds,
                                        'login_frames': [round(t, 4) for s_ in server.sessions for t, m in s_.frames
                                                         if isinstance(m, M.Login.Request) and t > t_stop][:4],
                                        'endpoints_open_at_the_end': len(open_later)})
            else:
                for kd in late_kinds:
                    violation(f'stop:pending-task:{kd}', **wit,
                              when=f'{window:g} s after stop() returned (started after stop())',
                              tasks=[describe(t) for t in late if task_kind(t) == kd][:6])
                if wrote:
                    violation('stop:frame-after-stop', **wit, writes=wrote[:6])
                if open_later and not est:
                    violation('stop:open-endpoint', **wit, when=f'{window:g} s after stop() returned',
                              endpoints=[{'conn': tr.conn.id, 'to_port': tr.conn.port, 'dialer': tr.conn.src}
                                         for tr in open_later][:6])
            if peer_att:
                violation('stop:connect-after-stop:peer', **wit,
                          attempts=[{k_: e[k_] for k_ in ('t', 'host', 'port', 'outcome')} for e in peer_att][:6])
            if est:
                violation('stop:connection-established-after-stop', **wit,
                          connections=[{'to': c.dst, 'port': c.port, 'established_at': round(c.opened - 1000.0, 4),
                                        'connection_attempt_began_at': next(
                                            (e['t'] for e in w.net.connect_log if e.get('conn') == c.id), None),
                                        'bytes_the_client_wrote_on_it': len(c.stream('a2b', delivered=False)),
                                        'open_8_s_after_stop': any(tr.conn is c for tr in open_8s),
                                        'closed_at': None if c.a.closed_at is None else round(c.a.closed_at - 1000.0, 4),
                                        'still_open_at_the_end': not c.a._lost} for c in est][:6],
                          surviving_tasks=sorted(by_kind))
            if w.net.listeners_of(ME) and not lst:
                violation('stop:listener-left', **wit, when='later', ports=[x.port for x in w.net.listeners_of(ME)])
            for e in w.loop.exceptions[n_exc0:]:
                if (e.get('task') or '') in harness_accept_tasks():
                    continue
                violation(f"safety:loop-exception-after-stop:{e.get('exc_type') or 'none'}", **wit, entry=e)
            if not st['reconnected_after_stop']:        # (a new session after stop() is part of that finding)
                await check_execute(f'after-stop:{label}')
                # whole run: every session that was initialised has been destroyed exactly once by now
                n_i, n_d = n_events(SessionInitializedEvent), n_events(SessionDestroyedEvent)
                add('whole_run_session_counts')
                if n_i != n_d:
                    violation(f'loss:session-destroyed-count:{n_d - n_i:+d}:whole-run', **wit,
                              session_initialized_events=n_i, session_destroyed_events=n_d,
                              server_connection_closed_events=st['closed'][:8])

        async def end_app_task():
            t = st.get('app_task')
            if t is None:
                return
            if not t.done():
                t.cancel()
            r = (await asyncio.gather(t, return_exceptions=True))[0]
            cover.append(('app_connect_outcomes', type(r).__name__))

        # =====================================================================================================
        # scenario
        try:
            await h.call(client.start())
            info['start'] = 'started'
        except Exception as exc:  # noqa  (documented outcome for some port configurations; judged by residue only)
            info['start'] = 'start-refused:' + type(exc).__name__
        cover.append(('port_cfgs', f"{cfg['ports']}->{info['start']}"))
        note('start', outcome=info['start'], listening=sorted(x.port for x in w.net.listeners_of(ME)))
        if info['start'] != 'started':
            await stop_and_judge('start-refused')
            return

        if shared_dirs:
            await h.call(client.shares.scan())
        await settle(0.5)
        label = f'{point}' + (f':{k}' if k is not None else '') + (f':{work}' if work else '')

        async def login_expect_ok() -> Optional[Any]:
            t0 = w.now
            out_ = await do_login()
            info['login_outcome'] = out_
            cover.append(('login_outcomes', f'{login_mode}->{out_}'))
            if out_ != 'ok':
                return None
            return server.sessions[-1], t0

        if kind == 'stop':
            if point == 'before-login':
                await check_execute('before-login')
            elif point == 'during-login':
                ltask = w.spawn(ME, client.login(), name='vf-login')
                await settle(1.0)
                await check_execute('during-login')
                st['ltask'] = ltask
            elif point.startswith('failed-login:'):
                out_ = await do_login()
                info['login_outcome'] = out_
                cover.append(('login_outcomes', f'{login_mode}->{out_}'))
                await settle(0.5)
                await check_execute(f'after-{point}')
            elif point == 'burst':
                got = await login_expect_ok()
                if got is None:
                    raise RuntimeError(f'login failed: {info["login_outcome"]}')
                await asyncio.sleep(0.05 * k + 0.025)
                cover.append(('burst_stop_points', k))
            elif point == 'inflight':
                got = await login_expect_ok()
                if got is None:
                    raise RuntimeError(f'login failed: {info["login_outcome"]}')
            else:
                got = await login_expect_ok()
                if got is None:
                    raise RuntimeError(f'login failed: {info["login_outcome"]}')
                await judge_login_of(got[0], got[1], 'first-login')
                if point == 'pending':
                    await start_work(work)
                elif point == 'relogin-wait':
                    st['relogin_fut'] = w.loop.create_future()
                    inject('rst')
                    await asyncio.wait_for(st['relogin_fut'], RECONNECT_BOUND + 5.0)
                    after = cfg.get('after') or ['y', 0]
                    if after[0] == 'y':
                        for _ in range(int(after[1])):
                            await asyncio.sleep(0)
                    else:
                        await asyncio.sleep(float(after[1]))
                elif point in ('reconnect-wait', 'relogged'):
                    t_inj = now()
                    inject('rst')
                    closed = await wait_closed(t_inj, CLOSE_WAIT)
                    if closed is None:
                        raise RuntimeError('client did not notice the RST')
                    await settle(2.0 if point == 'reconnect-wait' else RECONNECT_BOUND + 2.0)
                elif point == 'after-requested':
                    await h.call(client.network.disconnect_server())
                    await settle(2.0)
                elif point == 'after-eof':
                    inject('eof')
                    await settle(2.0)
            if point == 'in-loss':
                await stop_and_judge(label + f":{cfg.get('via')}:stretch{cfg.get('stretch')}",
                                     in_loss={'via': cfg.get('via', 'task'), 'k': k or 0, 'stretch': cfg.get('stretch', 0),
                                              'reason': reason or 'rst'})
            else:
                await stop_and_judge(label)
            await end_app_task()
            ltask = st.get('ltask')
            if ltask is not None:
                if not ltask.done():
                    violation('stop:pending-task:login', at=label, note='login() still blocked an hour after stop()')
                    ltask.cancel()
                await asyncio.gather(ltask, return_exceptions=True)
                info['login_outcome'] = 'cancelled' if ltask.cancelled() else (
                    type(ltask.exception()).__name__ if ltask.exception() else 'ok')
                cover.append(('login_outcomes', f'silent+stop->{info["login_outcome"]}'))
            return

        # -- kind == 'loss' ---------------------------------------------------------------------------------------
        if point == 'pre-login':
            t_inj = now()
            if reason == 'requested':
                await h.call(client.network.disconnect_server())
            else:
                inject(reason)
            await settle(1.0)
            out_ = await do_login()
            info['login_outcome'] = out_
            cover.append(('login_outcomes', f'after-{reason}->{out_}'))
            await judge_loss(t_inj, reason, 0, 0, label)
        elif point == 'at-login':
            t_inj = now()
            out_ = await do_login()
            info['login_outcome'] = out_
            cover.append(('login_outcomes', f'{login_mode}->{out_}'))
            await judge_loss(t_inj, reason, 0, 0, label)
        elif point == 'burst':
            t_inj = now()
            out_ = await do_login()
            info['login_outcome'] = out_
            cover.append(('login_outcomes', f'cut-after-{k}->{out_}'))
            cover.append(('burst_cut_points', k))
            await judge_loss(t_inj, reason, 0, 0, label)
        elif point == 'client-burst':
            st['arm'] = True
            out_ = await do_login()
            st['arm'] = False
            info['login_outcome'] = out_
            if st.get('t_cut') is None:
                # fewer than k frames are written with these settings: no loss happened
                cover.append(('client_burst_beyond_the_last_frame', k))
                cover.append(('login_outcomes', f'no-cut->{out_}'))
                await settle(2.0)
            else:
                cover.append(('login_outcomes', f'reset-at-own-frame->{out_}'))
                cover.append(('client_burst_cut_points', k))
                add('client_burst_cuts_inside_login' if not st['closed'] or st['closed'][0][0] <= st['t_cut'] + 1e-9
                    else 'client_burst_cuts_noticed_later')
                note('reset-while-sending', k=k, t=st['t_cut'], session_object_set_at_that_write=st['session_at_cut'])
                await judge_loss(st['t_cut'], reason, 0, 0, label)
        else:
            got = await login_expect_ok()
            if got is None:
                raise RuntimeError(f'login failed: {info["login_outcome"]}')
            await judge_login_of(got[0], got[1], 'first-login')
            if point == 'pending':
                await start_work(work)
            n_destr0 = n_events(SessionDestroyedEvent)
            t_inj = now()
            if reason == 'requested':
                await h.call(client.network.disconnect_server())
            else:
                inject(reason)
            if point == 'idle-down':
                server.stop_listening()
            await judge_loss(t_inj, reason, 0, n_destr0, label, down=point == 'idle-down')
        await stop_and_judge('final:' + label)
        await end_app_task()

    tag = f"{params.get('seed', 0)}:{params.get('idx', 0)}"
    holder: dict = {}

    async def wrapped(w: World):
        holder['w'] = w
        try:
            await main(w)
        finally:
            info['harness_accept_tasks'] = sorted(f'sim-accept-{c.id}' for c in w.net.conns if c.dst != ME)
        return True

    out = run_world(f'{ID}:{tag}', wrapped, wall_timeout=150)
    if out.inconclusive:
        res['inconclusive'] = out.inconclusive
        return res
    if info.get('stop_hung'):
        res['inconclusive'] = f"stop() did not return within 300 virtual seconds: {info['stop_hung']}"
        return res

    for sig, detail in viol:
        detail['trace'] = trace[-12:]
        runner.violation(res, sig, **detail)
    # safety nets over the whole run
    reported_loop = [v for v in viol if v[0].startswith('safety:loop-exception-after-stop')]
    for sig, detail in safety_net_violations(out, allow_msgs=('failed to bind listening port',)):
        if sig.startswith('loop-exception:') and reported_loop:
            continue
        if sig.startswith('loop-exception:') and (detail.get('task') or '') in (info.get('harness_accept_tasks') or ()):
            continue                      # the scripted server's own connection handler ending with the injected ETIMEDOUT
        if sig.startswith('error-log:'):
            exc_type = sig.split(':')[1]
            if exc_type in _NETWORK_ERRORS:
                continue
            if 'unhandled exception on loop' in (detail.get('msg') or ''):
                continue                  # the client's own loop exception handler logging what is reported above
        runner.violation(res, f'safety:{sig}', detail=detail, case={'kind': kind, 'point': point, 'reason': reason,
                                                                   'k': k, 'work': work, 'cfg': cfg}, trace=trace[-12:])
    for key, n in obs.items():
        runner.add_obs(res, key, n)
    for key, val in cover:
        runner.add_cover(res, key, val)
    runner.add_cover(res, 'kinds', f'{kind}:{point}')
    if obs.get('logins_judged') or obs.get('losses_judged') or obs.get('stops_judged'):
        res['csigs'].append(f"{cfg_sig(cfg)}|{login_mode}|{kind}:{point}"
                            f"{'' if k is None else ':' + str(k)}{'' if not work else ':' + work}|{reason}"
                            f"|{cfg.get('susp') or ''}|{cfg.get('via') or ''}{cfg.get('stretch') if cfg.get('via') else ''}"
                            f"|{cfg.get('delay') or ''}{cfg.get('after') or ''}")
    res['sample'] = {'params': {x: params[x] for x in ('kind', 'point', 'reason', 'k', 'work', 'cfg')},
                     'start': info['start'], 'login_outcome': info['login_outcome'], 'trace': trace[:20]}
    return res


def finish(total: dict, tier: str, seed: int) -> None:
    cov = total['cover']
    total['obs']['pending_work_kinds'] = len(cov.get('pending_work_kinds', []))
    total['obs']['burst_cut_points'] = len(cov.get('burst_cut_points', []))
    total['obs']['burst_stop_points'] = len(cov.get('burst_stop_points', []))
    total['obs']['client_burst_cut_points'] = len(cov.get('client_burst_cut_points', []))
    total['obs']['port_cfgs'] = len({str(v).split('->')[0] for v in cov.get('port_cfgs', [])})
